"""C08 (tier T3, bounded): sidecar validation is total and flags each structural fault.

Real code: Sidecar(io.StringIO(json_text)).validate(schema).
Parts
  total    every JSON document {"c": E} with E ranging over ALL values of depth <= 2 below the column entry (scalars, lists and
           objects with <= 2 members at every position, i.e. documents of depth 3), plus two-column documents pairing a probe
           column (valid / referencing {d}) with every shallow entry d, plus top-level non-objects: validate() returns a list
           and nothing is raised.
  faults   valid sidecars built from individually valid annotation strings (all small column layouts) -> no error issue;
           the same with exactly one injected structural fault -> an error-severity issue with the code of the broken rule.
           The reserved column name HED is injected both by renaming a column and as an added top-level entry whose value
           ranges over every JSON type (object, string, number, list, null, boolean).
The expected codes come from the property statement / the HED specification (SIDECAR_INVALID, PLACEHOLDER_INVALID,
SIDECAR_BRACES_INVALID; type faults may also carry the library's own type codes).
  definitions  valid sidecars with a definitions column ('#' tag of the definition at depth 1, 2, 3 of its content) and uses
           of the definitions -> no error issue; one faulty definition -> DEFINITION_INVALID in that column.
  def-expand-placeholder  value columns that use the WRITTEN-OUT form of a placeholder definition,
           (Def-expand/Name/#, <content with its '#'>) - by construction the same annotation as Def/Name/#, i.e. exactly one
           placeholder - at top level, nested, alone, next to a categorical column using the expanded form with a value, and
           referenced from another column -> no error issue; the same with a second real placeholder, or with no placeholder
           at all (expanded form with a value) -> PLACEHOLDER_INVALID; the '#' form inside a categorical entry ->
           PLACEHOLDER_INVALID.
  value-templates  value columns whose template is the empty string, blank, or an individually valid annotation without '#',
           alone, next to other columns, and referenced through {column} by a categorical or a value column (host before / after)
           -> an error for the placeholder rule (PLACEHOLDER_INVALID; for an empty / blank template the library's blank-entry
           codes are accepted as well), located at that column.
  definition-counts  definitions columns whose entries hold DIFFERENT NUMBERS of definitions (every vector of 1-3 entries with 1, 2
           or 3 definitions each, plain and '/#' definitions), used from other columns -> no error issue; the same column with one
           more entry that holds NO definition (plain tags, a group, a use of a definition) first / in the middle / last ->
           DEFINITION_INVALID in that column (a column holds definitions in all of its entries or in none).
  empty-maps  categorical columns whose HED map is empty, alone, with Levels / Description, next to valid columns at every position,
           twice, and referenced through {column}: nothing raised, and every error-severity issue is a type / blank-entry code
           (or, for a referencing column, a reference code) located at the empty column (or the column referring to it).
  type-matrix  every JSON value kind {null, true, false, 0, 1.5, "", [], {}, [..], [[..]..], nested object} written at each place of
           a valid value / categorical column: as the column entry itself, as the "HED" value, as one category's value, as
           "Levels" / "Description" next to a well-typed HED entry; the column alone and before / after other valid columns.  Never
           raises.  A "HED" value or a category value that is neither a string nor (for "HED") a string-valued map breaks the
           type rule, whatever non-string it is: an error with one of the library's DATA-TYPE codes (sidecarUnknownColumn,
           wrongHedDataType, blankValueString - not the code of another rule such as the reserved-name rule's SIDECAR_INVALID),
           located at that column; and relationally no value kind is special: the codes reported for null (true, 0, a list ...)
           are codes that another non-string value at the same place gets too.  "Levels" / "Description" of any type and an
           ill-typed column entry are no fault of the listed rules: no error (resp. the same verdict for every value kind).
"""
import copy
import io
import itertools
import json
import multiprocessing
import re
import warnings

from rt.common import Workload, main, schema

WORKERS = 14
REF_RE = re.compile(r"\{([A-Za-z0-9_\-]+)\}")

L_TOTAL = "C08.total.returns_list"
L_D6 = "C08.total.non_dict_column_entry"            # D6
L_D7 = "C08.total.ref_in_poundless_string"          # D7
L_TOP = "C08.total.top_level_not_object"
L_VALID = "C08.valid.no_error"
L_F_TYPE = "C08.fault.hed_entry_type"
L_F_VPOUND = "C08.fault.value_pound_count"
L_F_CPOUND = "C08.fault.category_pound"
L_F_HEDNAME = "C08.fault.hed_column_name"
L_F_NAKEY = "C08.fault.na_category_key"
L_F_BRACES = "C08.fault.braces_unbalanced"
L_F_UNKNOWN = "C08.fault.ref_unknown_column"
L_F_SELF = "C08.fault.ref_self"
L_F_NESTED = "C08.fault.ref_nested"
L_F_LOC = "C08.fault.location"
L_DEF_VALID = "C08.valid.definitions_no_error"
L_DEF_FAULT = "C08.defs.faulty_definition_reported"
L_DEF_MIXED = "C08.defs.mixed_column_reported"       # a column holds definitions in all of its entries or in none
L_EMPTYMAP = "C08.emptymap.errors_only_type_codes_at_that_column"
L_DEFX_VALID = "C08.valid.def_expand_placeholder_counts_once"   # (Def-expand/Name/#, (... # ...)) is ONE placeholder (= Def/Name/#)

TYPE_CODES = {"SIDECAR_INVALID", "wrongHedDataType", "sidecarUnknownColumn", "blankValueString"}
# the library's documented codes for "a HED entry has the wrong JSON type" (hed/errors/error_types.py: SidecarErrors.UNKNOWN_COLUMN_TYPE,
# WRONG_HED_DATA_TYPE, BLANK_HED_STRING).  SIDECAR_INVALID is what the reserved-name rule ('HED' misused as a name) and the n/a-key rule
# publish: a data-type fault reported ONLY under it is attributed to a rule that was not broken.
DATA_TYPE_CODES = {"wrongHedDataType", "sidecarUnknownColumn", "blankValueString"}
EXPECTED = {L_F_TYPE: TYPE_CODES, L_F_VPOUND: {"PLACEHOLDER_INVALID"}, L_F_CPOUND: {"PLACEHOLDER_INVALID"},
            L_F_HEDNAME: {"SIDECAR_INVALID"}, L_F_NAKEY: {"SIDECAR_INVALID"}, L_F_BRACES: {"SIDECAR_BRACES_INVALID"},
            L_F_UNKNOWN: {"SIDECAR_BRACES_INVALID"}, L_F_SELF: {"SIDECAR_BRACES_INVALID"},
            L_F_NESTED: {"SIDECAR_BRACES_INVALID"}}

_state = {}


def _env():
    if not _state:
        warnings.simplefilter("ignore")
        _state["schema"] = schema()
    return _state


def run_doc(doc_text):
    """-> (stage, payload): ('ok', issues) | ('ctor-hedfileerror', msg) | ('ctor', msg) | ('raise', msg) | ('type', msg)"""
    from hed.models.sidecar import Sidecar
    from hed.errors.exceptions import HedFileError
    try:
        sc = Sidecar(io.StringIO(doc_text))
    except HedFileError as e:
        return "ctor-hedfileerror", f"{type(e).__name__}: {e}"[:200]
    except Exception as e:
        return "ctor", f"{type(e).__name__}: {e}"[:200]
    try:
        issues = sc.validate(_env()["schema"])
    except Exception as e:
        return "raise", f"{type(e).__name__}: {e}"[:200]
    if not isinstance(issues, list) or not all(isinstance(i, dict) and "code" in i for i in issues):
        return "type", f"returned {type(issues).__name__}"
    return "ok", issues


def total_label(doc):
    if not isinstance(doc, dict):
        return L_TOP
    if any(not isinstance(v, dict) for v in doc.values()):
        return L_D6
    for name, e in doc.items():
        h = e.get("HED")
        if isinstance(h, str) and "#" not in h:
            if any(r not in doc and r != "HED" for r in REF_RE.findall(h)):
                return L_D7
    return L_TOTAL


def check_total(doc):
    text = json.dumps(doc)
    stage, payload = run_doc(text)
    label = total_label(doc)
    if label == L_TOP:
        ok = stage in ("ok", "ctor-hedfileerror")
    else:
        ok = stage == "ok"
    return [(label, ok, f"{stage}: {payload}" if stage != "ok" else "list", "a list of issues (or HedFileError when loading)"
             if label == L_TOP else "a list of issues, nothing raised")]


# ------------------------------------------------------------------------------------------------ JSON enumeration
def gen_values(depth, scalars, keys_by_level, level=0):
    """all JSON values of nesting depth <= `depth` with <= 2 members per container; object keys depend on the level"""
    if depth == 0:
        return list(scalars)
    sub = gen_values(depth - 1, scalars, keys_by_level, level + 1)
    out = list(scalars)
    out.append([])
    out += [[a] for a in sub]
    out += [[a, b] for a in sub for b in sub]
    keys = keys_by_level[min(level, len(keys_by_level) - 1)]
    out.append({})
    out += [{k: a} for k in keys for a in sub]
    out += [{k1: a, k2: b} for k1, k2 in itertools.combinations(keys, 2) for a in sub for b in sub]
    return out


def total_docs(quick):
    scalars = [None, True, 1, "", "Red", "Label/#", "{d}"]
    if not quick:
        scalars += [0, 2.5, "n/a", "{c}"]
    keys = [["HED", "Levels"], ["a", "n/a", "HED"]]
    entries = gen_values(2, scalars, keys)
    docs = [{"c": e} for e in entries]
    n_single = len(docs)
    sc2 = [None, 1, "", "Red", "Label/#", "{d}", "{c}"]
    shallow = gen_values(1, sc2, [["HED", "Levels"]])
    shallow += [{"HED": v} for v in gen_values(1, sc2 + ["{nosuch}"], [["a", "n/a"]]) if isinstance(v, (list, dict))]
    probes = [{"HED": "Label/#"}, {"HED": {"a": "Red", "b": "Blue"}}, {"HED": "Label/#, {d}"}, {"HED": {"a": "Red, {d}"}},
              {"HED": "{d}"}, {"HED": "{nosuch}, {d}"}, "rest"]
    for p in probes:
        for e in shallow:
            docs.append({"c": p, "d": e})
            docs.append({"d": e, "c": p})
    n_pair = len(docs) - n_single
    tops = [v for v in gen_values(1, scalars, [["c"]]) if not isinstance(v, dict)]
    docs += tops
    return docs, n_single, n_pair, len(tops)


# ------------------------------------------------------------------------------------------------ valid sidecars + faults
COLUMNS = {
    "val1": {"HED": "Label/#"},
    "val2": {"Description": "a duration", "HED": "(Duration/# s, (Green))"},
    "cat1": {"HED": {"a": "Red", "b": "(Blue, Square)"}},
    "cat2": {"Levels": {"x": "level x"}, "HED": {"x": "Circle"}},
    "ign1": {"Description": "no annotation here", "Levels": {"p": "q"}},
    # (r3: a reference written with blanks inside its own parentheses - the blank belongs to the brackets that go with the reference)
    "refc": {"HED": {"r1": "Triangle, {val1}", "r2": "({cat1}), Cross", "r3": "(Square, ( {cat1} )), ( {val1}), Cross"}},
    "refv": {"HED": "Label/#, {HED}"},
    # the HED column of the events table may be absent from a row (the reference is then removed with the brackets that go with it): written
    # with blanks inside those brackets
    "refh": {"HED": {"h1": "(Red, ( {HED}))", "h2": "Blue, ( {HED} ), Cross", "h3": "( ( {HED} ), Green)"}},
}
NEEDS = {"refc": {"val1", "cat1"}}


def bases(quick):
    """column layouts of the valid sidecars: every reference-closed subset of the 7 columns with <= 3 (thorough: 4) columns
    in every order (4-subsets: listed and reversed order), plus all 7 columns in two orders"""
    names = list(COLUMNS)
    out = []
    for k in (1, 2, 3):
        for sub in itertools.combinations(names, k):
            if all(NEEDS.get(n, set()) <= set(sub) for n in sub):
                out += [list(p) for p in itertools.permutations(sub)]
    if not quick:
        for sub in itertools.combinations(names, 4):
            if all(NEEDS.get(n, set()) <= set(sub) for n in sub):
                out += [list(sub), list(reversed(sub))]
    out += [names, list(reversed(names))]
    return out
EXTRA_STRINGS = ["Red", "(Blue, Square)", "Circle", "Triangle, Cross", "((Green, Square), Blue)", "Label/#",
                 "(Duration/# s, (Green))", "Label/#", "Age/# years"]


def kind(entry):
    h = entry.get("HED") if isinstance(entry, dict) else None
    return "cat" if isinstance(h, dict) else "val" if isinstance(h, str) else "ign"


def referenced(doc):
    out = set()
    for e in doc.values():
        if kind(e) == "cat":
            for s in e["HED"].values():
                out.update(REF_RE.findall(s))
        elif kind(e) == "val":
            out.update(REF_RE.findall(e["HED"]))
    return out


def has_refs(entry):
    strings = list(entry["HED"].values()) if kind(entry) == "cat" else [entry["HED"]] if kind(entry) == "val" else []
    return any(REF_RE.search(s) for s in strings)


def _append(entry, suffix):
    """append text to (the first string of) a column's annotation"""
    e = copy.deepcopy(entry)
    if kind(e) == "cat":
        k = next(iter(e["HED"]))
        e["HED"][k] = e["HED"][k] + suffix
    else:
        e["HED"] = e["HED"] + suffix
    return e


def faults_for(base_names):
    """yield (clause, description, faulted document, involved columns) - exactly one rule broken each"""
    doc0 = {n: copy.deepcopy(COLUMNS[n]) for n in base_names}
    refd = referenced(doc0)
    for name in base_names:
        entry = doc0[name]
        k = kind(entry)
        if k == "ign":
            continue

        def with_entry(new_entry, new_name=None):
            d = {}
            for n in base_names:
                if n == name:
                    d[new_name or n] = new_entry
                else:
                    d[n] = copy.deepcopy(doc0[n])
            return d

        not_referenced = name not in refd
        # R1 types
        if not_referenced:
            for bad in (1, None, True, ["Red"], [], 2.5):
                e = copy.deepcopy(entry)
                e["HED"] = bad
                yield L_F_TYPE, f"{name}.HED := {json.dumps(bad)}", with_entry(e), [name]
        if k == "cat" and not_referenced:
            for bad in (1, None, ["Red"], {"HED": "Red"}, True, 2.5):
                for key in list(entry["HED"]):
                    e = copy.deepcopy(entry)
                    e["HED"][key] = bad
                    yield L_F_TYPE, f"{name}.HED[{key}] := {json.dumps(bad)}", with_entry(e), [name]
        # R2 / R3 placeholders
        if k == "val":
            e = copy.deepcopy(entry)
            e["HED"] = entry["HED"] + ", Description/#"
            yield L_F_VPOUND, f"{name}: two '#'", with_entry(e), [name]
            e = copy.deepcopy(entry)
            e["HED"] = entry["HED"].replace("#", "3")
            if not REF_RE.search(e["HED"]):  # a '#'-less string with references is the D7 shape, kept in part 'total'
                yield L_F_VPOUND, f"{name}: no '#'", with_entry(e), [name]
        if k == "cat":
            for key in list(entry["HED"]):
                e = copy.deepcopy(entry)
                e["HED"][key] = entry["HED"][key] + ", Label/#"
                yield L_F_CPOUND, f"{name}[{key}] gets a '#'", with_entry(e), [name]
        # R4 HED as column name (only when nothing references this column, else the reference breaks as well)
        if not_referenced and "HED" not in refd:
            yield L_F_HEDNAME, f"{name} renamed to HED", with_entry(copy.deepcopy(entry), "HED"), ["HED"]
        # R5 n/a key
        if k == "cat":
            e = copy.deepcopy(entry)
            e["HED"]["n/a"] = "Gray"
            yield L_F_NAKEY, f"{name} gets key n/a", with_entry(e), [name]
            key = next(iter(entry["HED"]))
            e = copy.deepcopy(entry)
            e["HED"] = {("n/a" if kk == key else kk): v for kk, v in entry["HED"].items()}
            yield L_F_NAKEY, f"{name}: key {key} renamed to n/a", with_entry(e), [name]
        # reference faults: host must not itself be referenced (that would be nesting), target must be reference-free
        if not_referenced:
            targets = [t for t in base_names if t != name and kind(doc0[t]) != "ign" and not has_refs(doc0[t])]
            target = targets[0] if targets else "HED"
            for suffix in (", {%s" % target, ", %s}" % target, ", {{%s}}" % target, ", {%s}}" % target, ", {", ", }",
                           ", {{%s}" % target, ", }{%s}" % target, ", {%s{%s}" % (target, target)):
                yield L_F_BRACES, f"{name}: append {suffix!r}", with_entry(_append(entry, suffix)), [name]
            yield L_F_UNKNOWN, f"{name}: append ', {{nosuch}}'", with_entry(_append(entry, ", {nosuch}")), [name]
            if "ign1" in base_names:
                yield L_F_UNKNOWN, f"{name}: reference to the ignored column", with_entry(_append(entry, ", {ign1}")), [name]
            yield L_F_SELF, f"{name}: append own name", with_entry(_append(entry, ", {%s}" % name)), [name]
        # R9 nesting: a column that is referenced gets a reference of its own
        if name in refd and not has_refs(entry):
            others = [t for t in base_names if t != name and kind(doc0[t]) != "ign" and not has_refs(doc0[t])
                      and t not in refd]
            tgt = others[0] if others else "HED"
            hosts = [h for h in base_names if name in referenced({h: doc0[h]})]
            yield L_F_NESTED, f"{name} (referenced) gets a reference to {tgt}", with_entry(_append(entry, ", {%s}" % tgt)), \
                [name] + hosts


HED_NAME_VALUES = [{"HED": {"a": "Green"}}, {"HED": "Label/#"}, {"Description": "annotations"}, {"Levels": {"a": "b"}}, {}, {"HED": {}},
                   "Green", "", "Label/#", "n/a", 5, 0, 2.5, ["Green"], [], [{"HED": "Red"}], None, True, False]


def hed_name_faults(base_names, k=0):
    """the reserved name HED used as a top-level entry of an otherwise valid sidecar, its value ranging over every JSON type
    (objects with / without annotations, strings, numbers, lists, null, booleans), first / in the middle / last"""
    doc0 = {n: copy.deepcopy(COLUMNS[n]) for n in base_names}
    if "HED" in referenced(doc0):
        return          # {HED} refers to the HED column of the events table: a sidecar entry of that name changes its meaning as well
    for vi, value in enumerate(HED_NAME_VALUES):
        for pos in sorted({0, len(base_names) // 2, len(base_names)}):
            names = list(base_names)
            names.insert(pos, "HED")
            doc = {n: (copy.deepcopy(value) if n == "HED" else copy.deepcopy(doc0[n])) for n in names}
            yield L_F_HEDNAME, "entry HED := %s at position %d" % (json.dumps(value), pos), doc, ["HED"]


def error_issues(issues):
    from hed.errors.error_types import ErrorSeverity
    return [i for i in issues if i.get("severity") == ErrorSeverity.ERROR]


def check_valid(doc):
    stage, payload = run_doc(json.dumps(doc))
    if stage != "ok":
        return [(total_label(doc), False, f"{stage}: {payload}", "a list of issues, nothing raised")]
    errs = [(i["code"], i.get("ec_sidecarColumnName"), i.get("ec_sidecarKeyName")) for i in error_issues(payload)]
    return [(L_TOTAL, True, None, None), (L_VALID, not errs, errs, "no error-severity issue")]


def check_fault(clause, doc, involved, codes=None):
    stage, payload = run_doc(json.dumps(doc))
    if stage != "ok":
        return [(total_label(doc), False, f"{stage}: {payload}", "a list of issues, nothing raised")]
    errs = error_issues(payload)
    got = [(i["code"], i.get("ec_sidecarColumnName"), i.get("ec_sidecarKeyName")) for i in errs]
    wanted = set(codes) if codes else EXPECTED[clause]
    hit = [i for i in errs if i["code"] in wanted]
    res = [(L_TOTAL, True, None, None),
           (clause, bool(hit), got, {"an error with code in": sorted(wanted)})]
    if hit:
        where = [i.get("ec_sidecarColumnName") for i in hit]
        res.append((L_F_LOC, all(c is None or c in involved for c in where), where, {"column in": involved}))
    return res


def valid_docs(quick):
    docs = []
    for base in bases(quick):
        docs.append({n: copy.deepcopy(COLUMNS[n]) for n in base})
    # the same layouts with other individually valid strings rotated in (reference-free columns only)
    k = 0
    for base in bases(quick):
        for rot in range(2 if quick else len(EXTRA_STRINGS)):
            d = {n: copy.deepcopy(COLUMNS[n]) for n in base}
            for n in base:
                e = d[n]
                if has_refs(e) or n in referenced(d):
                    continue
                if kind(e) == "val":
                    cands = [s for s in EXTRA_STRINGS if "#" in s]
                    e["HED"] = cands[(rot + k) % len(cands)]
                elif kind(e) == "cat":
                    cands = [s for s in EXTRA_STRINGS if "#" not in s]
                    for j, key in enumerate(list(e["HED"])):
                        e["HED"][key] = cands[(rot + k + j) % len(cands)]
                k += 1
            docs.append(d)
    uniq = {}
    for d in docs:
        uniq.setdefault(json.dumps(d), d)
    return list(uniq.values())


# ------------------------------------------------------------------------------------------------ sidecars with definitions
DEF_NAME = "Pdef"
PLAIN_DEF = "(Definition/Plain, (Red, (Blue)))"


def def_docs(quick):
    """-> (valid documents, faulty documents).  A dummy column 'defs' holds definitions whose placeholder tag stands at
    depth 1, 2, 3 of the content (layouts of rt/c09_depth.py); other columns use them (Def/Name/v at depth 0 and 2, the
    written-out Def-expand group, Def/Name/# in a value column, a {reference} to the using column).  Valid: every string
    is valid on its own (content with the value plugged in is checked as precondition) and all structural rules hold.
    Faulty: the same sidecar with ONE definition broken (two '#', '##', '#' on a non-value tag, no '#', or a name without
    '/#' on content with '#') - the C09 acceptance rule seen through the sidecar entry point."""
    from rt import c09_depth as D
    valid, faulty, strings = [], [], set()
    k = 0
    for ctext, depth, layout, nhash, on_value, v in D.single_slot_contents():
        d1 = "(Definition/%s/#, %s)" % (DEF_NAME, ctext)
        meta = {"layout": layout, "hash_depths": D.depth_of_hash(ctext), "definition": d1}
        if v is None:
            faulty.append(({"defs": {"HED": {"d1": d1, "d2": PLAIN_DEF}}, "cat": {"HED": {"a": "Red", "b": "(Def/Plain, Square)"}}},
                           meta))
            continue
        k += 1
        use = "Def/%s/%s" % (DEF_NAME, v)
        plugged = ctext.replace("#", v)
        strings.update([plugged, ctext])
        text_placeholder = ctext.count("Label/#") == 1
        val = "Def/%s/#, Blue" % DEF_NAME if text_placeholder else "Label/#"
        variants = [
            {"defs": {"HED": {"d1": d1, "d2": PLAIN_DEF}},
             "cat": {"HED": {"a": use + ", Red", "b": "(Def/Plain, Square)"}}},
            {"cat": {"HED": {"a": "(Circle, (%s, Triangle))" % use, "b": "Def/Plain"}}, "val": {"HED": val},
             "defs": {"HED": {"d": d1 + ", " + PLAIN_DEF}}},
            {"defs": {"HED": {"d1": d1}}, "cat": {"HED": {"a": "(Def-expand/%s/%s, %s), Cross" % (DEF_NAME, v, plugged)}}},
            {"defs": {"Description": "definitions only", "HED": {"d2": PLAIN_DEF, "d1": d1}}, "cat": {"HED": {"a": use, "b": "Red"}},
             "refc": {"HED": {"r": "(Square, {cat})"}}},
        ]
        for j, doc in enumerate(variants):
            if quick and (j + k) % 2:
                continue
            valid.append((doc, dict(meta, variant=j)))
        # the same content under a name without '/#'
        if k % 4 == depth % 4:
            d3 = "(Definition/Plain, %s)" % ctext
            faulty.append(({"defs": {"HED": {"d1": d3}}, "cat": {"HED": {"a": "Red"}}}, dict(meta, definition=d3)))
    for ctext, depths, layout, nhash, on_value, v in D.two_slot_contents():
        d1 = "(Definition/%s/#, %s)" % (DEF_NAME, ctext)
        meta = {"layout": layout, "hash_depths": D.depth_of_hash(ctext), "definition": d1}
        if v is None:
            faulty.append(({"cat": {"HED": {"a": "Red"}}, "defs": {"HED": {"d1": d1}}}, meta))
        else:
            strings.update([ctext.replace("#", v), ctext])
            valid.append(({"defs": {"HED": {"d1": d1}}, "cat": {"HED": {"a": "Def/%s/%s" % (DEF_NAME, v)}}}, dict(meta, variant=0)))
    return valid, faulty, sorted(strings)


def check_def_valid(doc, label=L_DEF_VALID):
    stage, payload = run_doc(json.dumps(doc))
    if stage != "ok":
        return [(L_TOTAL, False, f"{stage}: {payload}", "a list of issues, nothing raised")]
    errs = [(i["code"], i.get("ec_sidecarColumnName"), i.get("ec_sidecarKeyName")) for i in error_issues(payload)]
    return [(L_TOTAL, True, None, None), (label, not errs, errs, "no error-severity issue")]


def defx_docs(quick):
    """-> (valid [(doc, meta)], faults [(clause, description, doc, involved)]): the expanded form of a '/#' definition with the
    placeholder kept, '(Def-expand/Name/#, <content>)'.  Contents: the single-placeholder layouts of rt/c09_depth.py ('#' at
    depth 1, 2, 3) on tags whose placeholder carries no unit (with a unit, 'Def/Name/#' itself is not individually valid -
    see not_covered)."""
    from rt import c09_depth as D
    valid, faults = [], []
    k = 0
    for ctext, depth, layout, nhash, on_value, v in list(D.single_slot_contents()) + list(D.two_slot_contents()):
        if v is None or "# " in ctext:
            continue
        k += 1
        d1 = "(Definition/%s/#, %s)" % (DEF_NAME, ctext)
        dx = "(Def-expand/%s/#, %s)" % (DEF_NAME, ctext)
        dxv = "(Def-expand/%s/%s, %s)" % (DEF_NAME, v, ctext.replace("#", v))
        meta = {"layout": layout, "hash_depths": D.depth_of_hash(ctext), "definition": d1}
        defs = {"HED": {"d1": d1, "d2": PLAIN_DEF}}
        variants = [
            {"defs": defs, "val": {"HED": dx + ", Blue"}},
            {"val": {"Description": "nested", "HED": "(Blue, (%s, Cross))" % dx}, "defs": {"HED": {"d": d1}}},
            {"defs": {"HED": {"d1": d1}}, "cat": {"HED": {"a": dxv + ", Cross", "b": "Red"}}, "val": {"HED": dx}},
            {"defs": defs, "val": {"HED": "Square, " + dx}, "refc": {"HED": {"r": "(Circle, {val})", "s": "Def/Plain"}}},
            {"defs": defs, "val": {"HED": "Def/Plain, " + dx}, "val2": {"HED": "Def/%s/#" % DEF_NAME}},
        ]
        for j, doc in enumerate(variants):
            if quick and (j + k) % 2 and j > 0:
                continue
            valid.append((doc, dict(meta, variant="defx%d" % j)))
        bad = [
            (L_F_VPOUND, "expanded '#' form plus a second placeholder", {"defs": defs, "val": {"HED": dx + ", Description/#"}}, ["val"]),
            (L_F_VPOUND, "second placeholder before the expanded '#' form",
             {"val": {"HED": "(Description/#, Blue), " + dx}, "defs": defs}, ["val"]),
            (L_F_VPOUND, "expanded form with a value: no placeholder in a value column",
             {"defs": defs, "val": {"HED": dxv + ", Blue"}}, ["val"]),
            (L_F_CPOUND, "expanded '#' form in a categorical entry",
             {"defs": defs, "cat": {"HED": {"a": dx + ", Cross", "b": "Red"}}}, ["cat"]),
        ]
        for j, item in enumerate(bad):
            if quick and (j + k) % 2 and j > 0:
                continue
            faults.append(item)
    return valid, faults


def check_def_fault(doc):
    stage, payload = run_doc(json.dumps(doc))
    if stage != "ok":
        return [(L_TOTAL, False, f"{stage}: {payload}", "a list of issues, nothing raised")]
    errs = error_issues(payload)
    got = [(i["code"], i.get("ec_sidecarColumnName"), i.get("ec_sidecarKeyName")) for i in errs]
    hit = [i for i in errs if i["code"] == "DEFINITION_INVALID"]
    res = [(L_TOTAL, True, None, None), (L_DEF_FAULT, bool(hit), got, "an error with code DEFINITION_INVALID")]
    if hit:
        where = [i.get("ec_sidecarColumnName") for i in hit]
        res.append((L_F_LOC, all(c is None or c == "defs" for c in where), where, {"column in": ["defs"]}))
    return res


# ------------------------------------------------------------------------------------------------ value templates without '#'
BLANK_TEMPLATES = ["", " ", "   "]
POUNDLESS_TEMPLATES = ["Red", "(Red, Blue)", "Label/3", "(Duration/3 s, (Green))", "Green, (Blue, Square)"]
BLANK_CODES = sorted({"PLACEHOLDER_INVALID"} | TYPE_CODES)


def template_faults(quick):
    """value column 'rt' whose template has no '#': x surroundings (alone, other valid columns before / after) x referencing hosts
    (none, categorical '{rt}' at the end / inside parentheses, value column '{rt}' next to its own '#', nested in a group),
    host before / after 'rt'"""
    hosts = [None,
             ("host", {"HED": {"a": "Green, {rt}"}}),
             ("host", {"HED": {"a": "({rt}), Green", "b": "Blue"}}),
             ("host", {"HED": "Label/#, {rt}"}),
             ("host", {"Description": "nested", "HED": "(Age/# years, ({rt}, Square))"})]
    surroundings = [[], ["cat1"], ["val1", "ign1"], ["cat2", "val2"]]
    k = 0
    for template in BLANK_TEMPLATES + POUNDLESS_TEMPLATES:
        codes = BLANK_CODES if not template.strip() else None
        for hi, host in enumerate(hosts):
            for si, sur in enumerate(surroundings):
                for pos in range(len(sur) + 1):
                    for host_first in ((False, True) if host else (False,)):
                        k += 1
                        if quick and template in POUNDLESS_TEMPLATES and (k + hi + si) % 3:
                            continue
                        entry = {"HED": template} if k % 2 else {"Description": "reaction time", "HED": template}
                        names = list(sur)
                        names.insert(pos, "rt")
                        doc = {}
                        if host and host_first:
                            doc[host[0]] = copy.deepcopy(host[1])
                        for n in names:
                            doc[n] = entry if n == "rt" else copy.deepcopy(COLUMNS[n])
                        if host and not host_first:
                            doc[host[0]] = copy.deepcopy(host[1])
                        desc = "value column rt := %s%s" % (json.dumps(template), ", referenced by column host" if host else "")
                        yield L_F_VPOUND, desc, doc, ["rt"] + (["host"] if host else []), codes


# ------------------------------------------------------------------------------------------------ definitions: counts per entry
DEF_POOL = [("Go", "(Definition/Go, (Red))", "Def/Go"), ("Stop", "(Definition/Stop, (Blue))", "(Def/Stop, Square)"),
            ("Acc", "(Definition/Acc/#, (Acceleration/# m-per-s^2))", "Def/Acc/3"),
            ("Wait", "(Definition/Wait, (Green, (Square)))", "(Circle, (Def/Wait))"),
            ("Lab", "(Definition/Lab/#, (Label/#))", "Def/Lab/abc"), ("Turn", "(Definition/Turn, (Circle))", "Def/Turn, Cross"),
            ("Far", "(Definition/Far/#, (Distance/# m, Blue))", "Def/Far/2"), ("Halt", "(Definition/Halt, ((Red), (Blue)))", "Def/Halt"),
            ("Jump", "(Definition/Jump, (Triangle))", "Def/Jump")]
NON_DEFINITION_ENTRIES = ["Red", "(Blue, Square)", "Def/%s", "(Green, (Def/%s))", "Label/abc, Cross"]


def def_pool_preconditions():
    """generator precondition: every definition of DEF_POOL is accepted on its own, every use and every entry without a
    definition is a valid annotation given these definitions"""
    from hed.models.definition_dict import DefinitionDict
    from hed.models.hed_string import HedString
    from hed.errors.error_types import ErrorSeverity
    S = _env()["schema"]
    dd = DefinitionDict([d[1] for d in DEF_POOL], S)
    bad = [(i["code"], i.get("message", "")[:80]) for i in dd.issues if i["severity"] == ErrorSeverity.ERROR]
    for text in [d[2] for d in DEF_POOL] + [(t % DEF_POOL[0][0] if "%s" in t else t) for t in NON_DEFINITION_ENTRIES]:
        issues = HedString(text, S, def_dict=dd).validate(allow_placeholders=False)
        bad += [(text, i["code"]) for i in issues if i["severity"] == ErrorSeverity.ERROR]
    if bad:
        raise AssertionError(f"workload precondition: definitions / uses of the definition-counts part not valid: {bad}")


def count_vectors():
    out = []
    for n in (1, 2, 3):
        for v in itertools.product((1, 2, 3), repeat=n):
            if sum(v) <= len(DEF_POOL):
                out.append(v)
    return out


def def_count_docs(quick):
    """-> (valid [(doc, meta)], mixed [(doc, meta)])"""
    valid, mixed = [], []
    for vi, vec in enumerate(count_vectors()):
        start = vi % len(DEF_POOL)
        pool = DEF_POOL[start:] + DEF_POOL[:start]
        entries, used = {}, []
        it = iter(pool)
        for ei, cnt in enumerate(vec):
            chunk = [next(it) for _ in range(cnt)]
            used += chunk
            entries["d%d" % ei] = (", " if (vi + ei) % 2 else ",").join(c[1] for c in chunk)
        uses = [u[2] for u in used]
        cat = {"HED": {"k%d" % j: uses[j] for j in range(min(3, len(uses)))}}
        val = {"HED": "Def/Lab/#, Blue"} if any(u[0] == "Lab" for u in used) else {"HED": "Label/#"}
        defs = {"HED": entries} if vi % 3 else {"Description": "definitions", "HED": entries}
        layouts = [{"defs": defs}, {"defs": defs, "cat": cat}, {"cat": cat, "val": val, "defs": defs}, {"val": val, "defs": defs, "cat": cat}]
        meta = {"counts": list(vec)}
        for li, doc in enumerate(layouts):
            if quick and (li + vi) % 2:
                continue
            valid.append((copy.deepcopy(doc), dict(meta, layout=li)))
        # one more entry without any definition: first / middle / last
        for pi, pos in enumerate(sorted({0, len(vec) // 2 + (len(vec) > 1), len(vec)})):
            for ni, non in enumerate(NON_DEFINITION_ENTRIES):
                if quick and (vi + pi + ni) % 3:
                    continue
                text = non % used[0][0] if "%s" in non else non
                items = list(entries.items())
                items.insert(pos, ("plain", text))
                d2 = dict(defs, HED=dict(items))
                doc = {"defs": d2, "cat": cat} if (vi + ni) % 2 else {"cat": cat, "defs": d2}
                mixed.append((doc, dict(meta, entry_without_definition=text, position=pos)))
    return valid, mixed


def check_def_mixed(doc):
    stage, payload = run_doc(json.dumps(doc))
    if stage != "ok":
        return [(L_TOTAL, False, f"{stage}: {payload}", "a list of issues, nothing raised")]
    errs = error_issues(payload)
    got = [(i["code"], i.get("ec_sidecarColumnName"), i.get("ec_sidecarKeyName")) for i in errs]
    hit = [i for i in errs if i["code"] == "DEFINITION_INVALID"]
    res = [(L_TOTAL, True, None, None), (L_DEF_MIXED, bool(hit), got, "an error with code DEFINITION_INVALID")]
    where = [i.get("ec_sidecarColumnName") for i in errs]
    res.append((L_F_LOC, all(c is None or c == "defs" for c in where), where, {"column in": ["defs"]}))
    return res


# ------------------------------------------------------------------------------------------------ empty categorical maps
def empty_map_docs(quick):
    """-> [(doc, meta)]; meta['involved'] = the empty-map columns and the columns referring to them"""
    empties = [{"HED": {}}, {"HED": {}, "Levels": {"a": "b"}}, {"Description": "nothing yet", "HED": {}}, {"Levels": {}, "HED": {}}]
    out = []
    for ei, e in enumerate(empties):
        out.append(({"c": copy.deepcopy(e)}, {"involved": ["c"]}))
        out.append(({"c": copy.deepcopy(e), "d": copy.deepcopy(empties[(ei + 1) % len(empties)])}, {"involved": ["c", "d"]}))
    k = 0
    for base in bases(True):
        if len(base) > 2:
            continue
        for pos in range(len(base) + 1):
            k += 1
            if quick and k % 2:
                continue
            names = list(base)
            names.insert(pos, "c")
            doc = {n: (copy.deepcopy(empties[k % len(empties)]) if n == "c" else copy.deepcopy(COLUMNS[n])) for n in names}
            if "c" in referenced(doc):
                continue
            out.append((doc, {"involved": ["c"]}))
    hosts = [{"HED": {"a": "Green, {c}"}}, {"HED": "Label/#, ({c})"}, {"HED": {"a": "Red", "b": "({c}, Blue)"}}]
    for hi, h in enumerate(hosts):
        for ei, e in enumerate(empties):
            if quick and (hi + ei) % 2:
                continue
            out.append(({"c": copy.deepcopy(e), "host": copy.deepcopy(h)}, {"involved": ["c", "host"]}))
            out.append(({"host": copy.deepcopy(h), "cat1": copy.deepcopy(COLUMNS["cat1"]), "c": copy.deepcopy(e)},
                        {"involved": ["c", "host"]}))
    return out


def check_empty_map(doc, involved):
    stage, payload = run_doc(json.dumps(doc))
    if stage != "ok":
        return [(L_TOTAL, False, f"{stage}: {payload}", "a list of issues, nothing raised")]
    errs = error_issues(payload)
    got = [(i["code"], i.get("ec_sidecarColumnName"), i.get("ec_sidecarKeyName")) for i in errs]
    allowed = TYPE_CODES | ({"SIDECAR_BRACES_INVALID"} if "host" in involved else set())
    bad = [g for g in got if g[0] not in allowed or (g[1] is not None and g[1] not in involved)]
    return [(L_TOTAL, True, None, None),
            (L_EMPTYMAP, not bad, got, {"errors only with code in": sorted(allowed), "at column in": involved})]


# ------------------------------------------------------------------------------------------------ type matrix
NON_STRINGS = [("null", None), ("true", True), ("false", False), ("0", 0), ("1.5", 1.5), ("[]", []), ("[..]", ["Red"]),
               ("[[..],..]", [["Red"], "Blue"])]                       # neither a string nor a map: the same rule is broken by each
OTHER_KINDS = [('""', ""), ("{}", {}), ("nested", {"a": {"b": "Red"}})]


def set_path(doc, path, value):
    d = copy.deepcopy(doc)
    cur = d
    for k in path[:-1]:
        cur = cur[k]
    if path[-1] not in cur and len(path) == 2:      # a key added to the column entry (Levels / Description): put it first
        new = {path[-1]: copy.deepcopy(value)}
        new.update(cur)
        d[path[0]] = new
    else:
        cur[path[-1]] = copy.deepcopy(value)
    return d


def type_matrix_items(quick):
    """-> [("typematrix", base doc, place, path, involved)]"""
    items = []
    targets = ["val1", "val2", "cat1", "cat2"]
    k = 0
    for name in targets:
        partner = {"val1": "cat2", "val2": "cat1", "cat1": "val1", "cat2": "val2"}[name]
        layouts = [[name], [name, partner], [partner, name], ["ign1", name, partner]]
        for li, names in enumerate(layouts):
            base = {n: copy.deepcopy(COLUMNS[n]) for n in names}
            places = [("column", [name]), ("hed", [name, "HED"]), ("levels", [name, "Levels"]), ("description", [name, "Description"])]
            if kind(COLUMNS[name]) == "cat":
                places += [("category", [name, "HED", key]) for key in COLUMNS[name]["HED"]]
            for place, path in places:
                k += 1
                if quick and li and (k + li) % 2 and place in ("levels", "description", "column"):
                    continue
                items.append(("typematrix", base, place, path, [name]))
    return items


def check_type_matrix(base, place, path, involved):
    res = []
    codes_of = {}
    for label, value in NON_STRINGS + OTHER_KINDS:
        doc = set_path(base, path, value)
        stage, payload = run_doc(json.dumps(doc))
        if stage != "ok":
            res.append((L_TOTAL, False, {"value": label, "result": f"{stage}: {payload}"}, "a list of issues, nothing raised"))
            continue
        res.append((L_TOTAL, True, None, None))
        errs = error_issues(payload)
        got = [(i["code"], i.get("ec_sidecarColumnName"), i.get("ec_sidecarKeyName")) for i in errs]
        codes_of[label] = sorted({g[0] for g in got})
        if place in ("levels", "description"):
            # no listed rule speaks about these keys: the sidecar still obeys every structural rule
            res.append((L_VALID, not got, {"value": label, "errors": got}, "no error-severity issue"))
            continue
        if place == "column":
            continue
        ill_typed = label in dict(NON_STRINGS) or label == "nested" or (place == "category" and label == "{}")
        if not ill_typed:
            continue                    # "" (a string) and {} as a HED map: other parts (value-templates, empty-maps)
        hit = [i for i in errs if i["code"] in DATA_TYPE_CODES]
        res.append((L_F_TYPE, bool(hit), {"value": label, "errors": got}, {"an error with code in": sorted(DATA_TYPE_CODES)}))
        if hit:
            where = [i.get("ec_sidecarColumnName") for i in hit]
            res.append((L_F_LOC, all(c is None or c in involved for c in where), where, {"column in": involved}))
    # relational: the rule "strings or string-valued maps" is broken alike by every non-string, so no value kind gets a code of its own
    names = [n for n, _ in NON_STRINGS if n in codes_of]
    for n in names:
        others = set()
        for m in names:
            if m != n:
                others.update(codes_of[m])
        if place == "column":
            ok = all(codes_of[m] == codes_of[n] for m in names)
        else:
            ok = set(codes_of[n]) <= others
        if place in ("hed", "category", "column"):
            res.append((L_F_TYPE if place != "column" else L_TOTAL, ok, {"value": n, "codes": codes_of[n], "codes_by_value": codes_of},
                        "codes that another non-string value at this place gets too"))
    return res


# ------------------------------------------------------------------------------------------------ jobs
def _job(job):
    _env()
    out = {"n": 0, "fails": [], "checks": {}, "sample": None}
    per = {}
    for item in job["items"]:
        if item[0] == "total":
            res = check_total(item[1])
            inp = {"mode": "total", "doc": item[1]}
        elif item[0] == "valid":
            res = check_valid(item[1])
            inp = {"mode": "valid", "doc": item[1]}
        elif item[0] == "defxvalid":
            res = check_def_valid(item[1], L_DEFX_VALID)
            inp = dict({"mode": item[0], "doc": item[1]}, **item[2])
        elif item[0] in ("defvalid", "deffault"):
            res = check_def_valid(item[1]) if item[0] == "defvalid" else check_def_fault(item[1])
            inp = dict({"mode": item[0], "doc": item[1]}, **item[2])
        elif item[0] == "defmixed":
            res = check_def_mixed(item[1])
            inp = dict({"mode": item[0], "doc": item[1]}, **item[2])
        elif item[0] == "emptymap":
            res = check_empty_map(item[1], item[2]["involved"])
            inp = dict({"mode": item[0], "doc": item[1]}, **item[2])
        elif item[0] == "typematrix":
            res = check_type_matrix(item[1], item[2], item[3], item[4])
            inp = {"mode": item[0], "doc": item[1], "place": item[2], "path": item[3], "involved": item[4],
                   "values": [v for _, v in NON_STRINGS + OTHER_KINDS]}
            out["n"] += len(NON_STRINGS + OTHER_KINDS) - 1
        else:
            _, clause, desc, doc, involved = item[:5]
            codes = item[5] if len(item) > 5 else None
            res = check_fault(clause, doc, involved, codes)
            inp = {"mode": "fault", "rule": clause, "fault": desc, "doc": doc, "involved": involved, "codes": codes}
        out["n"] += 1
        if out["sample"] is None:
            out["sample"] = inp
        for clause, ok, obs, exp in res:
            out["checks"][clause] = out["checks"].get(clause, 0) + 1
            if not ok:
                per[clause] = per.get(clause, 0) + 1
                out["fails"].append((clause, inp, obs, exp) if per[clause] <= 2 else (clause, None, None, None))
    return out


def _par(items, chunk, workers=WORKERS):
    jobs = [{"items": items[i:i + chunk]} for i in range(0, len(items), chunk)]
    if len(jobs) <= 1:
        return [_job(j) for j in jobs]
    ctx = multiprocessing.get_context("fork")
    with ctx.Pool(min(workers, len(jobs))) as pool:
        return pool.map(_job, jobs, chunksize=1)


def _absorb(w, results, counters, prefix, items):
    n = 0
    for r in results:
        n += r["n"]
        for clause, c in r["checks"].items():
            counters[clause] = counters.get(clause, 0) + c
        for clause, inp, obs, exp in r["fails"]:
            if inp is None:
                w._per_clause[clause] = w._per_clause.get(clause, 0) + 1
            else:
                w.fail(clause, inp, obs, exp)
    for k, item in enumerate(items):
        w.case(key=(prefix, k), nontrivial=True, sample={"mode": item[0], "doc": item[3] if item[0] == "fault" else item[1]})
    return n


def preconditions(w, extra=()):
    """generator precondition: every annotation string used to build the valid sidecars is valid on its own"""
    from hed.models.hed_string import HedString
    from hed.errors.error_types import ErrorSeverity
    S = _env()["schema"]
    strings = set(EXTRA_STRINGS) | {"Gray", "Description/#"} | set(extra)
    for e in COLUMNS.values():
        if kind(e) == "cat":
            strings.update(e["HED"].values())
        elif kind(e) == "val":
            strings.add(e["HED"])
    bad = []
    for s in sorted(strings):
        plain = REF_RE.sub("Yellow", s)
        issues = HedString(plain, S).validate(allow_placeholders=True)
        if any(i["severity"] == ErrorSeverity.ERROR for i in issues):
            bad.append((s, [i["code"] for i in issues]))
    if bad:
        raise AssertionError(f"workload precondition: annotation strings not individually valid: {bad}")


def run(w: Workload):
    w.rule = ("total: every JSON value with <= 2 members per container and nesting <= 2 as the entry of column 'c' (documents of "
              "depth 3) over the scalars null/bool/number/''/'Red'/'Label/#'/'{d}' and the keys HED/Levels resp. a/n-a/HED; "
              "two-column documents (probe column x every shallow entry); top-level non-objects.  faults: all small column layouts of "
              "valid sidecars x every applicable (column, single structural fault); a case = one JSON document")
    counters = {}
    _env()
    preconditions(w)
    docs, n_single, n_pair, n_top = total_docs(w.quick)
    items = [("total", d) for d in docs]
    n = _absorb(w, _par(items, 400), counters, "total", items)
    w.part("total", cases=n, bound=f"{n_single} single-column documents = ALL entries of nesting <= 2 with <= 2 members per "
           f"container; {n_pair} two-column documents; {n_top} top-level non-object documents", exhaustive=True)
    vitems = [("valid", d) for d in valid_docs(w.quick)]
    n = _absorb(w, _par(vitems, 8), counters, "valid", vitems)
    w.part("valid", cases=n, bound=f"{len(bases(w.quick))} column layouts (every reference-closed subset of 7 columns with <= "
           f"{3 if w.quick else 4} columns, all orders; all 7 columns), annotation strings rotated through "
           f"{len(EXTRA_STRINGS)} individually valid strings", exhaustive=False)
    fitems = []
    for base in bases(w.quick):
        for clause, desc, doc, involved in faults_for(base):
            fitems.append(("fault", clause, desc, doc, involved))
    n_named = 0
    for bi, base in enumerate(bases(w.quick)):
        if w.quick and len(base) > 2 and bi % 3:
            continue
        for clause, desc, doc, involved in hed_name_faults(base):
            fitems.append(("fault", clause, desc, doc, involved))
            n_named += 1
    n = _absorb(w, _par(fitems, 20), counters, "fault", fitems)
    per_rule = {}
    for it in fitems:
        per_rule[it[1]] = per_rule.get(it[1], 0) + 1
    w.part("faults", cases=n, bound="every applicable (layout, column, fault variant): type faults (6 wrong types for HED and for "
           "each category value), placeholder count (0, 2 in value; 1 in category), HED as column name (a column renamed to HED; "
           f"{n_named} documents with an added top-level entry named HED whose value is each of {len(HED_NAME_VALUES)} JSON values "
           "- objects, strings, numbers, lists, null, booleans - first / middle / last), n/a key (added / renamed), "
           "9 unbalanced-brace shapes, unknown / ignored-column / self / nested reference", exhaustive=True, per_rule=per_rule)
    dvalid, dfaulty, dstrings = def_docs(w.quick)
    preconditions(w, dstrings)
    ditems = [("defvalid", d, m) for d, m in dvalid] + [("deffault", d, m) for d, m in dfaulty]
    n = _absorb(w, _par(ditems, 12), counters, "defs", ditems)
    depths = {}
    for _, _, m in ditems:
        kk = "+".join(str(x) for x in m["hash_depths"]) or "none"
        depths[kk] = depths.get(kk, 0) + 1
    w.part("definitions", cases=n, bound=f"{len(dvalid)} valid sidecars: a definitions column whose '/#' definition has its "
           "placeholder tag at depth 1, 2, 3 of the content (14 layouts x 4 value-taking tags; 7 two-group layouts), used as "
           "Def/Name/v (top level, depth 2), as written-out Def-expand group, as Def/Name/# in a value column and through a "
           f"{{reference}} (quick: every second variant); {len(dfaulty)} sidecars with one faulty definition (two '#', '##', '#' on a "
           "non-value tag, no '#', name without '/#') at every depth; documents by depth(s) of the '#': "
           f"{dict(sorted(depths.items()))}", exhaustive=False)
    xvalid, xfaults = defx_docs(w.quick)
    xitems = [("defxvalid", d, m) for d, m in xvalid] + [("fault", cl, desc, doc, inv) for cl, desc, doc, inv in xfaults]
    n = _absorb(w, _par(xitems, 12), counters, "defx", xitems)
    w.part("def-expand-placeholder", cases=n, bound=f"{len(xvalid)} valid sidecars whose value column holds '(Def-expand/Name/#, content)' "
           "for every single-placeholder content layout ('#' at depth 1, 2, 3; Label / Age / Distance) in 5 positions (top level "
           "next to a tag, nested at depth 2, alone next to a categorical column with the expanded valued form, referenced by "
           f"another column, next to a second value column with Def/Name/#; quick: first variant + every second other); {len(xfaults)} "
           "faulty ones (second real placeholder after / before the group, no placeholder at all, '#' form in a categorical entry)",
           exhaustive=False)
    titems = [("fault", cl, desc, doc, inv, codes) for cl, desc, doc, inv, codes in template_faults(w.quick)]
    n = _absorb(w, _par(titems, 20), counters, "templates", titems)
    w.part("value-templates", cases=n, bound=f"value column whose template is one of {BLANK_TEMPLATES + POUNDLESS_TEMPLATES} x 4 "
           "surroundings (alone, 1-2 valid columns; the column at every position) x {not referenced, referenced by a categorical "
           "column at the end / inside parentheses, by a value column next to its '#' / nested} x host before / after"
           + (" (templates with tags: a third of the combinations)" if w.quick else ""), exhaustive=not w.quick)
    cvalid, cmixed = def_count_docs(w.quick)
    def_pool_preconditions()
    citems = [("defvalid", d, m) for d, m in cvalid] + [("defmixed", d, m) for d, m in cmixed]
    n = _absorb(w, _par(citems, 12), counters, "defcounts", citems)
    w.part("definition-counts", cases=n, bound=f"{len(count_vectors())} count vectors (1-3 entries holding 1, 2 or 3 definitions each, out "
           f"of {len(DEF_POOL)} plain and '/#' definitions, rotating) x 4 layouts (alone, used from a categorical column, and from a "
           f"value column, definitions column first / middle / last){' (quick: every second)' if w.quick else ''}: {len(cvalid)} valid "
           f"sidecars; {len(cmixed)} with one more entry holding no definition ({len(NON_DEFINITION_ENTRIES)} texts) first / middle / "
           f"last{' (quick: a third)' if w.quick else ''}", exhaustive=not w.quick)
    eitems = [("emptymap", d, m) for d, m in empty_map_docs(w.quick)]
    n = _absorb(w, _par(eitems, 12), counters, "emptymap", eitems)
    w.part("empty-maps", cases=n, bound="categorical column with an empty HED map (4 shapes: bare, with Levels, with Description, "
           "with empty Levels) alone, twice, at every position of every 1-2 column layout of valid columns"
           + (" (quick: every second)" if w.quick else "") + ", referenced by a categorical / value column", exhaustive=not w.quick)
    mitems = type_matrix_items(w.quick)
    n = _absorb(w, _par(mitems, 6), counters, "typematrix", mitems)
    for k in range(len(mitems)):
        for label, _ in (NON_STRINGS + OTHER_KINDS)[1:]:
            w.case(key=("typematrix", k, label), nontrivial=True)
    w.part("type-matrix", cases=n, bound="%d (layout, column, place) groups x %d JSON value kinds (null, true, false, 0, 1.5, [], [..], "
           "[[..],..], \"\", {}, nested object): columns val1 / val2 / cat1 / cat2 alone, before / after a valid partner column, "
           "between an ignored and a partner column; places: the column entry, the HED value, each category's value, Levels, "
           "Description%s" % (len(mitems), len(NON_STRINGS + OTHER_KINDS),
                              " (quick: column / Levels / Description in every second non-single layout)" if w.quick else ""),
           exhaustive=True)
    w.bounded[-1]["checks_per_clause"] = counters
    w.exhaustive = False
    w.not_covered += ["documents deeper than 3 levels or with more than 2 members per container; more than 2 columns in part 'total'",
                      "several faults at once; faults combined with invalid annotation strings; definitions other than one '/#' "
                      "definition + one plain definition in a categorical dummy column; Def/Name/# in a value column when the "
                      "definition's placeholder carries a unit ('Speed/# mph': observed VALUE_INVALID/UNITS_INVALID/DEF_INVALID on "
                      "'Def/Name/#', not judged - HedString.validate does not call the string individually valid either)",
                      "the rule 'HED key nested inside an ignored column' (not in the statement)",
                      "whether an empty categorical HED map is itself a fault (the statement does not say; only that nothing is raised and "
                      "no other column is blamed); a VALUE column whose template consists of definitions only (observed: accepted without "
                      "'#', the placeholder count is skipped for definition columns); definitions mixed with other tags inside ONE entry",
                      "sidecars given as several merged files; validate(extra_def_dicts=...)",
                      "location fields are only checked not to name a column outside the fault (the statement asks for the code)"]
    w.assumptions += ["json.dumps/json.load round-trip the generated documents",
                      "HedString.validate(allow_placeholders=True) decides 'individually valid annotation string' (C01)"]


def replay(w: Workload, case: dict):
    inp = case["input"]
    clause = case["clause"]
    _env()
    w.case(key="replay")
    if inp["mode"] == "defxvalid":
        res = check_def_valid(inp["doc"], L_DEFX_VALID)
    elif inp["mode"] == "defvalid":
        res = check_def_valid(inp["doc"])
    elif inp["mode"] == "deffault":
        res = check_def_fault(inp["doc"])
    elif inp["mode"] == "defmixed":
        res = check_def_mixed(inp["doc"])
    elif inp["mode"] == "emptymap":
        res = check_empty_map(inp["doc"], inp["involved"])
    elif inp["mode"] == "typematrix":
        res = check_type_matrix(inp["doc"], inp["place"], inp["path"], inp["involved"])
    elif inp["mode"] == "total":
        res = check_total(inp["doc"])
    elif inp["mode"] == "valid":
        res = check_valid(inp["doc"])
    else:
        res = check_fault(inp["rule"], inp["doc"], inp["involved"], inp.get("codes"))
    for cl, ok, obs, exp in res:
        if cl == clause and not ok:
            w.fail(cl, inp, obs, exp)


if __name__ == "__main__":
    main(run, "C08", replay)
