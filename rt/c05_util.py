"""Oracles for the C05 workload that do not go through the schema writers/readers of /repo:

* fingerprint(schema)          a plain-data listing of everything a HedSchema object holds (names, attributes with
                               their value sets, descriptions, unit membership, inherited attributes, header, texts)
* expected_listing(schema, m)  what a saved file of the schema must list (HED schema format rules for merged /
                               unmerged partnered files), written from the format description, not from schema2base
* xml_listing(text)            what a saved XML file does list, read with xml.etree only
"""
from xml.etree import ElementTree as ET

XSI = "http://www.w3.org/2001/XMLSchema-instance"

SECTIONS = ["tags", "unitClasses", "units", "unitModifiers", "valueClasses", "attributes", "properties"]


def _sections(s):
    from hed.schema.hed_schema_constants import HedSectionKey as K
    return {"tags": s[K.Tags], "unitClasses": s[K.UnitClasses], "units": s[K.Units], "unitModifiers": s[K.UnitModifiers],
            "valueClasses": s[K.ValueClasses], "attributes": s[K.Attributes], "properties": s[K.Properties]}


def norm_attrs(attrs, drop=()):
    out = {}
    for k, v in attrs.items():
        if k in drop:
            continue
        out[k] = True if v is True else sorted(set(str(v).split(",")))
    return out


def fingerprint(s):
    fp = {"header": {k: v for k, v in s.header_attributes.items() if k != "unmerged"},
          "prologue": (s.prologue or "").strip(), "epilogue": (s.epilogue or "").strip(),
          "namespace": s.schema_namespace}
    secs = _sections(s)
    for name, sec in secs.items():
        fp[name] = {e.name: [e.description, norm_attrs(e.attributes)] for e in sec.values()}
        fp[name + ".duplicates"] = sorted(sec.duplicate_names)
    fp["unit_of"] = {u.name: (u.unit_class_entry.name if u.unit_class_entry else None) for u in secs["units"].values()}
    fp["class_units"] = {c.name: sorted(c.units) for c in secs["unitClasses"].values()}
    fp["inherited"] = {e.name: norm_attrs(e.inherited_attributes) for e in secs["tags"].values()}
    return fp


def diff(a, b, limit=4, path=""):
    """first few differences between two plain-data structures, as strings"""
    out = []
    if isinstance(a, dict) and isinstance(b, dict):
        for k in sorted(set(a) | set(b), key=str):
            if k not in a:
                out.append("%s/%s: only in second: %r" % (path, k, _short(b[k])))
            elif k not in b:
                out.append("%s/%s: only in first: %r" % (path, k, _short(a[k])))
            elif a[k] != b[k]:
                out += diff(a[k], b[k], limit, "%s/%s" % (path, k))
            if len(out) >= limit:
                break
    elif a != b:
        out.append("%s: %r != %r" % (path, _short(a), _short(b)))
    return out[:limit]


def _short(v):
    r = repr(v)
    return r if len(r) < 160 else r[:157] + "..."


# ------------------------------------------------------------------------------------------ expected file content

def _listing_attrs(e, keep_inlib):
    out = {}
    for k, v in e.attributes.items():
        if k == "inLibrary" and not keep_inlib:
            continue
        out[k] = True if v is True else tuple(sorted(str(v).split(",")))
    return out


def expected_listing(s, merged):
    """{(section, path): (description, {attr: True | sorted tuple of values})} + header + texts that a file saved from s must
    contain.  Format rules: a stand-alone schema lists everything and never writes inLibrary; a partnered library saved
    merged lists everything, library entries marked inLibrary=<library>; saved unmerged it lists only the library's own
    entries, without inLibrary, library nodes that hang below a standard node appear at the top level (they carry
    rooted=<that node>), and a standard unit class that received library units is listed by name only with those units."""
    partnered = bool(s.with_standard)
    lib_only = partnered and not merged
    keep = partnered and merged
    secs = _sections(s)
    out = {}

    def is_lib(e):
        return "inLibrary" in e.attributes
    for e in secs["tags"].values():
        if lib_only and not is_lib(e):
            continue
        parts = e.name.split("/")
        if lib_only:
            # drop the leading standard-schema ancestors
            k = 0
            while k < len(parts) - 1 and not is_lib(secs["tags"].get("/".join(parts[:k + 1]))):
                k += 1
            parts = parts[k:]
        out[("tags", "/".join(parts))] = (e.description or None, _listing_attrs(e, keep))
    for c in secs["unitClasses"].values():
        units = list(c.units.values())
        if lib_only:
            units = [u for u in units if is_lib(u)]
            if not is_lib(c):
                if not units:
                    continue
                out[("unitClasses", c.name)] = (None, {})
            else:
                out[("unitClasses", c.name)] = (c.description or None, _listing_attrs(c, keep))
        else:
            out[("unitClasses", c.name)] = (c.description or None, _listing_attrs(c, keep))
        for u in units:
            out[("units", c.name + "::" + u.name)] = (u.description or None, _listing_attrs(u, keep))
    for name in ("unitModifiers", "valueClasses", "attributes", "properties"):
        for e in secs[name].values():
            if lib_only and not is_lib(e):
                continue
            out[(name, e.name)] = (e.description or None, _listing_attrs(e, keep))
    header = {k: v for k, v in s.header_attributes.items() if k != "unmerged"}
    if lib_only:
        header["unmerged"] = "True"
    return {"entries": out, "header": header, "prologue": s.prologue or "", "epilogue": s.epilogue or ""}


# ------------------------------------------------------------------------------------------ independent XML reading

def _el_info(el, attr_tag):
    d = el.find("description")
    desc = d.text if d is not None else None
    attrs = {}
    for a in el.findall(attr_tag):
        vals = [v.text for v in a.findall("value")]
        nm = a.find("name").text
        if nm in attrs:
            attrs[nm + "#repeated"] = True
        attrs[nm] = tuple(sorted(vals)) if vals else True
    return (desc or None, attrs)


def xml_listing(text):
    root = ET.fromstring(text)
    header = {}
    for k, v in root.attrib.items():
        if k == "{%s}noNamespaceSchemaLocation" % XSI:
            header["xsi:noNamespaceSchemaLocation"] = v
            header["xmlns:xsi"] = XSI
        else:
            header[k] = v
    entries = {}
    repeated = []

    def put(key, val):
        if key in entries:
            repeated.append(key)
        entries[key] = val

    def walk(el, prefix):
        for n in el.findall("node"):
            path = prefix + [n.find("name").text]
            put(("tags", "/".join(path)), _el_info(n, "attribute"))
            walk(n, path)
    sch = root.find("schema")
    if sch is not None:
        walk(sch, [])
    cont = root.find("unitClassDefinitions")
    if cont is not None:
        for c in cont.findall("unitClassDefinition"):
            cname = c.find("name").text
            put(("unitClasses", cname), _el_info(c, "attribute"))
            for u in c.findall("unit"):
                put(("units", cname + "::" + u.find("name").text), _el_info(u, "attribute"))
    for sec, cname, elname, atag in (("unitModifiers", "unitModifierDefinitions", "unitModifierDefinition", "attribute"),
                                     ("valueClasses", "valueClassDefinitions", "valueClassDefinition", "attribute"),
                                     ("attributes", "schemaAttributeDefinitions", "schemaAttributeDefinition", "property"),
                                     ("properties", "propertyDefinitions", "propertyDefinition", "property")):
        cont = root.find(cname)
        if cont is not None:
            for e in cont.findall(elname):
                put((sec, e.find("name").text), _el_info(e, atag))
    pro, epi = root.find("prologue"), root.find("epilogue")
    return {"entries": entries, "header": header, "prologue": (pro.text or "") if pro is not None else "",
            "epilogue": (epi.text or "") if epi is not None else "", "repeated": repeated}


def listing_diff(expected, observed, limit=4):
    out = []
    if observed.get("repeated"):
        out.append("entries listed twice: %r" % observed["repeated"][:3])
    for k in ("header", "prologue", "epilogue"):
        if expected[k] != observed[k]:
            out.append("%s: expected %s, file has %s" % (k, _short(expected[k]), _short(observed[k])))
    e, o = expected["entries"], observed["entries"]
    for key in sorted(set(e) | set(o)):
        if key not in o:
            out.append("missing in file: %r" % (key,))
        elif key not in e:
            out.append("extra in file: %r" % (key,))
        elif e[key] != o[key]:
            out.append("%r: schema %s, file %s" % (key, _short(e[key]), _short(o[key])))
        if len(out) >= limit:
            break
    return out[:limit]
