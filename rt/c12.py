"""C12 — Every reported issue is well-formed and points at the offending text (tier T3, bounded runtime workload).

A pool of annotations is composed systematically from ~50 small fragments ("atoms": valid tags, tags that draw a
warning, tags that draw an error with a sub-tag span, errors without a tag) placed in 8 surrounding contexts and in
pairs, so that every rule fires at many different character positions and together with other rules.  The pool is
pushed through every validation entry point:
  string   HedString.validate() (no handler), HedValidator.validate with a handler carrying the HED_STRING context,
           warnings on and off, placeholders allowed / not allowed
  sidecar  Sidecar.validate (categorical + value columns, definitions, column references, structural faults)
  table    TabularInput.validate (HED column + sidecar columns, with and without an onset column)
  dataset  BidsDataset.validate on a small generated dataset (two subjects, inherited sidecar)
A second pool ("forms", rt/c12_forms.py) writes the faulty tag in long, partially long, short form, in other letter cases
and with a namespace prefix (schema ts:8.3.0) and sends it through the string, sidecar and table entry points: the fragment
a message quotes must be source_text[char_index:char_index_end] of the annotation AS WRITTEN
(C12.message.quotes_the_located_fragment).
A third pool ("modified") parses annotations that use definitions whose content draws a tag-level issue, modifies the
parsed string (expand_defs, shrink_defs, remove_definitions, HedGroup.replace / remove of a child) and validates it with the
string pushed as HED_STRING context (alone and as a member of HedString.from_hed_strings), and validates tables rewritten by
df_util.expand_defs / shrink_defs: offsets stay inside the validated text and on the quoted fragment; a tag that is not
written in the validated text (it comes from the definition's text / the replacement's text) carries no offsets.
Every issue returned is checked by an independent monitor (own tokenizer for tag/group spans), every issue list by the
list-level relations of the property (errors-only = error subset, sort, export, re-decoration).
"""
import copy
import io
import json
import os
import re
import shutil
import tempfile

from rt.common import Workload, main, schema, codes  # noqa: F401
from rt import c12_forms as F

L_QUOTE = "C12.message.quotes_the_located_fragment"

SUFFIX = "Problem spans string indexes"
SUFFIX_RE = re.compile(r"Problem spans string indexes: (-?\d+), (-?\d+)")
INDEX_RE = re.compile(r"""(["'])(.)\1 at index (\d+)""")

# ------------------------------------------------------------------------------------------------------------------
# the annotation pool
# ------------------------------------------------------------------------------------------------------------------
ATOMS_VALID = ["Red", "Blue", "(Red, Blue)", "Label/abc", "Sensory-event", "Item/Object", "Age/12",
               "Property/Sensory-property/Sensory-attribute/Visual-attribute/Color/CSS-color/Red-color/Red",
               "(Sensory-event, (Red, Item))", "Weight/3 kg"]
ATOMS_WARN = ["Blue/Apple", "Item/Zork/Blah", "Weight/3", "Red/a+b", "(Item/Zork, Weight/4)", "Sampling-rate/5"]
ATOMS_ERR_TAG = ["Redx", "Redx/Blue", "Red//Blue", "Item/Object/Blue", "Sensory-event/Visual-presentation",
                 "Label/a$b", "Label/é x", "Label/#", "Weight/3 foo", "Age/x", "Def/Unknown",
                 "(Def-expand/Xy, (Red))", "Onset", "(Onset, Red)", "Duration/3 s", "(Duration/3 s)",
                 "(Definition/Abc, (Red))", "()", "( )", "Red/ Blue", "Item/Red", "Weight/3 kg{", "Red/Blue/Green",
                 "Röd", "Event/Sensory-event/Zork", "Delay/x", "(Offset, Red)", "Blue/Apple/", "/Red",
                 "Weight/#", "(Red, ())",
                 # groups whose text AS WRITTEN differs from their normalised form (inner blanks), empty / repeated / nested
                 "(  )", "( ), ( )", "( ( ) )", "((Red), (  ))", "( Red , ( ) )", "( Redx , Blue )", "( ( Red ) , (  ) )"]
ATOMS_ERR_PLAIN = ["Red,,Blue", "(Red", "Red)", "Red ~ Blue", "[Red]", "{col}", "Red, ,Blue", ",Red", "Red,",
                   "(Red, Blue), (Blue, Red)", "Red, Red", "(Red, (Blue)), ((Blue), Red)",
                   "( , )", "( Red , Blue ), ( Red , Blue )", "( Red , Blue ), (Blue,Red)", "(( Red ), ( Blue )), ((Blue), (Red))",
                   "( Red , ( Blue , Green ) ), ((Green, Blue), Red)"]
ATOMS = ATOMS_VALID + ATOMS_WARN + ATOMS_ERR_TAG + ATOMS_ERR_PLAIN

CONTEXTS = ["%s", "  %s ", "Green, %s", "%s, Green", "(Green, %s)", "((%s), Green)", "Blue/Apple, %s",
            "Weight/3, (Square, %s)"]

VALUE_STRINGS = ["Label/#", "Weight/# g", "Age/#, Blue/Apple", "Weight/# foo", "Label/#, Label/#", "Redx/#",
                 "(Duration/# s, (Red))", "Description/# x", "Red", "Label/#, Redx", "Item/Zork/#", "Weight/#, Item/Object/Blue"]

DEF_STRINGS = ["(Definition/Abc, (Red))", "(Definition/Val/#, (Label/#))", "(Definition/Bad, (Red), Blue)",
               "(Definition/Abc, (Blue))", "(Definition/Two/#, (Label/#, Age/#))", "(Definition/Redx//y, (Red))",
               "(Definition/Nest, (Def/Abc, (Definition/Inner)))"]


# fragments a reader would call "the offending text" for some atoms: (atom, code, allowed (start, end) relative to the atom)
def _rel(atom, frag, last=False):
    k = atom.rfind(frag) if last else atom.index(frag)
    return (k, k + len(frag))


EXPECT = [
    ("Redx", "TAG_INVALID", [_rel("Redx", "Redx")]),
    ("Red//Blue", "TAG_INVALID", [_rel("Red//Blue", "//")]),
    ("Item/Object/Blue", "TAG_EXTENSION_INVALID", [_rel("Item/Object/Blue", "Blue")]),
    ("Sensory-event/Visual-presentation", "TAG_EXTENSION_INVALID", [_rel("Sensory-event/Visual-presentation", "Visual-presentation")]),
    ("Label/a$b", "CHARACTER_INVALID", [_rel("Label/a$b", "$")]),
    ("Label/é x", "CHARACTER_INVALID", [_rel("Label/é x", " ")]),
    ("Label/#", "PLACEHOLDER_INVALID", [_rel("Label/#", "#")]),
    ("Red/ Blue", "TAG_INVALID", [_rel("Red/ Blue", "/ "), _rel("Red/ Blue", " ")]),
    ("Red/Blue/Green", "TAG_EXTENSION_INVALID", [_rel("Red/Blue/Green", "Blue")]),
    ("Röd", "TAG_INVALID", [_rel("Röd", "Röd")]),
    ("Blue/Apple/", "TAG_INVALID", [_rel("Blue/Apple/", "/", last=True)]),
    ("/Red", "TAG_INVALID", [_rel("/Red", "/")]),
    ("Item/Red", "TAG_EXTENSION_INVALID", [_rel("Item/Red", "Red")]),
    ("Blue/Apple", "TAG_EXTENDED", [_rel("Blue/Apple", "/Apple"), _rel("Blue/Apple", "Apple")]),
    ("Item/Zork/Blah", "TAG_EXTENDED", [_rel("Item/Zork/Blah", "/Zork/Blah"), _rel("Item/Zork/Blah", "Zork/Blah")]),
]


def pool(w):
    out = []
    for a in ATOMS:
        for c in CONTEXTS:
            out.append(c % a)
    n_pairs = 4 if w.quick else 14
    for a in ATOMS:
        for b in w.rng.sample(ATOMS, n_pairs):
            out.append(a + ", " + b)
            out.append("(" + a + "), " + b)
    seen, res = set(), []
    for t in out:
        if t not in seen:
            seen.add(t)
            res.append(t)
    return res


# ------------------------------------------------------------------------------------------------------------------
# independent helpers
# ------------------------------------------------------------------------------------------------------------------
def spans_of(text):
    """tag tokens (maximal runs between , ( ) trimmed of blanks) and parenthesised groups of text, as (start, end)"""
    out = []
    start = None
    stack = []
    for k, ch in enumerate(text + ","):
        if ch in ",()":
            if start is not None:
                s, e = start, k
                while s < e and text[s] == " ":
                    s += 1
                while e > s and text[e - 1] == " ":
                    e -= 1
                if e > s:
                    out.append((s, e))
                start = None
            if k < len(text):
                if ch == "(":
                    stack.append(k)
                elif ch == ")" and stack:
                    out.append((stack.pop(), k + 1))
        elif start is None:
            start = k
    return out


def ctx_text(v):
    if hasattr(v, "get_original_hed_string"):
        return "HS:" + v.get_original_hed_string()
    return v if isinstance(v, (int, float, bool, str)) or v is None else str(v)


def base_message(msg):
    return msg.split("  " + SUFFIX)[0]


def view(i, strip_suffix=False):
    msg = i.get("message")
    if strip_suffix and isinstance(msg, str):
        msg = base_message(msg)
    return (i.get("code"), i.get("severity"), msg, i.get("char_index"), i.get("char_index_end"),
            tuple(sorted((k, ctx_text(v)) for k, v in i.items() if k.startswith("ec_"))))


def brief(i):
    return {"code": i.get("code"), "severity": i.get("severity"), "message": i.get("message"),
            "char_index": i.get("char_index"), "char_index_end": i.get("char_index_end"),
            "ctx": {k: ctx_text(v) for k, v in i.items() if k.startswith("ec_")}}


# ------------------------------------------------------------------------------------------------------------------
# the per-issue monitor
# ------------------------------------------------------------------------------------------------------------------
def check_issue(w, i, inp, entry, text=None, d10_path=False):
    from hed.errors.error_types import ErrorSeverity
    from hed.models.hed_tag import HedTag
    _count["issues"] += 1
    ok = (isinstance(i, dict) and isinstance(i.get("code"), str) and i["code"] != ""
          and isinstance(i.get("message"), str) and i["message"] != ""
          and i.get("severity") in (ErrorSeverity.ERROR, ErrorSeverity.WARNING))
    if not w.check(ok, "C12.form.code_message_severity", inp, brief(i), "code, message, severity present"):
        return
    msg = i["message"]
    n = msg.count(SUFFIX)
    has_off = "char_index" in i or "char_index_end" in i
    if has_off:
        _count["with_offsets"] += 1
        hs = i.get("ec_HedString")
        if not w.check(hs is not None and hasattr(hs, "get_original_hed_string"), "C12.offsets.inside_validated_text",
                       inp, brief(i), "offsets only together with the validated string"):
            return
        vtext = hs.get_original_hed_string()
        if text is not None:
            w.check(vtext == text, "C12.offsets.inside_validated_text", inp, vtext, text)
        ci, ce = i.get("char_index"), i.get("char_index_end")
        inside = isinstance(ci, int) and isinstance(ce, int) and 0 <= ci <= ce <= len(vtext)
        if w.check(inside, "C12.offsets.inside_validated_text", inp, brief(i), "0 <= start <= end <= %d" % len(vtext)):
            src = i.get("source_tag")
            named = src.org_tag if isinstance(src, HedTag) else (
                src.get_original_hed_string() if hasattr(src, "get_original_hed_string") else str(src))
            cands = [(s, e) for (s, e) in spans_of(vtext) if vtext[s:e] == named]
            within = [(s, e) for (s, e) in cands if s <= ci and ce <= e]
            w.check(bool(within), "C12.offsets.inside_named_tag", inp, brief(i),
                    {"named": named, "its spans in the text": cands})
            frag = vtext[ci:ce]
            if "index_in_tag" in i:
                _count["sub_tag"] += 1
                w.check(("'" + frag + "'") in base_message(msg), "C12.offsets.fragment_is_quoted_text", inp, brief(i),
                        "message quotes '%s'" % frag)
                # the tag AS WRITTEN that holds the span (own tokenizer, no HedTag attribute involved): the message must
                # quote exactly source_text[char_index:char_index_end] next to it, whatever form the tag is written in
                toks = [(s, e) for (s, e) in spans_of(vtext) if s <= ci and ce <= e and vtext[s] != "("]
                if toks:
                    s0, e0 = min(toks, key=lambda se: se[1] - se[0])
                    verdict = F.quotes_fragment(base_message(msg), frag, vtext[s0:e0])
                    if verdict is not None:
                        _count["quoted"] += 1
                        w.check(verdict, L_QUOTE, inp, brief(i),
                                {"tag as written": vtext[s0:e0], "source_text[char_index:char_index_end]": frag,
                                 "the message quotes it as one of": F.quoting_patterns(frag, vtext[s0:e0])[:3]})
            else:
                w.check((ci, ce) in cands, "C12.offsets.fragment_is_quoted_text", inp, brief(i),
                        {"whole tag": named, "spans": cands})
                # an issue that names a whole tag or a GROUP: the text the message quotes is the text the offsets select,
                # as written (a group keeps its inner blanks: '( )' is not '()'), not glued to further tag characters
                _count["whole"] += 1
                if frag.startswith("("):
                    _count["whole_group"] += 1
                quoted = re.search(r"(?<![\w/])" + re.escape(frag) + r"(?![\w/])", base_message(msg)) is not None
                w.check(quoted, "C12.offsets.fragment_is_quoted_text", inp, brief(i),
                        "the message quotes source_text[char_index:char_index_end] = %r" % frag)
        w.check(n >= 1 and all((int(a), int(b)) == (ci, ce) for a, b in SUFFIX_RE.findall(msg)),
                "C12.suffix.agrees_with_offsets", inp, brief(i), "suffix names the same offsets")
    else:
        w.check(n == 0, "C12.suffix.agrees_with_offsets", inp, brief(i), "no suffix without offsets")
    if n > 1:
        if d10_path and n == 2 and i["severity"] == ErrorSeverity.WARNING:
            w.fail("C12.suffix.D10_validate_redecorates_phase1_warnings", inp, brief(i), "suffix once")
        else:
            w.fail("C12.suffix.at_most_once", inp, brief(i), "suffix once")
    # "<char> at index N" messages of the string-level rules
    for q, ch, idx in INDEX_RE.findall(msg):
        t = text
        if t is None and i.get("ec_HedString") is not None:
            t = i["ec_HedString"].get_original_hed_string()
        if t is not None:
            k = int(idx)
            w.check(k < len(t) and t[k] == ch, "C12.offsets.index_in_message_selects_char", inp, brief(i),
                    "text[%s] == %r" % (idx, ch))


# ------------------------------------------------------------------------------------------------------------------
# list-level relations
# ------------------------------------------------------------------------------------------------------------------
def check_lists(w, on, off, inp, redecorate=True):
    from hed.errors.error_types import ErrorSeverity
    from hed.errors.error_reporter import ErrorHandler, sort_issues, replace_tag_references
    # errors only == error-severity subset (same order)
    if off is not None:
        exp = [view(x) for x in on if x.get("severity") == ErrorSeverity.ERROR]
        got = [view(x) for x in off]
        w.check(got == exp, "C12.errors_only.equals_error_subset", inp,
                [v[:3] for v in got][:12], [v[:3] for v in exp][:12])
    if not on:
        return
    # sort: permutation, ordered by (file, sidecar column, key, row), stable
    perm = list(on)
    w.rng.shuffle(perm)
    check_sort(w, perm, inp)
    # export
    copies = [dict(x) for x in on]
    before = [x.get("code") for x in copies]
    sev_before = [x.get("severity") for x in copies]
    try:
        replace_tag_references(copies)
        dumped = json.dumps(copies)
        back = json.loads(dumped)
        w.check([x.get("code") for x in back] == before and [x.get("severity") for x in back] == sev_before,
                "C12.export.json_serialisable_same_codes", inp, [x.get("code") for x in back], before)
    except Exception as e:  # noqa
        w.fail("C12.export.json_serialisable_same_codes", inp, repr(e)[:200], "json.dumps succeeds")
    # decoration applied once more
    if redecorate:
        again = [dict(x) for x in on]
        try:
            ErrorHandler(check_for_warnings=True).add_context_and_filter(again)
        except Exception as e:  # noqa
            w.fail("C12.decorate.again_keeps_fields", inp, repr(e)[:200], "no exception")
            return
        same = len(again) == len(on) and all(view(a, True) == view(b, True) for a, b in zip(again, on))
        w.check(same, "C12.decorate.again_keeps_fields", inp, [view(a, True)[:5] for a in again][:6],
                [view(b, True)[:5] for b in on][:6])
        for a, b in zip(again, on):
            if a["message"].count(SUFFIX) > max(1, b["message"].count(SUFFIX)):
                w.fail("C12.suffix.redecoration_appends_again", inp, brief(a), "suffix once")
                break
        filt = [dict(x) for x in on]
        ErrorHandler(check_for_warnings=False).add_context_and_filter(filt)
        w.check([view(x, True) for x in filt] == [view(x, True) for x in on if x["severity"] == ErrorSeverity.ERROR],
                "C12.errors_only.equals_error_subset", dict(inp, via="add_context_and_filter on a decorated list"),
                [x["code"] for x in filt], [x["code"] for x in on if x["severity"] == ErrorSeverity.ERROR])


def _pk(i):
    return (i.get("ec_filename", ""), i.get("ec_sidecarColumnName", ""), i.get("ec_sidecarKeyName", ""),
            i.get("ec_row", -1))


def _allctx(i):
    return tuple(sorted((k, ctx_text(v)) for k, v in i.items() if k.startswith("ec_") and k != "ec_HedString"))


def check_sort(w, perm, inp):
    from hed.errors.error_reporter import sort_issues
    if any(i.get("ec_title") for i in perm):
        return
    try:
        out = sort_issues(list(perm))
    except Exception as e:  # noqa
        w.fail("C12.sort.ordered_by_file_column_key_row", inp, repr(e)[:200], "no exception")
        return
    _count["sorted_lists"] += 1
    w.check(sorted(map(id, out)) == sorted(map(id, perm)), "C12.sort.is_permutation", inp, len(out), len(perm))
    keys = [_pk(i) for i in out]
    bad = [k for k in range(len(keys) - 1) if keys[k] > keys[k + 1]]
    w.check(not bad, "C12.sort.ordered_by_file_column_key_row", inp,
            [list(keys[k]) for k in bad[:1] for k in (k, k + 1)], "non-decreasing (file, column, key, row)")
    pos = {id(x): k for k, x in enumerate(perm)}
    last = {}
    stable = True
    for x in out:
        c = _allctx(x)
        if c in last and last[c] > pos[id(x)]:
            stable = False
        last[c] = pos[id(x)]
    w.check(stable, "C12.sort.stable", inp, "issues with identical context changed relative order", "input order kept")


L_ORDER = "C12.sort.ordered_by_file_column_key_row"
# narrow label of a finding on the unchanged tree: a sidecar with structure / column-reference faults in several columns
# is answered with those issues in the order met, not in the documented order (everything else stays under L_ORDER)
L_ORDER_STRUCT = "C12.sort.sidecar_structure_issues_returned_unsorted"
# codes of the sidecar structure / column-reference screening (documented names in hed/errors/error_types.py)
STRUCT_CODES = {"SIDECAR_INVALID", "SIDECAR_BRACES_INVALID", "blankValueString", "wrongHedDataType", "sidecarUnknownColumn"}


def check_returned_order(w, issues, inp, entry):
    """the list an entry point RETURNS is in the documented order: file name, then sidecar column, then sidecar key, then
    row (an absent value before any value).  A dataset validates file after file: judged per file name."""
    if any(i.get("ec_title") for i in issues):
        return
    if entry == "dataset":
        groups = {}
        for i in issues:
            groups.setdefault(i.get("ec_filename", ""), []).append(i)
        groups = list(groups.values())
    else:
        groups = [issues]
    for g in groups:
        keys = [_pk(i) for i in g]
        _count["returned_lists"] += 1
        if len(set(keys)) > 1:
            _count["returned_multi_key"] += 1
        bad = [k for k in range(len(keys) - 1) if keys[k] > keys[k + 1]]
        if not bad:
            continue
        label = L_ORDER
        if entry in ("sidecar", "dataset") and all(i.get("code") in STRUCT_CODES for i in g):
            label = L_ORDER_STRUCT
        w.fail(label, dict(inp, check="order of the returned list"),
               [[i.get("code")] + list(k) for i, k in zip(g, keys)][:10],
               "returned list non-decreasing in (file, sidecar column, sidecar key, row); first inversion at position %d" % bad[0])


# ------------------------------------------------------------------------------------------------------------------
# entry points
# ------------------------------------------------------------------------------------------------------------------
_count = {"issues": 0, "with_offsets": 0, "sub_tag": 0, "sorted_lists": 0, "quoted": 0, "quoted_no_offsets": 0, "whole": 0,
          "whole_group": 0, "returned_lists": 0, "returned_multi_key": 0, "foreign": 0}
_pool_for_sort = []
_raised = []   # inputs on which an entry point raised: C12 says nothing about them (C07/C08 do); reported, not judged


def run_string(w, text, count=True):
    from hed import HedString
    from hed.validator import HedValidator
    from hed.errors.error_reporter import ErrorHandler
    from hed.errors.error_types import ErrorContext
    s = schema("8.3.0")
    for ph in (False, True):
        inp = {"entry": "string", "text": text, "allow_placeholders": ph}
        res = {}
        try:
            res["plain"] = HedString(text, s).validate(allow_placeholders=ph)
            for warn in (True, False):
                hs = HedString(text, s)
                eh = ErrorHandler(check_for_warnings=warn)
                eh.push_error_context(ErrorContext.HED_STRING, hs)
                res[warn] = HedValidator(s).validate(hs, allow_placeholders=ph, error_handler=eh)
            res["plain_off"] = HedString(text, s).validate(allow_placeholders=ph,
                                                           error_handler=ErrorHandler(check_for_warnings=False))
        except Exception as e:  # noqa
            _raised.append({"input": inp, "exception": repr(e)[:160]})
            continue
        if count:
            w.case(key=("string", text, ph), nontrivial=bool(res[True]),
                   sample={"entry": "string", "text": text, "codes": [i["code"] for i in res[True]]})
        for i in res["plain"]:
            check_issue(w, i, dict(inp, handler="none"), "string", text=text)
        for warn in (True, False):
            for i in res[warn]:
                check_issue(w, i, dict(inp, handler="HED_STRING context", warnings=warn), "string", text=text,
                            d10_path=True)
        # the fragment selected is the offending part of the tag (hand-written expectations for some atoms)
        for atom, code, rels in EXPECT:
            if text.count(atom) != 1:
                continue
            pos = text.find(atom)
            hits = [i for i in res[True] if i["code"] == code and "char_index" in i
                    and pos <= i["char_index"] and i["char_index_end"] <= pos + len(atom)]
            if text == atom and not ph:
                w.check(bool(hits), "C12.offsets.selects_offending_part", inp, [brief(i) for i in res[True]][:3],
                        "%s with offsets inside '%s'" % (code, atom))
            for i in hits:
                got = (i["char_index"] - pos, i["char_index_end"] - pos)
                w.check(got in rels, "C12.offsets.selects_offending_part", inp, brief(i),
                        {"atom": atom, "at": pos, "allowed spans relative to the atom": rels})
        # the same verdict with and without a context handler
        w.check([(i["code"], i["severity"]) for i in res["plain"]] == [(i["code"], i["severity"]) for i in res[True]],
                "C12.entry.handler_does_not_change_codes", inp, [i["code"] for i in res["plain"]],
                [i["code"] for i in res[True]])
        check_lists(w, res[True], res[False], dict(inp, handler="HED_STRING context"))
        check_lists(w, res["plain"], res["plain_off"], dict(inp, handler="none"), redecorate=False)


def check_unlocated_sub_tag(w, i, inp, text):
    """an issue returned without a string context carries only index_in_tag/index_in_tag_end (relative to the tag as
    written): some tag of the text, cut at these indices, must be what the message quotes next to that tag"""
    a, b = i.get("index_in_tag"), i.get("index_in_tag_end")
    if not (isinstance(a, int) and isinstance(b, int)):
        return
    msg = base_message(i.get("message", ""))
    verdicts = []
    for (s, e) in spans_of(text):
        t = text[s:e]
        if t.startswith("(") or not (0 <= a <= b <= len(t)):
            continue
        v = F.quotes_fragment(msg, t[a:b], t)
        if v is not None:
            verdicts.append((t, t[a:b], v))
    if verdicts:
        _count["quoted_no_offsets"] += 1
        w.check(any(v for _, _, v in verdicts), L_QUOTE, inp, brief(i),
                {"index_in_tag": [a, b], "tags as written naming candidates": [[t, f] for t, f, _ in verdicts][:3],
                 "expected": "the message quotes tag[index_in_tag:index_in_tag_end] of the tag as written"})


def run_located(w, text, version="8.3.0", meta=None, count=True):
    """string entry point for the 'forms' part: plain validate (issues carry index_in_tag only) and validate under a
    HED_STRING context (issues carry char_index/char_index_end), warnings on"""
    from hed import HedString
    from hed.validator import HedValidator
    from hed.errors.error_reporter import ErrorHandler
    from hed.errors.error_types import ErrorContext
    s = schema(version)
    inp = {"entry": "located", "text": text, "schema": version}
    if meta:
        inp["form"] = meta
    try:
        plain = HedString(text, s).validate(allow_placeholders=False)
        hs = HedString(text, s)
        eh = ErrorHandler(check_for_warnings=True)
        eh.push_error_context(ErrorContext.HED_STRING, hs)
        ctx = HedValidator(s).validate(hs, allow_placeholders=False, error_handler=eh)
    except Exception as e:  # noqa
        _raised.append({"input": inp, "exception": repr(e)[:160]})
        return 0
    sub = [i for i in ctx if "index_in_tag" in i]
    if count:
        w.case(key=("located", version, text), nontrivial=bool(sub),
               sample={"entry": "located", "text": text, "schema": version, "codes": [i["code"] for i in ctx]})
    for i in plain:
        check_issue(w, i, dict(inp, handler="none"), "string", text=text)
        check_unlocated_sub_tag(w, i, dict(inp, handler="none"), text)
    for i in ctx:
        check_issue(w, i, dict(inp, handler="HED_STRING context"), "string", text=text, d10_path=True)
    w.check([(i["code"], i["severity"]) for i in plain] == [(i["code"], i["severity"]) for i in ctx],
            "C12.entry.handler_does_not_change_codes", inp, [i["code"] for i in plain], [i["code"] for i in ctx])
    return len(sub)


def forms_preconditions():
    """every suffix form of every hand-written long path is a valid spelling (with and without namespace)"""
    from hed import HedString
    from hed.errors.error_types import ErrorSeverity
    bad = []
    for version, ns in (("8.3.0", ""), (NS_VERSION, NS)):
        s = schema(version)
        for t in F.valid_spellings():
            t = F.with_namespace(t, ns) if ns else t
            issues = HedString(t, s).validate(allow_placeholders=False)
            if any(i["severity"] == ErrorSeverity.ERROR for i in issues):
                bad.append((version, t, [i["code"] for i in issues]))
    return bad


NS = "ts:"
NS_VERSION = "ts:8.3.0"


def make_sidecar(strings, values, defs=None, extra=None):
    d = {}
    half = (len(strings) + 1) // 2
    for name, chunk in (("cond", strings[:half]), ("kind", strings[half:])):
        if chunk:
            d[name] = {"HED": {"k%d" % k: t for k, t in enumerate(chunk)}}
    for k, v in enumerate(values):
        d["val%d" % k] = {"HED": v}
    if defs:
        d["defs"] = {"HED": {"d%d" % k: t for k, t in enumerate(defs)}}
    if extra:
        d.update(extra)
    return d


def run_sidecar(w, sc, count=True, version="8.3.0"):
    from hed import Sidecar
    from hed.errors.error_reporter import ErrorHandler
    s = schema(version)
    inp = {"entry": "sidecar", "sidecar": sc}
    if version != "8.3.0":
        inp["schema"] = version
    res = {}
    try:
        for warn in (True, False):
            side = Sidecar(io.StringIO(json.dumps(sc)))
            res[warn] = side.validate(s, name="side.json", error_handler=ErrorHandler(check_for_warnings=warn))
    except Exception as e:  # noqa
        _raised.append({"input": inp, "exception": repr(e)[:160]})
        return
    if count:
        w.case(key=("sidecar", json.dumps(sc, sort_keys=True)), nontrivial=bool(res[True]),
               sample={"entry": "sidecar", "columns": list(sc), "codes": [i["code"] for i in res[True]][:8]})
    texts = set()
    for col in sc.values():
        h = col.get("HED") if isinstance(col, dict) else None
        texts.update(h.values() if isinstance(h, dict) else [h] if isinstance(h, str) else [])
    for warn in (True, False):
        for i in res[warn]:
            check_issue(w, i, dict(inp, warnings=warn), "sidecar")
            hs = i.get("ec_HedString")
            if hs is not None and "char_index" in i:
                # the validated text is an entry of the sidecar (possibly with {ref} replaced by another entry)
                t = hs.get_original_hed_string()
                w.check(t in texts or "{" in "".join(texts), "C12.offsets.inside_validated_text", dict(inp, warnings=warn),
                        t, "one of the sidecar's HED strings")
    for warn in (True, False):
        check_returned_order(w, res[warn], dict(inp, warnings=warn), "sidecar")
    check_lists(w, res[True], res[False], inp)
    _pool_for_sort.extend(res[True])


def run_table(w, rows, sc, onset, count=True, version="8.3.0"):
    import pandas as pd
    from hed import Sidecar, TabularInput
    from hed.errors.error_reporter import ErrorHandler
    s = schema(version)
    inp = {"entry": "table", "rows": rows, "sidecar": sc, "onset": onset}
    if version != "8.3.0":
        inp["schema"] = version
    res = {}
    try:
        for warn in (True, False):
            data = dict(rows)
            n = len(next(iter(rows.values())))
            if onset:
                data = dict({"onset": onset[:n], "duration": ["n/a"] * n}, **data)
            df = pd.DataFrame(data, dtype=str)
            side = Sidecar(io.StringIO(json.dumps(sc))) if sc else None
            ti = TabularInput(df, sidecar=side, name="events.tsv")
            res[warn] = ti.validate(s, name="events.tsv", error_handler=ErrorHandler(check_for_warnings=warn))
    except Exception as e:  # noqa
        _raised.append({"input": inp, "exception": repr(e)[:160]})
        return
    if count:
        w.case(key=("table", json.dumps(rows, sort_keys=True), bool(onset)), nontrivial=bool(res[True]),
               sample={"entry": "table", "rows": len(next(iter(rows.values()))), "onset": bool(onset),
                       "codes": [i["code"] for i in res[True]][:8]})
    for warn in (True, False):
        for i in res[warn]:
            check_issue(w, i, dict(inp, warnings=warn), "table")
    for warn in (True, False):
        check_returned_order(w, res[warn], dict(inp, warnings=warn), "table")
    check_lists(w, res[True], res[False], inp)
    _pool_for_sort.extend(res[True])


def run_dataset(w, strings, count=True):
    half = len(strings) // 2
    sc = make_sidecar(strings[:half], ["Label/#", "Weight/# foo"], defs=DEF_STRINGS[:2])
    files = {}
    for sub, chunk in (("sub-01", strings[half:half + half // 2]), ("sub-02", strings[half + half // 2:])):
        lines = ["onset\tduration\tcond\tval0\tHED"]
        for k, t in enumerate(chunk):
            lines.append("%d.0\tn/a\tk%d\t%s\t%s" % (k, k % max(1, (half + 1) // 2), ["3", "x", "n/a"][k % 3],
                                                     t.replace("\t", " ")))
        files[sub] = "\n".join(lines) + "\n"
    validate_dataset(w, {"entry": "dataset", "strings": strings}, sc, files, count, ("dataset", tuple(strings)))


def validate_dataset(w, inp, sc, files, count, key):
    """files: subject -> text of its events file; sc: the inherited sidecar at the dataset root"""
    from hed.tools.bids.bids_dataset import BidsDataset
    root = tempfile.mkdtemp(prefix="c12_")
    try:
        with open(os.path.join(root, "dataset_description.json"), "w") as f:
            json.dump({"Name": "c12", "BIDSVersion": "1.8.0", "HEDVersion": "8.3.0"}, f)
        with open(os.path.join(root, "task-a_events.json"), "w") as f:
            json.dump(sc, f)
        for sub, text in files.items():
            d = os.path.join(root, sub, "eeg")
            os.makedirs(d)
            with open(os.path.join(d, "%s_task-a_events.tsv" % sub), "w", encoding="utf-8") as f:
                f.write(text)
        res = {}
        try:
            for warn in (True, False):
                res[warn] = BidsDataset(root).validate(check_for_warnings=warn)
        except Exception as e:  # noqa
            _raised.append({"input": inp, "exception": repr(e)[:160]})
            return
        if count:
            w.case(key=key, nontrivial=bool(res[True]), sample={"entry": "dataset", "issues": len(res[True])})
        for warn in (True, False):
            for i in res[warn]:
                check_issue(w, i, dict(inp, warnings=warn), "dataset")
            check_returned_order(w, res[warn], dict(inp, warnings=warn), "dataset")
        check_lists(w, res[True], res[False], inp)
        _pool_for_sort.extend(res[True])
    finally:
        shutil.rmtree(root, ignore_errors=True)


# ------------------------------------------------------------------------------------------------------------------
# order of the returned list: columns / rows whose faults are found at different stages of a validation
# ------------------------------------------------------------------------------------------------------------------
# one sidecar column per fault kind; category keys are listed in an order that is NOT their sorted order
ORDER_KINDS = {
    "tag_error": {"HED": {"k2": "Redx", "k1": "Blue, Item/Object/Blue"}},               # per-string errors
    "warning": {"HED": {"k2": "Blue/Apple", "k1": "Green"}},                            # per-string warning only
    "value_error": {"HED": "Label/#, Redx"},                                            # value column
    "pound": {"HED": {"k2": "Label/#", "k1": "Red"}},                                   # placeholder count of a category
    "full_string": {"HED": {"k2": "Red, Red", "k1": "(Onset, Blue)"}},                  # found by the whole-string pass
    "def_mix": {"HED": {"k2": "(Definition/Abc, (Red))", "k1": "Green"}},               # column-level: definition misplaced
    "def_mix_two": {"HED": {"k3": "Green", "k2": "(Definition/Pqr, (Red))", "k1": "(Definition/Xyz/#, (Label/#))"}},
    "def_fault": {"HED": {"k2": "(Definition/Bad, (Red), Blue)", "k1": "(Definition/Good, (Red))"}},  # found when definitions are collected
    "ok": {"HED": {"k1": "Red"}},
}
# structure / reference faults (the sidecar is answered with these alone)
ORDER_STRUCT_KINDS = {
    "hed_key": {"Levels": {"a": {"HED": "Red"}}},                                       # misplaced HED key
    "blank": {"HED": {"k2": "", "k1": "Red"}},
    "bad_type": {"HED": {"k1": 3}},
    "bad_ref": {"HED": {"k2": "{zzz}, Red", "k1": "Blue"}},
}
ORDER_NAMES = ("alpha", "beta", "gamma")


def order_sidecars(quick):
    """(kinds in file order, names in file order, sidecar): every permutation of which of alpha/beta/gamma has which fault"""
    import itertools
    faulty = [k for k in ORDER_KINDS if k != "ok"]
    if quick:
        triples = [pair + ("ok",) for pair in itertools.combinations(faulty, 2)]
        triples = [t[n % 3:] + t[:n % 3] for n, t in enumerate(triples)]      # the clean column first / second / last
    else:
        triples = list(itertools.permutations(list(ORDER_KINDS), 3))
    struct = list(ORDER_STRUCT_KINDS)
    pairs = [(a, b) for a in struct for b in struct]
    triples += [(a, b, "tag_error") if n % 2 else ("tag_error", a, b) for n, (a, b) in enumerate(pairs)]
    allk = dict(ORDER_KINDS, **ORDER_STRUCT_KINDS)
    for kinds in triples:
        for names in itertools.permutations(ORDER_NAMES):
            yield kinds, names, {n: copy.deepcopy(allk[k]) for n, k in zip(names, kinds)}


ORDER_TABLE_SIDECAR = {"cond": {"HED": {"a": "Red", "c": "Redx", "w": "Blue/Apple"}},
                       "defs": {"HED": {"d": "(Definition/Abc, (Red))"}}}
# per-row fault kinds: (value of the categorical column, HED column); 'temporal'/'inset' are found by the pass over the
# whole file that follows the row-by-row pass
ORDER_ROW_KINDS = {"ok": ("a", "Green"), "tag_error": ("a", "Redx"), "warning": ("a", "Blue/Pear"),
                   "temporal": ("a", "(Def/Abc, Offset)"), "cat_error": ("c", "Green"), "inset": ("a", "(Def/Abc, Inset)"),
                   "repeated": ("a", "Red")}


def order_tables(quick):
    """(row kinds, rows, onsets): every arrangement of the fault kinds over the rows of a 4-row table"""
    import itertools
    base = [("temporal", "tag_error", "warning", "ok"), ("inset", "cat_error", "repeated", "temporal")]
    if not quick:
        base += [("temporal", "temporal", "tag_error", "cat_error"), ("inset", "warning", "warning", "repeated"),
                 ("temporal", "inset", "ok", "tag_error")]
    seen = set()
    for b in base:
        for kinds in itertools.permutations(b):
            if kinds in seen:
                continue
            seen.add(kinds)
            rows = {"cond": [ORDER_ROW_KINDS[k][0] for k in kinds], "HED": [ORDER_ROW_KINDS[k][1] for k in kinds]}
            n = len(seen)
            onsets = ["0.0", "1.0", "2.0", "3.0"] if n % 3 else ["0.0", "2.0", "1.0", "3.0"]
            yield kinds, rows, onsets


# ------------------------------------------------------------------------------------------------------------------
# strings MODIFIED after parsing (definition expansion / shrinking, removal of definitions, replacement / removal of a child)
# ------------------------------------------------------------------------------------------------------------------
# a tag that draws a tag-level issue wherever it is validated; '#' variants go into definitions that take a value
MOD_FAULTS = ["Item/Zork", "Blue/Apple", "Weight/3 foo", "Redx", "Item/Object/Blue", "Age/x", "Label/a$b", "Item/Zork/Blah"]
MOD_FAULTS_VALUE = ["Weight/# foo", "Distance/# zz", "Label/#, Blue/Apple"]
# what else the definition holds: decides where in the DEFINITION's text the faulty tag sits
MOD_PADS = ["%s", "Square, %s", "Blue, Green, Square, %s", "%s, Circle", "(Circle, Triangle), Label/some-long-label-text, (Green, %s)",
            "Label/a-rather-long-label-so-that-the-definition-text-is-longer-than-most-annotations, (Square, (Circle, %s))"]
# annotations using a definition: {N} the Def tag, {F} the definition's faulty tag written in the annotation itself,
# {M} another Def tag, {X} the definition written as a Def-expand group, {L} a local definition
MOD_TEMPLATES = ["{N}", "{N}, Red", "Red, ({N}, Circle)", "({N}, Red), Triangle", "  {N} , Blue/Pear", "{F}, {N}", "({N}, ({F}, Green))",
                 "Item/Yum, ({N}), Redy", "{N}, ({M}, Red)", "{X}, Red", "Blue/Pear, ({X}, (Green, {F}))", "({M}, Circle), {X}",
                 "{L}, Blue/Pear, {N}", "{N}, {L}", "(Green, ({N}, Item/Yum)), {M}"]
MOD_OPS = [("expand",), ("expand", "shrink"), ("shrink",), ("shrink", "expand"), ("expand", "expand"), ("remove_definitions",),
           ("remove_definitions", "expand"), ("replace_tag",), ("replace_group",), ("remove_tag",), ("expand", "replace_tag"),
           ("replace_group", "expand"), ("expand", "remove_tag", "shrink")]
# replacements come from ANOTHER text: their spans are positions in that text
MOD_FOREIGN = "Green, Square, Circle, Triangle, Label/some-other-long-label, Item/Blorp, (Weight/5 bar, (Blue/Plum, Orange))"

_mod_defs = {}


def mod_definitions():
    """name -> (definition text, contents as written, faulty tag, takes a value); one DefinitionDict of all of them"""
    if _mod_defs:
        return _mod_defs["table"], _mod_defs["dict"]
    from hed.models.definition_dict import DefinitionDict
    table = {}
    for a, fault in enumerate(MOD_FAULTS + MOD_FAULTS_VALUE):
        for b, pad in enumerate(MOD_PADS):
            value = "#" in fault
            name = "M%d%s" % (a, "abcdefgh"[b])
            contents = pad % fault
            table[name] = {"text": "(Definition/%s%s, (%s))" % (name, "/#" if value else "", contents), "contents": contents,
                           "fault": fault, "value": value}
    dd = DefinitionDict([d["text"] for d in table.values()], schema("8.3.0"))
    missing = [n for n in table if n.casefold() not in dd.defs]
    if missing or dd.issues:
        raise AssertionError("workload precondition: definitions not accepted: %r %r" % (missing[:5], dd.issues[:2]))
    _mod_defs["table"], _mod_defs["dict"] = table, dd
    return table, dd


def mod_fill(template, name, other, table, value="4"):
    d, o = table[name], table[other]

    def use(n, e):
        return "Def/%s%s" % (n, "/" + value if e["value"] else "")
    sub = {"N": use(name, d), "M": use(other, o), "F": d["fault"].replace("#", value),
           "X": "(Def-expand/%s%s, (%s))" % (name, "/" + value if d["value"] else "", d["contents"].replace("#", value)),
           "L": "(Definition/Loc%s, (Item/Zork, Square))" % name}
    return template.format(**sub)


def mod_cases(quick, rng):
    table, _ = mod_definitions()
    names = list(table)
    n = 0
    for k, name in enumerate(names):
        other = names[(k * 7 + 3) % len(names)]
        for t, template in enumerate(MOD_TEMPLATES):
            for o, ops in enumerate(MOD_OPS):
                n += 1
                if quick and (k + 2 * t + 3 * o) % 19:
                    continue
                if "remove_definitions" in ops and "{L}" not in template and (k + o) % 3:
                    continue
                yield {"entry": "modified", "text": mod_fill(template, name, other, table), "ops": list(ops), "pick": n % 5,
                       "join": ["", "before", "after"][(k + t + o) % 3]}


def mod_apply(hs, ops, pick):
    """apply the modifications to the parsed string; returns the texts of the tags brought in from elsewhere"""
    from hed import HedString
    from hed.models.hed_group import HedGroup
    s = schema("8.3.0")
    for op in ops:
        if op == "expand":
            hs.expand_defs()
        elif op == "shrink":
            hs.shrink_defs()
        elif op == "remove_definitions":
            hs.remove_definitions()
        else:
            tags = [t for t in hs.get_all_tags() if not t.org_tag.lower().startswith(("def/", "def-expand/", "definition/"))
                    and t._parent is not None]
            if not tags:
                continue
            victim = tags[pick % len(tags)]
            if op == "remove_tag":
                hs.remove([victim])
            else:
                foreign = HedString(MOD_FOREIGN, s)
                new = foreign.get_all_tags()[5] if op == "replace_tag" else foreign.groups()[0]
                HedGroup.replace(victim, new)


def run_modified(w, case, count=True):
    """string entry point (HedString.validate / HedValidator.validate with the string pushed as HED_STRING context) on a
    string modified after parsing, alone and as one member of a string assembled with HedString.from_hed_strings (the way
    the table validator assembles the columns of a row)"""
    from hed import HedString
    from hed.models.hed_tag import HedTag
    from hed.validator import HedValidator
    from hed.errors.error_reporter import ErrorHandler
    from hed.errors.error_types import ErrorContext
    s = schema("8.3.0")
    _, dd = mod_definitions()
    text, ops, pick, join = case["text"], tuple(case["ops"]), case.get("pick", 0), case.get("join", "")
    inp = dict(case)
    res = {}
    try:
        for warn in (True, False):
            hs = HedString(text, s, dd)
            mod_apply(hs, ops, pick)
            whole, full = hs, text
            if join:
                extra = "Blue/Pear, (Square, Redz)"
                parts = [HedString(extra, s, dd), hs] if join == "before" else [hs, HedString(extra, s, dd)]
                whole = HedString.from_hed_strings(parts)
                full = ",".join([extra, text] if join == "before" else [text, extra])
            eh = ErrorHandler(check_for_warnings=warn)
            eh.push_error_context(ErrorContext.HED_STRING, whole)
            if join:
                res[warn] = HedValidator(s, def_dicts=dd, definitions_allowed=True).validate(whole, allow_placeholders=False,
                                                                                             error_handler=eh)
            else:
                res[warn] = whole.validate(allow_placeholders=False, error_handler=eh)
    except Exception as e:  # noqa
        _raised.append({"input": inp, "exception": repr(e)[:160]})
        return
    tokens = {full[a:b] for a, b in spans_of(full)}
    foreign = 0
    for warn in (True, False):
        for i in res[warn]:
            src = i.get("source_tag")
            named = src.org_tag if isinstance(src, HedTag) else (
                src.get_original_hed_string() if hasattr(src, "get_original_hed_string") else None)
            if named is not None and named not in tokens:
                # the tag / group named is not written in the validated text (it comes from the definition's text or from
                # the text the replacement was parsed from): nothing in the validated text to point at
                foreign += 1
                _count["foreign"] += 1
                ok = "char_index" not in i and "char_index_end" not in i and SUFFIX not in i.get("message", "")
                if not w.check(ok, "C12.offsets.inside_validated_text", dict(inp, warnings=warn), brief(i),
                               {"validated text": full, "named": named,
                                "expected": "no offsets: the named tag is not part of the validated text"}):
                    continue
            check_issue(w, i, dict(inp, warnings=warn), "string", text=full, d10_path=True)
    if count:
        w.case(key=("modified", text, ops, pick, join), nontrivial=foreign > 0,
               sample={"entry": "modified", "text": text, "ops": list(ops), "codes": [i["code"] for i in res[True]]})
    check_lists(w, res[True], res[False], inp)


def run_modified_table(w, texts, count=True):
    """table entry point on a table whose HED column was rewritten by df_util.expand_defs / shrink_defs (parse, modify, write
    back): offsets refer to the text that is in the table now"""
    import pandas as pd
    from hed import TabularInput
    from hed.models import df_util
    from hed.errors.error_reporter import ErrorHandler
    s = schema("8.3.0")
    _, dd = mod_definitions()
    inp = {"entry": "modified_table", "texts": texts}
    for step in ("expand", "shrink"):
        res = {}
        try:
            df = pd.DataFrame({"onset": [str(float(k)) for k in range(len(texts))], "duration": ["n/a"] * len(texts),
                               "HED": list(texts)}, dtype=str)
            df_util.expand_defs(df, s, dd, columns=["HED"])
            if step == "shrink":
                df_util.shrink_defs(df, s, columns=["HED"])
            cells = list(df["HED"])
            for warn in (True, False):
                ti = TabularInput(df.copy(), name="events.tsv")
                res[warn] = ti.validate(s, extra_def_dicts=dd, name="events.tsv",
                                        error_handler=ErrorHandler(check_for_warnings=warn))
        except Exception as e:  # noqa
            _raised.append({"input": dict(inp, step=step), "exception": repr(e)[:160]})
            continue
        if count:
            w.case(key=("modified_table", tuple(texts), step), nontrivial=bool(res[True]),
                   sample={"entry": "modified_table", "step": step, "codes": [i["code"] for i in res[True]][:8]})
        for warn in (True, False):
            for i in res[warn]:
                check_issue(w, i, dict(inp, step=step, warnings=warn), "table")
                hs = i.get("ec_HedString")
                if hs is not None and "char_index" in i:
                    w.check(hs.get_original_hed_string() in cells, "C12.offsets.inside_validated_text",
                            dict(inp, step=step, warnings=warn), hs.get_original_hed_string(), "a cell of the rewritten table")
            check_returned_order(w, res[warn], dict(inp, step=step, warnings=warn), "table")
        check_lists(w, res[True], res[False], dict(inp, step=step))


SIDECAR_EXTRAS = [
    {"refcol":{"HED": {"a": "Label/abc, {val0}", "b": "{zzz}, Red", "c": "Red, {cond", "d": "Blue}, Red"}}},
    {"selfref": {"HED": {"a": "{selfref}, Red"}}},
    {"HED": {"HED": {"a": "Red"}}},
    {"nohed": {"Description": "no HED here", "Levels": {"a": "x"}}},
    {"blank": {"HED": {"a": "", "b": "n/a"}}, "typed": {"HED": {"a": 3}}},
    {"two": {"HED": "Label/#, {cond}"}, "nested": {"HED": {"a": "{two}, Red"}}},
    {"na": {"HED": {"n/a": "Red"}}},
]


def chunks(lst, n):
    for k in range(0, len(lst), n):
        yield lst[k:k + n]


def run(w: Workload):
    w.rule = ("annotations = ~60 atoms (valid / warning / tag-level error / string-level error) x 8 surrounding contexts + "
              "seeded atom pairs; each annotation goes through the string entry point (3 handlers x placeholders on/off), and in "
              "chunks through sidecars (categorical+value+definition+reference columns), tables (with/without onset column) and "
              "one generated BIDS dataset; a case = one (entry point, input); every returned issue is monitored "
              "(form, offsets vs. own tokenizer, quoted fragment, suffix) and every list checked (errors-only, sort, export, "
              "re-decoration); forms: 5 tags with hand-written long paths x every suffix form (long/partially long/short) x "
              "letter-case variants x faulty tails (invalid characters in value and extension, invalid extension, extra "
              "slashes/blanks, placeholder, mistyped path nodes), plain and namespace-prefixed, through the string, sidecar and "
              "table entry points: the fragment the message quotes must equal source_text[char_index:char_index_end]; "
              "order: sidecars with columns alpha/beta/gamma x every assignment of fault kinds found at different stages "
              "(per string, whole string, column level, definition collection, structure) and 4-row tables x every arrangement "
              "of row-level and temporal faults: the returned list is in (file, column, key, row) order; modified: (definition "
              "= faulty tag x its surroundings in the definition) x annotation template x modification sequence, validated "
              "after the modification")
    texts = pool(w)
    for t in texts:
        run_string(w, t)
    n_str = w.evaluations
    w.part("string entry point", cases=n_str, bound="%d annotations x placeholders on/off; handlers: none, HED_STRING "
           "context with warnings on/off" % len(texts), exhaustive=False)
    # sidecars
    before = w.evaluations
    sc_texts = texts if not w.quick else texts[:len(ATOMS) * len(CONTEXTS)]
    for k, chunk in enumerate(chunks(sc_texts, 8)):
        vals = [VALUE_STRINGS[(k + j) % len(VALUE_STRINGS)] for j in range(2)]
        defs = [DEF_STRINGS[(k + j) % len(DEF_STRINGS)] for j in range(2)] if k % 3 == 0 else None
        extra = SIDECAR_EXTRAS[k % len(SIDECAR_EXTRAS)] if k % 4 == 1 else None
        chunk = [t for t in chunk if "{" not in t and "}" not in t] if k % 2 else chunk
        run_sidecar(w, make_sidecar(chunk, vals, defs, extra))
    w.part("sidecar entry point", cases=w.evaluations - before, bound="pool in chunks of 8 per sidecar, 2 value columns, "
           "definitions in every 3rd, reference/structure faults in every 4th", exhaustive=False)
    # tables
    before = w.evaluations
    tb_texts = texts if not w.quick else texts[:len(ATOMS) * len(CONTEXTS):2]
    sc = {"cond": {"HED": {"a": "Red, Blue/Apple", "b": "(Green)", "c": "Redx"}},
          "val": {"HED": "(Duration/# s, (Item/Zork)), Label/#"}}
    for k, chunk in enumerate(chunks(tb_texts, 6)):
        rows = {"cond": [["a", "b", "zz", "n/a", "c", "a"][j % 6] for j in range(len(chunk))],
                "val": [["3", "x y", "n/a"][j % 3] for j in range(len(chunk))],
                "HED": [t.replace("\t", " ") for t in chunk]}
        onsets = [str(float(j)) for j in range(6)]
        if k % 5 == 4:
            onsets = list(reversed(onsets))
        run_table(w, rows, sc, None)
        run_table(w, rows, sc if k % 2 else None, onsets)
    w.part("table entry point", cases=w.evaluations - before, bound="pool in chunks of 6 rows; HED column + categorical + value "
           "column; without and with onset column (every 5th unordered)", exhaustive=False)
    # dataset
    before = w.evaluations
    ds_texts = [t for t in texts if "{" not in t and "\t" not in t]
    for k in range(2 if w.quick else 8):
        run_dataset(w, w.rng.sample(ds_texts, 24))
    w.part("dataset entry point", cases=w.evaluations - before, bound="generated BIDS datasets: one inherited sidecar, two "
           "event files, 24 sampled annotations each", exhaustive=False)
    # forms: the faulty tag in long / partially long / short form, other letter case, with a namespace prefix
    before = w.evaluations
    bad = forms_preconditions()
    if bad:
        raise AssertionError("workload precondition: spellings expected to be valid are rejected: %r" % bad[:5])
    atoms = F.atoms(not w.quick)
    n_ctx = len(F.CONTEXTS)
    stats = {}
    n_strings = 0
    for k, a in enumerate(atoms):
        ctxs = sorted({k % n_ctx, (k + 2) % n_ctx}) if w.quick else range(n_ctx)
        meta = {"form": a["form"], "case": a["case"], "tail": a["tail"]}
        for c in ctxs:
            n_strings += 1
            hit = run_located(w, F.CONTEXTS[c] % a["text"], "8.3.0", meta)
            key = (a["form"], a["case"], "")
            stats[key] = stats.get(key, 0) + (1 if hit else 0)
        if a["case"] in ("declared", "alternating") or not w.quick:
            n_strings += 1
            text = F.with_namespace(F.CONTEXTS[(k + 1) % n_ctx] % a["text"], NS)
            hit = run_located(w, text, NS_VERSION, dict(meta, namespace=NS))
            key = (a["form"], a["case"], NS)
            stats[key] = stats.get(key, 0) + (1 if hit else 0)
    w.part("forms: string entry point", cases=w.evaluations - before,
           bound="%d faulty tags = 5 hand-written long paths x every suffix form (long, partially long, short) x %d letter "
                 "cases x 3-10 faulty tails + 9 broken paths, each in %s of 5 surrounding contexts, plus namespace-prefixed "
                 "copies under schema %s; annotations with >= 1 sub-tag issue per (form, case, namespace): %s"
                 % (len(atoms), 3 if w.quick else 4, "2" if w.quick else "all", NS_VERSION,
                    {"/".join(x for x in k if x): v for k, v in sorted(stats.items())}), exhaustive=False)
    before = w.evaluations
    value_forms = ["Property/Informational-property/Label/#", "Informational-property/Label/#$x",
                   "Property/Data-property/Data-value/Physical-value/Weight/# k$g", "Item/Object/Man-made-object/Building/#",
                   "Object/Zork/#", "property/INFORMATIONAL-PROPERTY/label/# @"]
    sc_atoms = [a["text"] for a in atoms if a["case"] in (("declared", "lower") if w.quick else
                                                         ("declared", "lower", "alternating", "upper"))]
    if w.quick:
        sc_atoms = sc_atoms[::2] + [a["text"] for a in atoms if a["form"] == "broken_path"]
    for k, chunk in enumerate(chunks(sc_atoms, 8)):
        vals = [value_forms[(k + j) % len(value_forms)] for j in range(2)]
        if k % 3 == 2:
            run_sidecar(w, make_sidecar([F.with_namespace(t, NS) for t in chunk], [F.with_namespace(v, NS) for v in vals]),
                        version=NS_VERSION)
        else:
            run_sidecar(w, make_sidecar(chunk, vals))
    w.part("forms: sidecar entry point", cases=w.evaluations - before, bound="the faulty tags (quick: every second of the "
           "declared/lower-case ones) in chunks of 8 as category entries, 2 of 6 long-form value-column strings; every third "
           "sidecar namespace-prefixed", exhaustive=False)
    before = w.evaluations
    tb_atoms = [a["text"] for a in atoms if a["case"] in (("declared", "alternating") if w.quick else
                                                         ("declared", "lower", "alternating", "upper"))]
    if w.quick:
        tb_atoms = tb_atoms[1::2]
    sc_long = {"cond": {"HED": {"a": "Item/Object/Man-made-object/Building/Hut!", "b": "(Green)",
                                "c": "Property/Informational-property/Label/a$b"}},
               "val": {"HED": "(Property/Data-property/Data-value/Spatiotemporal-value/Temporal-value/Duration/# s, "
                              "(Item/Zork)), Informational-property/Label/#"}}
    for k, chunk in enumerate(chunks(tb_atoms, 6)):
        rows = {"cond": [["a", "b", "zz", "n/a", "c", "a"][j % 6] for j in range(len(chunk))],
                "val": [["3", "x y", "n/a"][j % 3] for j in range(len(chunk))],
                "HED": [t.replace("\t", " ") for t in chunk]}
        onsets = [str(float(j)) for j in range(6)]
        if k % 3 == 2:
            nsd = json.loads(json.dumps(sc_long))
            nsd["cond"]["HED"] = {kk: F.with_namespace(v, NS) for kk, v in nsd["cond"]["HED"].items()}
            nsd["val"]["HED"] = F.with_namespace(nsd["val"]["HED"], NS)
            rows_ns = dict(rows, HED=[F.with_namespace(t, NS) for t in rows["HED"]])
            run_table(w, rows_ns, nsd, onsets if k % 2 else None, version=NS_VERSION)
        else:
            run_table(w, rows, sc_long if k % 2 else None, onsets if k % 4 < 2 else None)
    w.part("forms: table entry point", cases=w.evaluations - before, bound="the faulty tags (quick: every second of the "
           "declared/alternating-case ones) in chunks of 6 rows of the HED column, with/without a long-form sidecar and an "
           "onset column; every third table namespace-prefixed", exhaustive=False)
    # order of the RETURNED list
    before = w.evaluations
    fam = list(order_sidecars(w.quick))
    for kinds, names, sc in fam:
        run_sidecar(w, sc)
    n_sc = w.evaluations - before
    tabs = list(order_tables(w.quick))
    for k, (kinds, rows, onsets) in enumerate(tabs):
        run_table(w, rows, ORDER_TABLE_SIDECAR, onsets)
        if k % 4 == 0:
            run_table(w, rows, ORDER_TABLE_SIDECAR, None)
    n_tb = w.evaluations - before - n_sc
    step = max(1, len(fam) // (6 if w.quick else 40))
    for k, (kinds, names, sc) in enumerate(fam[::step]):
        files = {}
        for j, sub in enumerate(("sub-01", "sub-02")):
            _, rows, onsets = tabs[(2 * k + j) % len(tabs)]
            lines = ["onset\tduration\tcond\tHED"] + ["%s\tn/a\t%s\t%s" % (o, c, h)
                                                       for o, c, h in zip(onsets, rows["cond"], rows["HED"])]
            files[sub] = "\n".join(lines) + "\n"
        full = dict(sc, **copy.deepcopy(ORDER_TABLE_SIDECAR))
        validate_dataset(w, {"entry": "dataset_layout", "sidecar": full, "files": files}, full, files, True,
                         ("dataset_layout", json.dumps(full), json.dumps(files)))
    w.part("order of the returned list", cases=w.evaluations - before,
           bound="%d sidecars: columns alpha/beta/gamma in every permutation of which has which fault kind (%d per-string / "
                 "value / whole-string / column-level misplaced-definition / definition-collection kinds%s, and the 16 ordered "
                 "pairs of 4 structure/reference kinds), category keys listed out of order, warnings on and off; %d tables: "
                 "every arrangement over 4 rows of row-level faults and faults found by the temporal pass, onsets ordered and "
                 "unordered; %d datasets combining them; returned lists checked: %d (%d with more than one sort key)"
                 % (n_sc, len(ORDER_KINDS) - 1, ": every pair + a clean column" if w.quick else " + clean: every ordered triple",
                    n_tb, w.evaluations - before - n_sc - n_tb, _count["returned_lists"], _count["returned_multi_key"]),
           exhaustive=False)
    # strings modified after parsing
    before = w.evaluations
    mcases = list(mod_cases(w.quick, w.rng))
    for c in mcases:
        run_modified(w, c)
    n_mod = w.evaluations - before
    mtexts = []
    for c in mcases:
        if c["text"] not in mtexts and "Definition/" not in c["text"]:
            mtexts.append(c["text"])
    if w.quick:
        mtexts = mtexts[::3]
    for chunk in chunks(mtexts, 6):
        run_modified_table(w, chunk)
    w.part("strings modified after parsing", cases=w.evaluations - before,
           bound="%d definitions = %d faulty tags (extension warning, bad unit, invalid tag / extension / value / character; %d "
                 "taking a value) x %d surroundings inside the definition; annotations: %d templates (Def tag at several "
                 "positions and depths, the faulty tag also written in the annotation, two definitions, written Def-expand "
                 "groups, a local definition) x %d modification sequences (expand_defs, shrink_defs, remove_definitions, "
                 "HedGroup.replace of a tag by a tag / group parsed from another text, remove)%s; validated with the modified "
                 "string as HED_STRING context, alone and as the first / second member of "
                 "HedString.from_hed_strings (%d cases); issues naming a tag that is not written in the validated text: %d (must carry no "
                 "offsets); plus %d tables whose HED column was rewritten by df_util.expand_defs / shrink_defs"
                 % (len(mod_definitions()[0]), len(MOD_FAULTS) + len(MOD_FAULTS_VALUE), len(MOD_FAULTS_VALUE), len(MOD_PADS),
                    len(MOD_TEMPLATES), len(MOD_OPS), " (quick: every 19th combination)" if w.quick else "", n_mod,
                    _count["foreign"], w.evaluations - before - n_mod), exhaustive=False)
    # one big cross-file sort
    for k in range(5):
        perm = list(_pool_for_sort)
        w.rng.shuffle(perm)
        perm = perm[:4000]
        for j, x in enumerate(perm):   # pretend they come from several files
            if j % 3 == 0 and "ec_filename" in x:
                perm[j] = dict(x, ec_filename=["a.tsv", "b.json", "events.tsv"][j % 9 // 3])
        check_sort(w, perm, {"entry": "sort", "note": "shuffled union of all sidecar/table/dataset issues", "round": k})
    w.part("monitor totals", cases=_count["issues"], bound="issues monitored: %(issues)d, with offsets: %(with_offsets)d, "
           "with sub-tag span: %(sub_tag)d, of these judged for quoting exactly source_text[char_index:char_index_end] next "
           "to the tag as written: %(quoted)d (+ %(quoted_no_offsets)d through index_in_tag alone), lists sorted: "
           "%(sorted_lists)d; whole-tag/group issues judged for quoting the located text: %(whole)d (groups: %(whole_group)d)"
           % _count, exhaustive=False)
    if _raised:
        w.part("entry point raised instead of returning issues (not judged by C12)", cases=len(_raised),
               bound=json.dumps(_raised[:3])[:900], exhaustive=False)
    w.assumptions += [
        "the validated text of a sidecar/table/dataset issue is the text of the HedString object in its ec_HedString context "
        "(for the string entry point it is compared with the input text)",
        "tag and group spans come from an own tokenizer: tokens are maximal runs between ',', '(' and ')' trimmed of blanks",
        "a sub-tag issue (carries index_in_tag) quotes its fragment in single quotes; a whole-tag issue must select exactly the tag",
        "stability is judged on issues that agree on every ec_* context except the HedString object",
        "a message 'quotes a fragment' when it contains one of: 'X' in T / 'X' in tag 'T' / In 'T', 'X' / the whole tag 'T' "
        "(T the tag as written, found by the own tokenizer around char_index); messages that do not name T are not judged by "
        "C12.message.quotes_the_located_fragment",
        "the long forms of Label, Building, Red, Weight, Object are hand-written from schema 8.3.0; every suffix form is "
        "confirmed to validate cleanly before use; namespace-prefixed annotations use load_schema_version('ts:8.3.0')",
    ]
    w.not_covered += [
        "human-readable printing (get_printable_issue_string*), schema-compliance issues (C14), custom titles in sorting",
        "spreadsheet (xlsx) input, remodeling/CLI wrappers around the same validators",
        "issues whose source tag was rewritten by placeholder replacement / column-reference insertion inside the validators "
        "(definition expansion, shrinking, replace and remove on the parsed string are covered)",
    ]


def replay(w: Workload, case: dict):
    inp = case["input"]
    e = inp.get("entry")
    ver = inp.get("schema", "8.3.0")
    if e == "string":
        run_string(w, inp["text"], count=False)
    elif e == "located":
        run_located(w, inp["text"], ver, inp.get("form"), count=False)
    elif e == "sidecar":
        run_sidecar(w, inp["sidecar"], count=False, version=ver)
    elif e == "table":
        on = inp.get("onset")
        run_table(w, inp["rows"], inp.get("sidecar"), on if on else None, count=False, version=ver)
    elif e == "dataset":
        run_dataset(w, inp["strings"], count=False)
    elif e == "modified":
        run_modified(w, {k: inp[k] for k in ("entry", "text", "ops", "pick", "join") if k in inp}, count=False)
    elif e == "modified_table":
        run_modified_table(w, inp["texts"], count=False)
    elif e == "dataset_layout":
        validate_dataset(w, {k: v for k, v in inp.items() if k in ("entry", "sidecar", "files")}, inp["sidecar"], inp["files"],
                         False, None)
    else:
        print("sort cases are regenerated by the full run only")
    w.failures = [f for f in w.failures if f["clause"] == case["clause"]]


if __name__ == "__main__":
    main(run, "C12", replay)
