"""Text-level fault seeding for the C14 workload: the same abstract edit is applied either to the XML form
(ElementTree) or to the MediaWiki form (line edit) of a saved schema copy.  Nothing here imports hed: the
two appliers are written from the published file formats, so that the loaders of /repo (and their load-time
bookkeeping of unknown attributes / duplicates) are part of what is exercised.

Abstract edits (JSON-able):
  {"op": "set_attr", "section": S, "name": N, "attr": A, "value": true | "v1,v2"}     replace/add attribute A on entry N
  {"op": "dup", "section": S, "name": N, "newname": N2, "parent": P | null, "inlib": L | null, "attrs": {..} | absent}
        add a second, otherwise empty entry called N2 (a spelling of N's own name); for tags next to N
        (parent null) or as first child of the node P; for units inside unit class P (null: N's own class);
        optional "place" (non-tag sections): "after" | "before" (adjacent to N) | "end" | "start" (far from N: last / first
        entry of N's section, for units of the unit class); absent: XML appends, MediaWiki inserts before N
  {"op": "retitle", "version": V}     change the version in the header (successor copy)
S in tags | units | unitClasses | unitModifiers | valueClasses | attributes | properties;  tags are named by full path.
"""
import re
from xml.etree import ElementTree as ET

XML_SECTION = {
    "unitClasses": ("unitClassDefinitions", "unitClassDefinition"),
    "unitModifiers": ("unitModifierDefinitions", "unitModifierDefinition"),
    "valueClasses": ("valueClassDefinitions", "valueClassDefinition"),
    "attributes": ("schemaAttributeDefinitions", "schemaAttributeDefinition"),
    "properties": ("propertyDefinitions", "propertyDefinition"),
}


def _prop_tag(section):
    return "property" if section in ("attributes", "properties") else "attribute"


# ------------------------------------------------------------------------------------------------ XML

class XmlDoc:
    def __init__(self, text):
        self.root = ET.fromstring(text)
        self.index = {}
        self.parent = {}
        sch = self.root.find("schema")

        def walk(el, prefix):
            for n in el.findall("node"):
                nm = n.find("name").text
                path = prefix + [nm]
                self.index[("tags", "/".join(path))] = n
                self.parent[n] = el
                walk(n, path)
        walk(sch, [])
        for sec, (cont, elname) in XML_SECTION.items():
            c = self.root.find(cont)
            if c is None:
                continue
            for e in c.findall(elname):
                self.index[(sec, e.find("name").text)] = e
                self.parent[e] = c
                if sec == "unitClasses":
                    for u in e.findall("unit"):
                        self.index[("units", u.find("name").text)] = u
                        self.parent[u] = e

    def apply(self, edits):
        """apply edits, return the serialised text, then undo them (the document is reused)"""
        undo = []
        try:
            for ed in edits:
                self._apply_one(ed, undo)
            return ET.tostring(self.root, encoding="unicode")
        finally:
            for fn in reversed(undo):
                fn()

    def _apply_one(self, ed, undo):
        op = ed["op"]
        if op == "retitle":
            old = self.root.get("version")
            self.root.set("version", ed["version"])
            undo.append(lambda: self.root.set("version", old))
            return
        sec, name = ed["section"], ed["name"]
        el = self.index[(sec, name)]
        if op == "set_attr":
            saved = list(el)
            undo.append(lambda: el.__setitem__(slice(None), saved))
            tagname = _prop_tag(sec)
            for a in list(el.findall(tagname)):
                if a.find("name").text == ed["attr"]:
                    el.remove(a)
            _xml_attr(el, tagname, ed["attr"], ed["value"])
        elif op == "dup":
            if sec == "tags":
                par = self.index[("tags", ed["parent"])] if ed.get("parent") else self.parent[el]
                new = ET.Element("node")
            elif sec == "units":
                par = self.index[("unitClasses", ed["parent"])] if ed.get("parent") else self.parent[el]
                new = ET.Element("unit")
            else:
                par = self.parent[el]
                new = ET.Element(XML_SECTION[sec][1])
            ET.SubElement(new, "name").text = ed.get("newname") or name.split("/")[-1]
            for a, v in (ed.get("attrs") or {}).items():
                _xml_attr(new, _prop_tag(sec), a, v)
            if ed.get("inlib"):
                _xml_attr(new, _prop_tag(sec), "inLibrary", ed["inlib"])
            place = ed.get("place")
            if place and sec != "tags":
                kids = list(par)
                same = [k for k, c in enumerate(kids) if c.tag == new.tag]
                if el in kids:
                    at = {"after": kids.index(el) + 1, "before": kids.index(el), "end": len(kids),
                          "start": same[0] if same else len(kids)}[place]
                else:       # a unit copied into another unit class
                    at = same[0] if same and place in ("before", "start") else len(kids)
                par.insert(at, new)
            else:
                par.append(new)
            undo.append(lambda: par.remove(new))
        else:
            raise ValueError(op)


def _xml_attr(el, tagname, attr, value):
    a = ET.SubElement(el, tagname)
    ET.SubElement(a, "name").text = attr
    if value is not True:
        for v in value.split(","):
            ET.SubElement(a, "value").text = v


# ------------------------------------------------------------------------------------------------ MediaWiki

WIKI_HEADERS = {"'''Unit classes'''": "unitClasses", "'''Unit modifiers'''": "unitModifiers",
                "'''Value classes'''": "valueClasses", "'''Schema attributes'''": "attributes",
                "'''Properties'''": "properties", "'''Epilogue'''": None}


class WikiDoc:
    def __init__(self, text):
        self.lines = text.split("\n")
        self.index = {}      # (section, name) -> line number
        self.level = {}      # line number -> star level (0 = root tag)
        self.unit_class = {}
        self.section_of = {}  # line number -> section (entry lines after the tag tree)
        sec = None
        stack = []
        cur_class = None
        for i, line in enumerate(self.lines):
            if line.startswith("!# start schema"):
                sec = "tags"
                continue
            if line.startswith("!# end schema"):
                sec = "after"
                continue
            if sec is None or not line.strip():
                continue
            if sec != "tags" and line.strip() in WIKI_HEADERS:
                sec = WIKI_HEADERS[line.strip()] or "done"
                continue
            if sec in ("after", "done"):
                continue
            head = line.split(" <nowiki>")[0]
            if sec == "tags":
                if line.startswith("'''"):
                    name, level = line[3:line.index("'''", 3)], 0
                else:
                    level = len(head) - len(head.lstrip("*"))
                    name = head.lstrip("*").strip() or "#"
                stack = stack[:level] + [name]
                self.index[("tags", "/".join(stack))] = i
                self.level[i] = level
            else:
                level = len(head) - len(head.lstrip("*"))
                name = head.lstrip("*").strip()
                self.level[i] = level
                self.section_of[i] = sec
                if sec == "unitClasses" and level == 2:
                    self.index[("units", name)] = i
                    self.unit_class[name] = cur_class
                else:
                    if sec == "unitClasses":
                        cur_class = name
                    self.index[(sec, name)] = i

    def _after(self, i):
        """line number just behind entry i and the entries below it (the units of a unit class)"""
        j = i + 1
        while j in self.level and self.section_of.get(j) == self.section_of.get(i) and self.level[j] > self.level[i]:
            j += 1
        return j

    def _place(self, i, place):
        """where a copy of the entry at line i goes: before it (default), right behind it, or as first / last entry of its
        section (a unit: of its unit class)"""
        if not place or place == "before":
            return i
        if place == "after":
            return self._after(i)
        sec, lvl = self.section_of[i], self.level[i]
        j = i
        if place == "start":
            while (j - 1) in self.level and self.section_of.get(j - 1) == sec and self.level[j - 1] >= lvl:
                j -= 1
            return j
        while j in self.level and self.section_of.get(j) == sec and self.level[j] >= lvl:
            j += 1
        return j

    def apply(self, edits):
        lines = list(self.lines)
        inserts = []        # (line number, text) inserted BEFORE that line, applied from the bottom up
        for ed in edits:
            op = ed["op"]
            if op == "retitle":
                lines[0] = re.sub(r'version="[^"]*"', 'version="%s"' % ed["version"], lines[0], count=1)
                continue
            sec, name = ed["section"], ed["name"]
            i = self.index[(sec, name)]
            if op == "set_attr":
                lines[i] = wiki_set_attr(lines[i], ed["attr"], ed["value"])
            elif op == "dup":
                newname = ed.get("newname") or name.split("/")[-1]
                items = []
                for a, v in (ed.get("attrs") or {}).items():
                    items += [a] if v is True else ["%s=%s" % (a, x) for x in v.split(",")]
                if ed.get("inlib"):
                    items.append("inLibrary=%s" % ed["inlib"])
                extra = " <nowiki>{%s}</nowiki>" % ", ".join(items) if items else ""
                if sec == "tags":
                    if ed.get("parent"):
                        j = self.index[("tags", ed["parent"])]
                        inserts.append((j + 1, "*" * (self.level[j] + 1) + " " + newname + extra))
                    elif self.level[i] == 0:
                        inserts.append((i, "'''%s'''%s\n" % (newname, extra)))
                    else:
                        inserts.append((i, "*" * self.level[i] + " " + newname + extra))
                elif sec == "units":
                    place = ed.get("place")
                    if ed.get("parent") and not (place and self.unit_class.get(name) == ed["parent"]):
                        j = self.index[("unitClasses", ed["parent"])]
                        at = self._after(j) if place in ("after", "end") else j + 1
                        inserts.append((at, "** " + newname + extra))
                    else:
                        inserts.append((self._place(i, place), "** " + newname + extra))
                else:
                    inserts.append((self._place(i, ed.get("place")), "* " + newname + extra))
            else:
                raise ValueError(op)
        for at, text in sorted(inserts, key=lambda t: -t[0]):
            lines[at:at] = text.split("\n")
        return "\n".join(lines)


def wiki_set_attr(line, attr, value):
    """rewrite one entry line '<stars> name <nowiki>[# ]{a, b=c} [desc]</nowiki>' with attribute attr replaced"""
    m = re.match(r"^(.*?)(?: <nowiki>(.*)</nowiki>)?\s*$", line)
    head, extra = m.group(1), m.group(2) or ""
    hash_prefix = ""
    if extra.startswith("#"):
        hash_prefix, extra = "# ", extra[1:].lstrip()
    attrs, rest = "", extra.strip()
    if rest.startswith("{"):
        j = rest.index("}")
        attrs, rest = rest[1:j], rest[j + 1:].strip()
    items = [x.strip() for x in attrs.split(",")] if attrs.strip() else []
    items = [x for x in items if x.split("=")[0] != attr]
    if value is True:
        items.append(attr)
    else:
        items.extend("%s=%s" % (attr, v) for v in value.split(","))
    new_extra = hash_prefix + "{" + ", ".join(items) + "}" + (" " + rest if rest else "")
    return "%s <nowiki>%s</nowiki>" % (head, new_extra)
