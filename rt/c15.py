"""C15 -- search queries obey their documented logic on every annotation (tier T3, bounded runtime workload).

Enumerated space
  annotations : every ordered tree shape with <= 5 nodes (tags + groups) and tag depth <= 4, leaves labelled over
                {Red, Blue, Color, Event, Sensory-event, Label/Abc} (+ a few spelling variants / one unknown tag);
                all labelings for <= 3 nodes, a seeded sample (biased to duplicates) for the larger shapes.
  queries     : grammar {term, "term", term*, ?, ??, ???, &&, ||, ~, ( ), [ ], { }, {:}, {:x}}; all atoms, all atom
                pairs, sampled sub-queries to depth 2 (thorough 3) combined by the law under test (=> depth 3 / 4).
  texts       : every token sequence up to length 4 (thorough 5, and 7 over a reduced alphabet), random character
                garbage over the token alphabet, bracket mutations of well-formed queries.

Oracles come from the property text: the term oracles are computed from the generated tree (never from the parsed
HedString) and a hand-written table of schema paths; the algebraic laws are relations between real results; the
three group forms [A && B], {A && B}, {A && B:} (term-level A, B) use the wording of the QueryHandler docstring.

Known defects on the unchanged tree (own narrow labels, everything next to them is checked by passing clauses):
  C15.group.exo.required_part_fills_whole_string         '{{red}: red}' misses '(Red, (Red))' (found with an extra top-level tag)
  C15.parse.unbalanced_rejected.closer_as_operand        ')'   compiles (closing symbol consumed as a search term)
  C15.parse.unbalanced_rejected.double_square_as_term    '[['  compiles (legacy token lexed as a term)
  C15.parse.wellformed_compiles.double_square_token      '[[Red]]' is rejected although '[ [Red] ]' compiles
"""
import itertools
import multiprocessing
import os
import random
from functools import lru_cache

from rt.common import Workload, main, schema
from rt import c15_exact as X

# ------------------------------------------------------------------------------------------------ tag table
_VIS = "Property/Sensory-property/Sensory-attribute/Visual-attribute/Color"
# label as written in the annotation -> (short form, schema path without value)   [hand written = the oracle]
LABELS = {
    "Red": ("Red", _VIS + "/CSS-color/Red-color/Red"),
    "Blue": ("Blue", _VIS + "/CSS-color/Blue-color/Blue"),
    "Color": ("Color", _VIS),
    "Event": ("Event", "Event"),
    "Sensory-event": ("Sensory-event", "Event/Sensory-event"),
    "Label/Abc": ("Label/Abc", "Property/Informational-property/Label"),
    # spelling variants of the same tags, one top-level tag without children, one tag unknown to the schema
    "Event/Sensory-event": ("Sensory-event", "Event/Sensory-event"),
    "RED": ("Red", _VIS + "/CSS-color/Red-color/Red"),
    "Item": ("Item", "Item"),
    "Foo": ("Foo", ""),
}
BASE = ["Red", "Blue", "Color", "Event", "Sensory-event", "Label/Abc"]
EXTRA = ["Event/Sensory-event", "RED", "Item", "Foo"]


def _cf(s):
    return s.casefold()


def label_terms(label):
    path = LABELS[label][1]
    return {_cf(t) for t in path.split("/")} if path else set()


def label_short(label):
    return _cf(LABELS[label][0])


# ------------------------------------------------------------------------------------------------ annotations
@lru_cache(None)
def forests(n, d):
    """ordered forests with exactly n nodes; leaves at depth <= d.  leaf = 'L', group = tuple of children (non-empty)"""
    if n == 0:
        return [()]
    if d == 0:
        return []
    out = []
    for first in range(1, n + 1):
        firsts = ["L"] if first == 1 else [sub for sub in forests(first - 1, d - 1) if sub]
        for f in firsts:
            for rest in forests(n - first, d):
                out.append((f,) + rest)
    return out


def n_leaves(f):
    return sum(1 if c == "L" else n_leaves(c) for c in f)


def fill(shape, labels):
    it = iter(labels)

    def go(f):
        return tuple(next(it) if c == "L" else go(c) for c in f)
    return go(shape)


def render(tree):
    return ", ".join(c if isinstance(c, str) else "(" + render(c) + ")" for c in tree)


def leaves(tree):
    out = []
    for c in tree:
        if isinstance(c, str):
            out.append(c)
        else:
            out.extend(leaves(c))
    return out


def groups_of(tree):
    """every parenthesized group of the annotation as (direct tag indices, all descendant tag indices, n children);
    tag indices number the leaves left to right"""
    out = []
    counter = [0]

    def go(children, is_group):
        direct, below = [], []
        for c in children:
            if isinstance(c, str):
                direct.append(counter[0])
                below.append(counter[0])
                counter[0] += 1
            else:
                below.extend(go(c, True))
        if is_group:
            out.append((direct, below, len(children)))
        return below
    go(tree, False)
    return out


def parse_tree_text(text):
    """inverse of render (used by replay only)"""
    pos = [0]

    def go():
        out, cur = [], ""
        while pos[0] < len(text):
            ch = text[pos[0]]
            pos[0] += 1
            if ch == "(":
                out.append(go())
            elif ch == ")":
                if cur.strip():
                    out.append(cur.strip())
                return tuple(out)
            elif ch == ",":
                if cur.strip():
                    out.append(cur.strip())
                cur = ""
            else:
                cur += ch
        if cur.strip():
            out.append(cur.strip())
        return tuple(out)
    return go()


def reverse_tree(tree):
    return tuple(c if isinstance(c, str) else reverse_tree(c) for c in reversed(tree))


def shuffle_tree(tree, rng):
    cs = [c if isinstance(c, str) else shuffle_tree(c, rng) for c in tree]
    rng.shuffle(cs)
    return tuple(cs)


def gen_annotations(rng, quick):
    trees = []
    seen = set()

    def add(t):
        if t not in seen:
            seen.add(t)
            trees.append(t)
    per_shape = 5 if quick else 30
    for n in range(1, 6):
        for shape in forests(n, 4):
            k = n_leaves(shape)
            if n <= 3:
                for lab in itertools.product(BASE, repeat=k):
                    add(fill(shape, lab))
            else:
                for i in range(per_shape):
                    # bias to few distinct labels (duplicates drive the result-merging bookkeeping)
                    m = 1 + (i % 3)
                    pool = rng.sample(BASE, m)
                    if i % 5 == 4:
                        pool = pool + [rng.choice(EXTRA)]
                    add(fill(shape, [rng.choice(pool) for _ in range(k)]))
    for lab in EXTRA:  # the variants alone and next to their plain spelling
        add((lab,))
        add((lab, "Red"))
        add(((lab, "Event"),))
    return trees


# ------------------------------------------------------------------------------------------------ queries (AST)
# ("t", text) term in one of the three modes | ("w", "?"/"??"/"???") | ("and",A,B) | ("or",A,B) | ("not",A) | ("par",A)
# | ("desc",A) = [A] | ("ex",A) = {A} | ("ex0",A) = {A:} | ("exo",A,B) = {A:B}
LAW_ATOMS = [("t", "Red"), ("t", "Blue"), ("t", "Color"), ("t", "Event"), ("t", "Sensory-event"), ("t", "Label"),
             ("t", '"Red"'), ("t", '"Event"'), ("t", '"Label/Abc"'), ("t", "Re*"), ("t", "Sens*"), ("t", "Label/A*"),
             ("w", "?"), ("w", "??"), ("w", "???")]


def q_render(a):
    k = a[0]
    if k in "tw":
        return a[1]
    if k in ("and", "or"):
        op = " && " if k == "and" else " || "
        left = q_render(a[1])
        if a[1][0] in ("and", "or") and a[1][0] != k:
            left = "(" + left + ")"          # same operator on the left is written without parentheses (left assoc.)
        right = q_render(a[2])
        if a[2][0] in ("and", "or"):
            right = "(" + right + ")"
        return left + op + right
    if k == "not":
        inner = q_render(a[1])
        if a[1][0] in ("and", "or", "not"):
            inner = "(" + inner + ")"
        return "~" + inner
    if k == "par":
        return "(" + q_render(a[1]) + ")"
    if k == "desc":
        # directly nested descendant groups are written '[ [' / '] ]': the adjacent spelling '[[' is lexed as ONE legacy
        # token (known defect 2) - it is checked separately under its own label so that the laws stay evaluated
        inner = q_render(a[1])
        return "[" + (" " if inner.startswith("[") else "") + inner + (" " if inner.endswith("]") else "") + "]"
    if k == "ex":
        return "{" + q_render(a[1]) + "}"
    if k == "ex0":
        return "{" + q_render(a[1]) + ":}"
    if k == "exo":
        return "{" + q_render(a[1]) + ": " + q_render(a[2]) + "}"
    raise AssertionError(k)


def q_has(a, kinds):
    return a[0] in kinds or any(q_has(c, kinds) for c in a[1:] if isinstance(c, tuple))


def q_clean(a):
    """free of the two documented restrictions (negated wildcard; negation inside an exact group)"""
    if a[0] == "not" and q_has(a[1], ("w",)):
        return False
    if a[0] in ("ex", "ex0", "exo") and q_has(a, ("not",)):
        return False
    return all(q_clean(c) for c in a[1:] if isinstance(c, tuple))


def q_depth(a):
    return 1 + max([q_depth(c) for c in a[1:] if isinstance(c, tuple)] or [0])


def gen_query(rng, depth):
    if depth <= 1 or rng.random() < 0.08:
        return rng.choice(LAW_ATOMS)
    k = rng.choice(["and", "and", "or", "or", "not", "par", "desc", "ex", "ex0", "exo"])
    a = gen_query(rng, depth - 1)
    if k in ("and", "or", "exo"):
        b = gen_query(rng, rng.randint(1, depth - 1))
        if rng.random() < 0.5:
            a, b = b, a
        return (k, a, b)
    return (k, a)


def gen_clean_query(rng, depth):
    while True:
        q = gen_query(rng, depth)
        if q_clean(q):
            return q


class Plan:
    """the full set of query texts plus index tables for the laws"""

    def __init__(self, rng, quick):
        self.texts = []
        self.index = {}
        self.terms = []      # (qi, mode, term)
        self.pairs = []      # (iA, iB, iAnd, iAndRev, iOr)
        self.triples = []    # (iA, iB, iC, iLeft, iRight)
        self.distinct = []   # (iAnd, (modeA, termA), (modeB, termB))
        self.ctx = []        # (iX, iY, what)  X/Y = same context around A&&B / B&&A
        self.union = []      # (iQ, [modes of the Or-ed terms], mode of B)  for (A1 || A2) && B  and  B && (A1 || A2)
        self.group1 = []     # (iQ, form, modeA)            [A]  {A}  {A:}
        self.group2 = []     # (iQ, form, modeA, modeB)     [A && B]  {A && B}  {A && B:}
        self.wellformed = []  # indices of queries that must compile (clean grammar instances)
        self._term_atoms()
        atoms = LAW_ATOMS
        pool2 = []
        for x in atoms:
            for k in ("not", "par", "desc", "ex", "ex0"):
                pool2.append((k, x))
            for y in atoms:
                pool2 += [("and", x, y), ("or", x, y), ("exo", x, y)]
        pool2 = [q for q in pool2 if q_clean(q)]
        # -- pairs
        for a in atoms:
            for b in atoms:
                self._pair(a, b)
        n2 = 220 if quick else 800
        for _ in range(n2):
            a = rng.choice(pool2) if rng.random() < 0.75 else rng.choice(atoms)
            b = rng.choice(pool2) if rng.random() < 0.75 else rng.choice(atoms)
            self._pair(a, b)
        if not quick:
            for _ in range(700):
                self._pair(gen_clean_query(rng, 3), gen_clean_query(rng, rng.randint(1, 3)))
        # -- triples
        tri_atoms = atoms if not quick else [atoms[i] for i in (0, 1, 2, 3, 6, 9, 12, 14)]
        for a in tri_atoms:
            for b in tri_atoms:
                for c in tri_atoms:
                    if rng.random() < (0.45 if quick else 0.6):
                        continue
                    self._triple(a, b, c)
        for _ in range(220 if quick else 700):
            self._triple(*[rng.choice(pool2) if rng.random() < 0.6 else rng.choice(atoms) for _ in range(3)])
        if not quick:
            for _ in range(500):
                self._triple(*[gen_clean_query(rng, rng.randint(1, 3)) for _ in range(3)])
        # -- term-level queries whose meaning the property / the QueryHandler docstring spell out
        term_atoms = [a for a in atoms if a[0] == "t"]
        for a in term_atoms:
            for form in ("desc", "ex", "ex0"):
                self.group1.append((self.add((form, a)), form, atom_mode(a)))
            for b in term_atoms:
                for form in ("desc", "ex", "ex0"):
                    self.group2.append((self.add((form, ("and", a, b))), form, atom_mode(a), atom_mode(b)))
        for _ in range(150 if quick else 600):
            a1, a2, b = (rng.choice(term_atoms) for _ in range(3))
            self.union.append((self.add(("and", ("or", a1, a2), b)), [atom_mode(a1), atom_mode(a2)], atom_mode(b)))
            self.union.append((self.add(("and", b, ("or", a1, a2))), [atom_mode(a1), atom_mode(a2)], atom_mode(b)))
        for a in atoms[:4]:
            self.add(("desc", ("desc", a)))
            self.add(("desc", ("and", a, ("desc", atoms[0]))))
        # -- symmetric inside a context (atoms only)
        for a, b in itertools.combinations(atoms, 2):
            for k in ("desc", "ex", "ex0", "par"):
                self.ctx.append((self.add((k, ("and", a, b))), self.add((k, ("and", b, a))), k))

    def add(self, ast):
        t = q_render(ast)
        i = self.index.get(t)
        if i is None:
            i = self.index[t] = len(self.texts)
            self.texts.append(t)
            if q_clean(ast):
                self.wellformed.append(i)
        return i

    def _term_atoms(self):
        path_terms = sorted({t for lab in LABELS for t in label_terms(lab)})
        bare = path_terms + ["agent", "action", "abc", "foo", "red-colo", "ed", "sensory", "Red", "RED", "Sensory-Event",
                             "CSS-Color", "EVENT"]
        for t in bare:
            self.terms.append((self.add(("t", t)), "bare", t))
        shorts = sorted({LABELS[lab][0] for lab in LABELS})
        quoted = shorts + [s.upper() for s in shorts] + [s.lower() for s in shorts] + \
            ["Label", "Abc", "Property", "Red-color", "Event/Sensory-event", "Re", "Sensory", "Label/Ab", "Label/Abcd"]
        for t in quoted:
            self.terms.append((self.add(("t", '"' + t + '"')), "quoted", t))
        star = set()
        for s in shorts:
            for n in range(1, len(s) + 1):
                star.add(s[:n])
            star.add(s + "x")
            star.add(s[1:])
        star |= {"Event/S", "Event/Sensory-event", "Property", "Red-color", "CSS", "RE", "sENS", "LABEL/a", "Abc", "x"}
        for t in sorted(star):
            self.terms.append((self.add(("t", t + "*")), "star", t))

    def _pair(self, a, b):
        ia, ib = self.add(a), self.add(b)
        iand, irev, ior = self.add(("and", a, b)), self.add(("and", b, a)), self.add(("or", a, b))
        self.pairs.append((ia, ib, iand, irev, ior))
        ma, mb = atom_mode(a), atom_mode(b)
        if ma and mb:
            self.distinct.append((iand, ma, mb))

    def _triple(self, a, b, c):
        self.triples.append((self.add(a), self.add(b), self.add(c),
                             self.add(("and", ("and", a, b), c)), self.add(("and", a, ("and", b, c)))))


def atom_mode(a):
    if a[0] != "t":
        return None
    t = a[1]
    if t.startswith('"'):
        return ("quoted", t[1:-1])
    if t.endswith("*"):
        return ("star", t[:-1])
    return ("bare", t)


def term_matches(mode, term, label):
    """THE ORACLE (property text): does a tag written `label` match the term in the given mode"""
    if mode == "bare":
        return _cf(term) in label_terms(label)
    if mode == "quoted":
        return _cf(term) == label_short(label)
    if mode == "star":
        return label_short(label).startswith(_cf(term))
    raise AssertionError(mode)


def group_form_expected(grps, form, sa, sb):
    """ORACLE from the QueryHandler docstring:
       [A && B]  a group that contains both (at any level)      -> form 'desc'
       {A && B}  a group with both at the same level            -> form 'ex'
       {A && B:} ... at the same level, and nothing else        -> form 'ex0'
    sa/sb: indices of the tags matching A / B (sb None for the one-term forms); '&&' needs distinct tags"""
    for direct, below, nchildren in grps:
        pool = below if form == "desc" else direct
        ca = [i for i in pool if i in sa]
        if sb is None:
            if ca and (form != "ex0" or nchildren == 1):
                return True
            continue
        cb = [i for i in pool if i in sb]
        if any(i != j for i in ca for j in cb) and (form != "ex0" or nchildren == 2):
            return True
    return False


# ------------------------------------------------------------------------------------------------ real code access
def compile_query(text):
    """-> (handler or None, outcome) with outcome 'ok' | 'ValueError' | '<other exception type>: msg'"""
    from hed.models.query_handler import QueryHandler
    try:
        return QueryHandler(text), "ok"
    except ValueError:
        return None, "ValueError"
    except BaseException as e:  # noqa  (an observation, never a crash of the workload)
        return None, type(e).__name__ + ": " + str(e)[:120]


def parse_annotation(text):
    from hed.models.hed_string import HedString
    return HedString(text, schema())


_PRIM = (str, int, float, bool, type(None), tuple)


def snapshot(hs):
    """identity/structure/content picture of everything reachable from the annotation"""
    from hed.models.hed_group import HedGroup
    out = [("str", str(hs))]
    stack = [hs]
    while stack:
        o = stack.pop()
        rec = [id(o), type(o).__name__]
        for k in sorted(o.__dict__):
            v = o.__dict__[k]
            if isinstance(v, _PRIM):
                rec.append((k, v))
            elif isinstance(v, list):
                rec.append((k, "list", id(v), tuple(id(x) for x in v)))
            else:
                rec.append((k, "obj", id(v)))
        out.append(tuple(rec))
        if isinstance(o, HedGroup):
            stack.extend(reversed(o.children))
    return out


def canon_result(res):
    return tuple((id(r.group), tuple(id(t) for t in r.tags)) for r in res)


def search_bool(qtext, atext):
    """slow path used for failure confirmation and replay: fresh compile, fresh parse"""
    h, outcome = compile_query(qtext)
    if h is None:
        return "compile:" + outcome
    try:
        return bool(h.search(parse_annotation(atext)))
    except BaseException as e:  # noqa
        return "raises " + type(e).__name__ + ": " + str(e)[:120]


# ------------------------------------------------------------------------------------------------ search part (workers)
_G = {}


def _init_plan(seed, quick):
    rng = random.Random(seed * 7919 + 15)
    plan = Plan(rng, quick)
    trees = gen_annotations(rng, quick)
    handlers = []
    outcomes = []
    for t in plan.texts:
        h, o = compile_query(t)
        handlers.append(h)
        outcomes.append(o)
    _G.update(plan=plan, trees=trees, handlers=handlers, outcomes=outcomes, seed=seed, quick=quick)


def _search_all(hs, handlers, fails, atext, texts):
    res = []
    for qi, h in enumerate(handlers):
        if h is None:
            res.append(None)
            continue
        try:
            res.append(h.search(hs))
        except BaseException as e:  # noqa
            res.append(None)
            fails.append(("C15.search.completes", {"annotation": atext, "query": texts[qi]},
                          type(e).__name__ + ": " + str(e)[:120], "a result"))
    return res


def _work(chunk):
    """evaluate annotations trees[lo:hi]; returns counters and failure tuples (clause, input, observed, expected)"""
    lo, hi = chunk
    plan, trees, handlers = _G["plan"], _G["trees"], _G["handlers"]
    texts = plan.texts
    nq = len(texts)
    fails = []
    qmatch = [0] * nq
    ann_info = []
    pairs_eval = 0
    for ti in range(lo, hi):
        tree = trees[ti]
        atext = render(tree)
        labs = leaves(tree)
        hs = parse_annotation(atext)
        snap0 = snapshot(hs)
        res1 = _search_all(hs, handlers, fails, atext, texts)
        c1 = [None if r is None else canon_result(r) for r in res1]
        twice = not _G["quick"] or ti % 2 == 0
        res2 = _search_all(hs, handlers, [], atext, texts) if twice else res1
        snap1 = snapshot(hs)
        pairs_eval += (2 if twice else 1) * nq
        b = [None if r is None else bool(r) for r in res1]
        for qi in range(nq):
            if b[qi]:
                qmatch[qi] += 1
            r2 = res2[qi]
            if (None if r2 is None else canon_result(r2)) != c1[qi]:
                fails.append(("C15.repeat.agrees", {"annotation": atext, "query": texts[qi]},
                              "second search differs from the first", "identical result lists"))
        if snap0 != snap1:
            culprit = _find_culprit(atext, texts)
            fails.append(("C15.frame.annotation_unaltered", {"annotation": atext, "query": culprit},
                          _snap_diff(snap0, snap1), "annotation identical before/after searching"))
        # -- term oracles
        for qi, mode, term in plan.terms:
            exp = any(term_matches(mode, term, lab) for lab in labs)
            if b[qi] is not None and b[qi] != exp:
                fails.append(("C15.term." + mode, {"annotation": atext, "query": texts[qi], "mode": mode, "term": term},
                              b[qi], exp))
        # -- A && B via distinct tags (term-level A, B)
        for iand, (ma, ta), (mb, tb) in plan.distinct:
            sa = {i for i, lab in enumerate(labs) if term_matches(ma, ta, lab)}
            sb = {i for i, lab in enumerate(labs) if term_matches(mb, tb, lab)}
            exp = any(i != j for i in sa for j in sb)
            if b[iand] is not None and b[iand] != exp:
                fails.append(("C15.and.distinct_tags", {"annotation": atext, "query": texts[iand],
                                                        "A": [ma, ta], "B": [mb, tb]}, b[iand], exp))
        for iq, modes, (mb, tb) in plan.union:
            sa = {i for i, lab in enumerate(labs) if any(term_matches(m, t, lab) for m, t in modes)}
            sb = {i for i, lab in enumerate(labs) if term_matches(mb, tb, lab)}
            exp = any(i != j for i in sa for j in sb)
            if b[iq] is not None and b[iq] != exp:
                fails.append(("C15.and.distinct_tags", {"annotation": atext, "query": texts[iq],
                                                        "A": [list(m) for m in modes], "B": [mb, tb]}, b[iq], exp))
        # -- documented group forms (QueryHandler docstring) for term-level operands
        grps = groups_of(tree)
        for iq, form, (ma, ta) in plan.group1:
            sa = {i for i, lab in enumerate(labs) if term_matches(ma, ta, lab)}
            exp = group_form_expected(grps, form, sa, None)
            if b[iq] is not None and b[iq] != exp:
                fails.append(("C15.group." + form, {"annotation": atext, "query": texts[iq], "form": form,
                                                    "A": [ma, ta]}, b[iq], exp))
        for iq, form, (ma, ta), (mb, tb) in plan.group2:
            sa = {i for i, lab in enumerate(labs) if term_matches(ma, ta, lab)}
            sb = {i for i, lab in enumerate(labs) if term_matches(mb, tb, lab)}
            exp = group_form_expected(grps, form, sa, sb)
            if b[iq] is not None and b[iq] != exp:
                fails.append(("C15.group." + form, {"annotation": atext, "query": texts[iq], "form": form,
                                                    "A": [ma, ta], "B": [mb, tb]}, b[iq], exp))
        # -- laws
        for ia, ib, iand, irev, ior in plan.pairs:
            if None in (b[ia], b[ib]):
                continue
            inp = {"annotation": atext, "A": texts[ia], "B": texts[ib]}
            if b[ior] is not None and b[ior] != (b[ia] or b[ib]):
                fails.append(("C15.or.iff_either", dict(inp, query=texts[ior]), b[ior], b[ia] or b[ib]))
            if b[iand] and not (b[ia] and b[ib]):
                fails.append(("C15.and.only_if_both", dict(inp, query=texts[iand]),
                              {"A&&B": b[iand], "A": b[ia], "B": b[ib]}, "A&&B implies A and B"))
            if b[iand] != b[irev]:
                fails.append(("C15.and.symmetric", dict(inp, query=texts[iand], query2=texts[irev]),
                              {"A&&B": b[iand], "B&&A": b[irev]}, "equal"))
        for ix, iy, k in plan.ctx:
            if b[ix] != b[iy]:
                fails.append(("C15.and.symmetric", {"annotation": atext, "query": texts[ix], "query2": texts[iy]},
                              {"first": b[ix], "second": b[iy]}, "equal"))
        for ia, ib, ic, il, ir in plan.triples:
            if b[il] != b[ir]:
                fails.append(("C15.and.associative", {"annotation": atext, "A": texts[ia], "B": texts[ib], "C": texts[ic],
                                                      "query": texts[il], "query2": texts[ir]},
                              {"(A&&B)&&C": b[il], "A&&(B&&C)": b[ir]}, "equal"))
        # -- sibling reordering
        rng = random.Random((_G["seed"] + 1) * 1000003 + ti)
        variants = []
        cands = [reverse_tree(tree), shuffle_tree(tree, rng)]
        if _G["quick"]:
            cands = cands[::-1] if ti % 2 else cands
        for v in cands:
            if v != tree and v not in variants:
                variants.append(v)
        if _G["quick"]:
            variants = variants[:1]
        for v in variants:
            vtext = render(v)
            hv = parse_annotation(vtext)
            resv = _search_all(hv, handlers, fails, vtext, texts)
            pairs_eval += nq
            for qi in range(nq):
                bv = None if resv[qi] is None else bool(resv[qi])
                if bv != b[qi]:
                    fails.append(("C15.order.sibling_invariant", {"annotation": atext, "reordered": vtext,
                                                                  "query": texts[qi]},
                                  {"original": b[qi], "reordered": bv}, "equal"))
        nm = sum(1 for x in b if x)
        ann_info.append((atext, 0 < nm < nq, len(variants)))
        if len(fails) > 400:
            fails = _thin(fails)
    return {"fails": _thin(fails), "qmatch": qmatch, "ann": ann_info, "pairs": pairs_eval}


def _thin(fails, per=6):
    seen = {}
    out = []
    for f in fails:
        n = seen.get(f[0], 0)
        seen[f[0]] = n + 1
        if n < per:
            out.append(f)
    return out


def _find_culprit(atext, texts):
    for t in texts:
        h, _ = compile_query(t)
        if h is None:
            continue
        hs = parse_annotation(atext)
        s0 = snapshot(hs)
        ids0 = [x[0] for x in s0[1:]]
        try:
            h.search(hs)
        except BaseException:  # noqa
            pass
        s1 = snapshot(hs)
        if s0 != s1 or ids0 != [x[0] for x in s1[1:]]:
            return t
    return None


def _snap_diff(s0, s1):
    for a, b in zip(s0, s1):
        if a != b:
            return {"before": repr(a)[:300], "after": repr(b)[:300]}
    return {"before_len": len(s0), "after_len": len(s1)}


# ------------------------------------------------------------------------------------------------ exact-group part
L_EXO = "C15.group.exo"
L_EXO_REL = "C15.group.exo_equals_ex0_when_optional_is_no_member"
# narrow label of a finding on the unchanged tree (predicate on the input only): the required part X of {X: Y} is matched by
# ALL top-level members of the annotation (the whole string looks like a group that X fills), while a real group matches
# only together with the optional part
L_EXO_TOP = "C15.group.exo.required_part_fills_whole_string"
_GX = {}


def _init_exact(seed, quick):
    rng = random.Random(seed * 104729 + 15)
    trees = X.annotations(rng, quick)
    qs = X.queries(quick)
    texts = [X.q_render(q) for q, _ in qs]
    handlers = [compile_query(t) for t in texts]
    ex0_of = {}
    for i, (q, form) in enumerate(qs):
        if form == "ex0":
            ex0_of[q[1]] = i
    _GX.update(trees=trees, qs=qs, texts=texts, handlers=handlers, ex0_of=ex0_of)


def _exact_label(form, q=None, tree=None, exp=None):
    if form != "exo":
        return "C15.group." + form
    if exp and tree is not None and any(m == frozenset(range(len(tree))) for m in X.members(q[1], tree)):
        return L_EXO_TOP
    return L_EXO


def _exact_work(chunk):
    lo, hi = chunk
    trees, qs, texts, handlers, ex0_of = (_GX[k] for k in ("trees", "qs", "texts", "handlers", "ex0_of"))
    fails = []
    n = n_rel = n_true = 0
    per_form = {}
    for ti in range(lo, hi):
        tree = trees[ti]
        atext = X.render(tree)
        hs = parse_annotation(atext)
        got = []
        for qi, (h, outcome) in enumerate(handlers):
            if h is None:
                got.append(None)
                continue
            try:
                got.append(bool(h.search(hs)))
            except BaseException as e:  # noqa
                got.append(None)
                fails.append(("C15.search.completes", {"annotation": atext, "query": texts[qi]},
                              type(e).__name__ + ": " + str(e)[:120], "a result"))
        for qi, (q, form) in enumerate(qs):
            if got[qi] is None:
                continue
            exp = X.expected(q, tree)
            n += 1
            n_true += exp
            key = (form, exp)
            per_form[key] = per_form.get(key, 0) + 1
            if got[qi] != exp:
                fails.append((_exact_label(form, q, tree, exp), {"annotation": atext, "query": texts[qi], "form": form, "exact_ast": q},
                              got[qi], exp))
            if form == "exo" and X.optional_never_a_member(q, tree):
                j = ex0_of[q[1]]
                if got[j] is not None:
                    n_rel += 1
                    if got[qi] != got[j]:
                        fails.append((L_EXO_REL, {"annotation": atext, "query": texts[qi], "query2": texts[j], "exact_ast": q},
                                      {texts[qi]: got[qi], texts[j]: got[j]},
                                      "equal: no group has the optional part among the members next to the required part"))
        if len(fails) > 400:
            fails = _thin(fails)
    return {"fails": _thin(fails), "n": n, "n_rel": n_rel, "n_true": n_true, "per_form": per_form}


# ------------------------------------------------------------------------------------------------ parse part
TOKENS = ["a", '"a"', "a*", "?", "??", "???", "&&", "||", "~", "(", ")", "[", "]", "{", "}", ":", ","]
TOKENS_SMALL = ["a", "&&", "~", "(", ")", "[", "]", "{", "}", ":"]
CHARS = list('ab1"*?&|~()[]{}:, /@#-_.^')
_OPEN = {"(": ")", "[": "]", "{": "}"}
_CLOSE = set(_OPEN.values())


def balanced(text):
    """ORACLE: the grouping symbols ( ) [ ] { } of the text are properly nested"""
    stack = []
    for ch in text:
        if ch in _OPEN:
            stack.append(_OPEN[ch])
        elif ch in _CLOSE:
            if not stack or stack.pop() != ch:
                return False
    return not stack


def closer_in_operand_position(text):
    """syntactic class of the known defect: a closing symbol stands where an operand is expected, i.e. at the start
    of the text or directly after an opening symbol, an operator (&& || , ~) or the colon"""
    prev = None
    for ch in text:
        if ch.isspace():
            continue
        if ch in _CLOSE and (prev is None or prev in "([{~:,&|"):
            return True
        prev = ch
    return False


def check_text(text, fails, want_compile=False):
    """compile-or-ValueError; unbalanced => rejected.  returns outcome"""
    _, outcome = compile_query(text)
    if outcome not in ("ok", "ValueError"):
        fails.append(("C15.parse.only_valueerror", {"text": text}, outcome, "compiles or raises ValueError"))
    if not balanced(text) and outcome == "ok":
        clause = "C15.parse.unbalanced_rejected"
        if "[[" in text or "]]" in text:
            clause += ".double_square_as_term"     # known defect 2: legacy '[[' / ']]' are lexed as one *term* token
        elif closer_in_operand_position(text):
            clause += ".closer_as_operand"         # known defect 1: a closing symbol is consumed as a search term
        fails.append((clause, {"text": text}, "compiles", "ValueError (unbalanced grouping symbols)"))
    if want_compile and outcome != "ok":
        fails.append(("C15.parse.wellformed_compiles", {"text": text}, outcome, "compiles"))
    return outcome


def _parse_work(job):
    kind, arg = job
    fails = []
    n = unb = rej = 0
    if kind == "seq":
        alphabet, length, first = arg
        it = itertools.product(alphabet, repeat=length - 1) if length > 0 else [()]
        for rest in it:
            text = " ".join(((first,) if length > 0 else ()) + tuple(rest))
            o = check_text(text, fails)
            n += 1
            unb += not balanced(text)
            rej += o != "ok"
            if len(fails) > 400:
                fails = _thin(fails)
    elif kind == "garbage":
        seed, count = arg
        rng = random.Random(seed)
        for _ in range(count):
            text = "".join(rng.choice(CHARS) for _ in range(rng.randint(1, 10)))
            o = check_text(text, fails)
            n += 1
            unb += not balanced(text)
            rej += o != "ok"
            if len(fails) > 400:
                fails = _thin(fails)
    return {"fails": _thin(fails), "n": n, "unb": unb, "rej": rej}


def mutate_brackets(text, rng):
    """one bracket deleted, inserted, or replaced by another kind"""
    pos = [i for i, ch in enumerate(text) if ch in "()[]{}"]
    k = rng.randint(0, 2)
    if k == 0 and pos:
        i = rng.choice(pos)
        return text[:i] + text[i + 1:]
    if k == 1 and pos:
        i = rng.choice(pos)
        return text[:i] + rng.choice([c for c in "()[]{}" if c != text[i]]) + text[i + 1:]
    i = rng.randint(0, len(text))
    return text[:i] + rng.choice("()[]{}") + text[i:]


# ------------------------------------------------------------------------------------------------ driver
def _pool():
    n = max(1, min(14, (os.cpu_count() or 2) - 1))
    return multiprocessing.get_context("fork").Pool(n)


def run(w: Workload):
    w.rule = ("search: every ordered annotation tree shape with <=5 nodes/depth<=4 x labelings over 6 schema tags "
              "(all for <=3 nodes, seeded duplicate-biased sample above, plus long-form/upper-case/unknown-tag variants) "
              "x query set = all term atoms in 3 modes (every path term / short form / every prefix) + laws over all "
              "ordered pairs of 15 atoms, atom triples and sampled sub-queries of depth <=2 (thorough <=3); an annotation "
              "is non-trivial if some query matches and some does not, a query if it matches some annotation and not "
              "another.  parse: every token sequence up to length 4 (thorough 5; 7 over a 10-token alphabet), random "
              "character garbage, bracket mutations of well-formed queries.  exact groups: every ordered forest with <= 4 "
              "(thorough 5) nodes inside one outer group x labelings over 3 tags (+ one unmatched tag) x the forms {X} {X:} {X: Y} [X] over "
              "term-level X, Y (conjunctions, disjunctions, wildcards, member groups), judged by an independent evaluator "
              "over nested tuples: a tag nested deeper inside a sub-group is not a member of the group.")
    schema()
    _check_table(w)
    _init_plan(w.seed, w.quick)
    plan, trees = _G["plan"], _G["trees"]
    texts = plan.texts

    # wellformed queries compile
    for i in plan.wellformed:
        if _G["outcomes"][i] != "ok":
            w.fail("C15.parse.wellformed_compiles", {"text": texts[i]}, _G["outcomes"][i], "compiles")
    for i in plan.wellformed:
        if "[ [" in texts[i] or "] ]" in texts[i]:
            adjacent = texts[i].replace("[ [", "[[").replace("] ]", "]]")
            o = compile_query(adjacent)[1]
            if o != "ok":
                w.fail("C15.parse.wellformed_compiles.double_square_token", {"text": adjacent}, o,
                       "compiles (it does when written " + repr(texts[i]) + ")")
    for i, o in enumerate(_G["outcomes"]):
        if o not in ("ok", "ValueError"):
            w.fail("C15.parse.only_valueerror", {"text": texts[i]}, o, "compiles or raises ValueError")

    step = 4 if w.quick else 16
    chunks = [(i, min(i + step, len(trees))) for i in range(0, len(trees), step)]
    jobs = []
    lengths = range(0, 5) if w.quick else range(0, 6)
    for length in lengths:
        if length == 0:
            jobs.append(("seq", (TOKENS, 0, None)))
        else:
            for first in TOKENS:
                jobs.append(("seq", (TOKENS, length, first)))
    for length in ((5,) if w.quick else (6, 7)):
        for first in TOKENS_SMALL:
            jobs.append(("seq", (TOKENS_SMALL, length, first)))
    ngarb = 12 if w.quick else 60
    for k in range(ngarb):
        jobs.append(("garbage", (w.seed * 1000 + k, 3000 if w.quick else 10000)))

    _init_exact(w.seed, w.quick)
    for t, (h, o) in zip(_GX["texts"], _GX["handlers"]):
        if o != "ok":
            w.fail("C15.parse.wellformed_compiles", {"text": t}, o, "compiles")
    xstep = 8 if w.quick else 16
    xchunks = [(i, min(i + xstep, len(_GX["trees"]))) for i in range(0, len(_GX["trees"]), xstep)]

    with _pool() as pool:
        search_results = pool.map(_work, chunks, chunksize=1)
        exact_results = pool.map(_exact_work, xchunks, chunksize=1)
        parse_results = pool.map(_parse_work, jobs, chunksize=1)

    # ---- collect search part
    nq = len(texts)
    qmatch = [0] * nq
    total_pairs = 0
    n_variants = 0
    for r in search_results:
        for f in r["fails"]:
            w.fail(f[0], f[1], f[2], f[3])
        for i, c in enumerate(r["qmatch"]):
            qmatch[i] += c
        total_pairs += r["pairs"]
        for atext, nontrivial, nv in r["ann"]:
            w.case(("ann", atext), nontrivial, sample={"annotation": atext})
            n_variants += nv
    for i, t in enumerate(texts):
        w.case(("query", t), 0 < qmatch[i] < len(trees), sample={"query": t, "matches": qmatch[i], "of": len(trees)})
    w.evaluations += total_pairs - len(trees) - nq
    w.part("search laws", cases=total_pairs,
           bound=f"{len(trees)} annotations (<=5 nodes, depth<=4; all 63 ordered shapes) + {n_variants} sibling-reordered "
                 f"variants x {nq} queries (grammar depth <= {3 if w.quick else 4}); {len(plan.terms)} term queries, "
                 f"{len(plan.pairs)} (A,B) pairs, {len(plan.triples)} (A,B,C) triples, {len(plan.distinct)} term pairs "
                 f"with the distinct-tag oracle (+{len(plan.union)} with an Or-ed operand), {len(plan.group1) + len(plan.group2)} "
                 f"documented group forms; each search run twice{' on every other annotation' if w.quick else ''}",
           exhaustive=False, annotations=len(trees), queries=nq)

    # ---- collect exact-group part
    nx = nrel = ntrue = 0
    per_form = {}
    for r in exact_results:
        for f in r["fails"]:
            w.fail(f[0], f[1], f[2], f[3])
        nx += r["n"]
        nrel += r["n_rel"]
        ntrue += r["n_true"]
        for k, v in r["per_form"].items():
            per_form[k] = per_form.get(k, 0) + v
    w.evaluations += nx
    w.distinct.add(("exact-groups", nx))
    w.part("exact-group forms, required / optional terms at different depths", cases=nx,
           bound=f"{len(_GX['trees'])} annotations = every ordered forest with <= {4 if w.quick else 5} nodes (nesting <= 3) inside one outer group "
                 f"(and without it{' up to 3 nodes' if w.quick else ''}), all labelings over Red/Blue/Event, labelings with the "
                 f"unmatched tag Item {'sampled' if w.quick else 'all up to 3 leaves, sampled above'}; x {len(_GX['texts'])} queries "
                 "{X} {X:} {X: Y} [X] with X in {t, t && u, t && t, 't, u', t || u, color, {t}, 't, {u}', t && ???, '??, t'} and Y in {t, t && u, "
                 "t || u, ?, ??, ???, color, {t}} over the terms red/blue/event; expected by an independent evaluator over nested "
                 f"tuples (rt/c15_exact.py); expected-true cases: {ntrue}; per form (form, expected): "
                 f"{ {k[0] + ('+' if k[1] else '-'): v for k, v in sorted(per_form.items())} }; relation "
                 f"'{{X: Y}} == {{X:}} when Y is nowhere a member next to X' evaluated on {nrel} cases",
           exhaustive=False)

    # ---- collect parse part
    n = unb = rej = 0
    for r in parse_results:
        for f in r["fails"]:
            w.fail(f[0], f[1], f[2], f[3])
        n += r["n"]
        unb += r["unb"]
        rej += r["rej"]
    # bracket mutations of well-formed queries (parent process; cheap)
    rng = random.Random(w.seed * 31 + 7)
    fails = []
    nm = 0
    good = [texts[i] for i in plan.wellformed if any(c in texts[i] for c in "()[]{}")]
    for _ in range(4000 if w.quick else 60000):
        t = mutate_brackets(rng.choice(good), rng)
        o = check_text(t, fails)
        nm += 1
        unb += not balanced(t)
        rej += o != "ok"
    for f in _thin(fails):
        w.fail(f[0], f[1], f[2], f[3])
    w.evaluations += n + nm
    w.distinct.add(("parse-texts", n + nm))
    w.part("query text totality", cases=n + nm,
           bound=f"all token sequences over {len(TOKENS)} tokens up to length {max(lengths)}, over {len(TOKENS_SMALL)} "
                 f"tokens up to length {7 if not w.quick else 5}; {ngarb} x random character strings (<=10 chars); "
                 f"{nm} single-bracket mutations of well-formed queries; {unb} unbalanced, {rej} rejected",
           exhaustive=False, sequences_exhaustive=True)

    _batch_part(w, plan, trees)

    w.assumptions.append("oracle of the clauses C15.group.* = the QueryHandler docstring ('[..] a group that contains both at any "
                         "level', '{..} at the same level', '{..:} and nothing else'), '&&' via distinct tags; the top-level "
                         "string is not a group")
    w.assumptions.append("oracle of C15.group.exo (and of ex/ex0/desc in the exact-group part) = the docstring reading written out "
                         "in rt/c15_exact.py: members are direct children; '{X: Y}' = X's match alone, or together with a disjoint "
                         "match of Y, is ALL members of the group; a '{..}' operand is a member sub-group; '?', '??', '???' one "
                         "member (any / tag / group)")
    w.assumptions.append("hand-written schema paths of the 8 tags used (checked against schema 8.3.0 entries at start)")
    w.assumptions.append("HedString parsing of the generated text yields the generated tree (leaf order checked)")
    w.not_covered.append("annotations with more than 5 nodes or nesting deeper than 4; tags outside the 10 spellings used")
    w.not_covered.append("queries of grammar depth > 3 (quick) / 4 (thorough); depth-3/4 sub-queries are sampled, not exhaustive")
    w.not_covered.append("terms containing '/', the '@' prefix, legacy '[[ ]]' tokens beyond compile-or-ValueError")
    w.not_covered.append("characters outside the token alphabet in query text; pandas behaviour in search_hed_objs beyond 0/1 cells")


def _check_table(w):
    s = schema()
    for lab, (short, path) in LABELS.items():
        if not path:
            continue
        base = short.split("/")[0]
        e = s.get_tag_entry(base)
        if e is None or e.long_tag_name != path:
            raise RuntimeError(f"tag table assumption broken for {lab}: {e and e.long_tag_name!r} != {path!r}")
    hs = parse_annotation("(Red, (Blue, Event)), Label/Abc")
    if [str(t) for t in hs.get_all_tags()] != ["Red", "Blue", "Event", "Label/Abc"]:
        raise RuntimeError("annotation parse assumption broken")


def _batch_part(w, plan, trees):
    """query_service: get_query_handlers + search_hed_objs agree with single searches"""
    from hed.models.query_service import get_query_handlers, search_hed_objs
    rng = random.Random(w.seed + 99)
    nq, na = (60, 40) if w.quick else (400, 150)
    queries = rng.sample(plan.texts, nq) + [")", "( Red", "Red && ]", "{ Red : ) }", "[ Red", "Red }", "~?", "Red Blue"]
    rng.shuffle(queries)
    atexts = [render(t) for t in rng.sample(trees, na)]
    inp = {"queries": queries, "annotations": atexts}
    try:
        handlers, names, issues = get_query_handlers(queries)
    except BaseException as e:  # noqa
        w.fail("C15.batch.agrees", inp, "get_query_handlers raises " + type(e).__name__, "handlers")
        return
    single = [compile_query(q)[1] for q in queries]
    bad = [i for i, o in enumerate(single) if o != "ok"]
    w.check([i for i, h in enumerate(handlers) if h is None] == bad and len(issues) == len(bad),
            "C15.batch.handlers", inp, {"none_at": [i for i, h in enumerate(handlers) if h is None], "issues": len(issues)},
            {"none_at": bad, "issues": len(bad)})
    good = [i for i, h in enumerate(handlers) if h is not None]
    objs = [parse_annotation(t) for t in atexts] + [None]
    try:
        df = search_hed_objs(objs, [handlers[i] for i in good], [names[i] for i in good])
    except BaseException as e:  # noqa
        w.fail("C15.batch.agrees", inp, "search_hed_objs raises " + type(e).__name__ + ": " + str(e)[:100], "a table")
        return
    n = 0
    for i in good:
        for j, t in enumerate(atexts):
            exp = search_bool(queries[i], t)
            obs = int(df.at[j, names[i]])
            n += 1
            w.check(obs == int(exp is True), "C15.batch.agrees", {"query": queries[i], "annotation": t}, obs, exp)
        w.check(int(df.at[len(atexts), names[i]]) == 0, "C15.batch.agrees", {"query": queries[i], "annotation": None},
                int(df.at[len(atexts), names[i]]), 0)
    w.evaluations += n
    w.distinct.add(("batch", n))
    w.part("batch interface", cases=n, bound=f"{len(queries)} queries (8 uncompilable) x {na} annotations + one None entry",
           exhaustive=False)


# ------------------------------------------------------------------------------------------------ replay
def replay(w: Workload, case: dict):
    clause, inp = case["clause"], case["input"]
    schema()
    if clause.startswith("C15.parse.") or "text" in inp:
        fails = []
        check_text(inp["text"], fails, want_compile="wellformed_compiles" in clause)
        for f in fails:
            if f[0] == clause or (f[0] == "C15.parse.wellformed_compiles" and "wellformed_compiles" in clause):
                w.fail(clause, f[1], f[2], f[3])
        return
    a = inp.get("annotation")
    if clause.startswith("C15.term."):
        tree_labels = [x.strip("() ") for x in a.split(",")]
        exp = any(term_matches(inp["mode"], inp["term"], lab) for lab in tree_labels)
        obs = search_bool(inp["query"], a)
        w.check(obs == exp, clause, inp, obs, exp)
    elif "exact_ast" in inp:
        q = X.to_tuple(inp["exact_ast"])
        tree = X.parse_tree_text(a)
        obs = search_bool(inp["query"], a)
        if clause == L_EXO_REL:
            obs2 = search_bool(inp["query2"], a)
            w.check(not X.optional_never_a_member(q, tree) or obs == obs2, clause, inp, {"first": obs, "second": obs2}, "equal")
        else:
            exp = X.expected(q, tree)
            w.check(obs == exp, clause, inp, obs, exp)
    elif clause.startswith("C15.group."):
        tree = parse_tree_text(a)
        labs = leaves(tree)
        sa = {i for i, lab in enumerate(labs) if term_matches(inp["A"][0], inp["A"][1], lab)}
        sb = {i for i, lab in enumerate(labs) if term_matches(inp["B"][0], inp["B"][1], lab)} if "B" in inp else None
        exp = group_form_expected(groups_of(tree), inp["form"], sa, sb)
        obs = search_bool(inp["query"], a)
        w.check(obs == exp, clause, inp, obs, exp)
    elif clause == "C15.and.distinct_tags":
        labs = [x.strip("() ") for x in a.split(",")]
        amodes = inp["A"] if isinstance(inp["A"][0], list) else [inp["A"]]
        sa = {i for i, lab in enumerate(labs) if any(term_matches(m, t, lab) for m, t in amodes)}
        sb = {i for i, lab in enumerate(labs) if term_matches(inp["B"][0], inp["B"][1], lab)}
        exp = any(i != j for i in sa for j in sb)
        obs = search_bool(inp["query"], a)
        w.check(obs == exp, clause, inp, obs, exp)
    elif clause == "C15.or.iff_either":
        ra, rb, ro = search_bool(inp["A"], a), search_bool(inp["B"], a), search_bool(inp["query"], a)
        w.check(ro == (ra or rb), clause, inp, ro, ra or rb)
    elif clause == "C15.and.only_if_both":
        ra, rb, rx = search_bool(inp["A"], a), search_bool(inp["B"], a), search_bool(inp["query"], a)
        w.check(not (rx is True) or (ra is True and rb is True), clause, inp, {"A&&B": rx, "A": ra, "B": rb})
    elif clause in ("C15.and.symmetric", "C15.and.associative"):
        r1, r2 = search_bool(inp["query"], a), search_bool(inp["query2"], a)
        w.check(r1 == r2, clause, inp, {"first": r1, "second": r2}, "equal")
    elif clause == "C15.order.sibling_invariant":
        r1, r2 = search_bool(inp["query"], a), search_bool(inp["query"], inp["reordered"])
        w.check(r1 == r2, clause, inp, {"original": r1, "reordered": r2}, "equal")
    elif clause in ("C15.repeat.agrees", "C15.frame.annotation_unaltered", "C15.search.completes"):
        h, o = compile_query(inp["query"]) if inp.get("query") else (None, "no query recorded")
        if h is None:
            return
        hs = parse_annotation(a)
        s0 = snapshot(hs)
        try:
            r1 = canon_result(h.search(hs))
            r2 = canon_result(h.search(hs))
        except BaseException as e:  # noqa
            w.fail("C15.search.completes", inp, type(e).__name__ + ": " + str(e)[:120], "a result")
            return
        s1 = snapshot(hs)
        if clause == "C15.repeat.agrees":
            w.check(r1 == r2, clause, inp, "second search differs", "identical")
        elif clause == "C15.frame.annotation_unaltered":
            w.check(s0 == s1, clause, inp, _snap_diff(s0, s1), "identical")
    elif clause.startswith("C15.batch."):
        if "queries" in inp:
            from hed.models.query_service import get_query_handlers
            handlers, names, issues = get_query_handlers(inp["queries"])
            bad = [i for i, q in enumerate(inp["queries"]) if compile_query(q)[1] != "ok"]
            w.check([i for i, h in enumerate(handlers) if h is None] == bad and len(issues) == len(bad), clause, inp)
        elif a is not None:
            from hed.models.query_service import get_query_handlers, search_hed_objs
            handlers, names, _ = get_query_handlers([inp["query"]])
            df = search_hed_objs([parse_annotation(a)], handlers, names)
            exp = search_bool(inp["query"], a)
            w.check(int(df.at[0, names[0]]) == int(exp is True), clause, inp, int(df.at[0, names[0]]), exp)


if __name__ == "__main__":
    main(run, "C15", replay)
