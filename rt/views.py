"""Concrete (CPython) definitions of the abstract / uninterpreted views that the contracts name.

exec'ed by rt/conc.py:spec_namespace() into the namespace in which contract clauses are evaluated (after /verif/spec/*.py).
Every function here states the *intended meaning* of a symbolic view of contracts/common.py / contracts/extern_fs.py in terms
of the real objects of /repo (package hed).  Bounded cross-check only -- never counted as proof.

Several agents append to this file: each section is owned by the part named in its banner.  Only edit your own section.
"""

# a finite universe of strings for forall_str-like quantifiers.  NOTE: this file is exec'ed into the clause namespace, which is
# NOT the module object rt.views; a generator sets `import rt.views; rt.views.UNIVERSE = (...)` and views read it via universe().
UNIVERSE = ()


def universe():
    import rt.views as _m
    return _m.UNIVERSE


# ============================================================================ part: tags (C01 tag checks, C03, C04.tag_eq, C13)

def _tags_entry(tag):
    """the resolved schema node of a real HedTag (or of its proxy), None when the tag is not known"""
    e = tag._schema_entry
    return e if e else None


def has_attr(tag, name):
    """common.py:_has_attr_term  `known and f(tag, key)`; meaning: HedTag.has_attribute(name) == bool(entry) and
    entry.has_attribute(name) (inherited attributes included, as HedTagEntry.has_attribute does)"""
    e = _tags_entry(tag)
    return e is not None and bool(e.has_attribute(name))


def base_has_attr(tag, name):
    """common.py:_tag_base_has_attribute; meaning: HedTag.base_tag_has_attribute(name) - the attribute is looked up on the node
    itself, or on its parent when the node is a '#' (takesValue) child; false when the tag is not known"""
    e = _tags_entry(tag)
    if e is None:
        return False
    base = e._parent_tag if e.has_attribute('takesValue') else e
    return bool(base.has_attribute(name))


def tag_view(schema, text):
    """extern_fs.py:_tag_view  'abstract view of a schema's tag section: case-folded form -> entry (or None)'.
    Meaning: the registered-forms dictionary of the tag section (HedSchemaTagSection.long_form_tags: every suffix form of every
    node, case-folded, filled by the loaders) looked up with the case-folded text - what HedSchema._get_tag_entry(text)
    answers (trusted contract C03.get_tag_entry).
    Entries are returned as references (identity equality, the model's == on Opt[Ref[TagEntry]])."""
    from hed.schema.hed_schema_constants import HedSectionKey
    from rt.xadapt_tags import ref
    section = schema._sections[HedSectionKey.Tags]
    return ref(section.long_form_tags.get(text if section.case_sensitive else text.casefold()))


# ============================================================================ part: misc (C07 span, C09 def contents, C10, C11, C14 units, C16)

def forall_str(pred):
    """forall_str(lambda k: ...): quantification over all strings, concretely over the finite universe() the generator chose
    (it contains every key that occurs in the case plus a few others)"""
    return all(pred(k) for k in universe())


def dirname_of(p):
    import os
    return os.path.dirname(p)


def commonpath2(a, b):
    """os.path.commonpath([a, b])"""
    import os
    return os.path.commonpath([a, b])


def float_parses(text):
    """float(text) succeeds"""
    try:
        float(text)
        return True
    except ValueError:
        return False


def float_of(text):
    return float(text)


def derivative_unit_of(entry, text):
    """the (derivative) unit entry that the unit class gives for the text: UnitClassEntry.get_derivative_unit_entry"""
    return entry.get_derivative_unit_entry(text)


def struct_equal(a, b):
    """the structural == of HedGroup / HedTag"""
    return a == b


def canon_of(group):
    """HedGroup.sorted(): the canonical (recursively sorted) copy"""
    return group.sorted()


def expansion_of(entry, tag, value):
    """DefinitionEntry.get_definition as the validator calls it: the expansion of the definition for this tag and value, None when
    the presence of a value does not match the definition"""
    return entry.get_definition(tag, placeholder_value=value, return_copy_of_tag=True)


def temporal_markers_of(hed_string):
    """HedString.find_top_level_tags(anchor_tags=TEMPORAL_KEYS): (marker tag, its top-level group) pairs in order"""
    from hed.models.model_constants import DefTagNames
    return hed_string.find_top_level_tags(anchor_tags=DefTagNames.TEMPORAL_KEYS)


def def_tags_of(group):
    """HedGroup.find_def_tags(include_groups=0): the Def / Def-expand tags directly in the group"""
    return group.find_def_tags(include_groups=0)


if "in_original" not in globals():
    def in_original(hs, tag):
        """HedGroup.check_if_in_original: the tag object (identity) is a node of the original tree of hs"""
        todo = [hs]
        while todo:
            x = todo.pop()
            if x is tag:
                return True
            todo.extend(getattr(x, "_original_children", ()))
        return False
