"""Systematic (non-random) schema edits for part E of the C05 workload.

Two families of edits that the random generator of rt/c05_gen.py reaches only by luck:

multi   multi-valued attributes in which one value is contained in another one (prefix / suffix / infix, case-sensitive and
        caseless), in both orders and with a third value in between: suggestedTag / relatedTag over pairs of EXISTING tags of
        the base schema found by search (e.g. Move-body, Move), valueClass / unitClass lists on '#' children over newly added
        classes with nested names, allowedCharacter lists on new value classes (letters, e / t, text, x ...).
text    free text containing code points that are line boundaries for str.splitlines but not for the file formats
        (U+2028, U+2029, U+0085; the ASCII controls U+000B, U+000C, U+001C-U+001E are outside the allowed classes) and other non-ASCII text (no-break / zero-width / ideographic
        blanks, combining marks, astral characters, bidi marks, BOM, soft hyphen ...) in the description of a node, a '#'
        child, a unit, a unit class, a value class, a unit modifier, an attribute definition; in the prologue and epilogue
        (together with ordinary newlines); and in the value of a newly declared string-valued node attribute.

Each edit is made on the XML text with xml.etree (never with the writers of /repo), through the helpers of the random
generator, and yields the same kind of *spec* (what the loaded schema must contain).  A payload that the schema generation
does not allow (compliance issue naming the entry) is dropped from the edit and the edit is rebuilt: see build().
"""
import random
from xml.etree import ElementTree as ET

from rt import c05_gen as G

# str.splitlines also breaks at U+000B, U+000C, U+001C-U+001E: ASCII control characters, outside every allowed class of the
# schema rules (and not expressible in XML 1.0), hence not generated
LINE_BOUNDARIES = [("U+2028", "\u2028"), ("U+2029", "\u2029"), ("U+0085", "\u0085")]
OTHER_NONASCII = [("U+00A0", "\u00a0"), ("U+200B", "\u200b"), ("U+3000", "\u3000"), ("U+0301", "e\u0301"), ("U+1F600", "\U0001F600"),
                  ("U+200F", "\u200f"), ("U+FEFF", "\ufeff"), ("U+00AD", "\u00ad"), ("U+FFFD", "\ufffd"), ("U+2003", "\u2003"),
                  ("U+00B6", "\u00b6"), ("U+2026", "\u2026"), ("U+201C", "\u201cq\u201d"), ("U+00D7", "3\u00d74"), ("U+4E2D", "\u4e2d\u6587")]


def text_payloads():
    """(id, text) - the special character stands inside the text: between two words without blanks, between blanks, twice"""
    out = []
    for cid, ch in LINE_BOUNDARIES + OTHER_NONASCII:
        out.append((cid + ".tight", "First sentence.%sSecond sentence" % ch))
        out.append((cid + ".spaced", "Alpha %s beta" % ch))
        out.append((cid + ".twice", "a%sb%sc = d" % (ch, ch)))
    return out


def _contains_pairs(names, limit):
    """pairs (long, short) of distinct existing names with short contained in long: one list per relation"""
    rel = {"prefix": [], "suffix": [], "infix": [], "caseless": []}
    names = sorted(names)
    fold = {n: n.casefold() for n in names}
    for short in names:
        if len(short) < 3:
            continue
        for long_ in names:
            if long_ == short or len(long_) <= len(short):
                continue
            if long_.startswith(short):
                r = "prefix"
            elif long_.endswith(short):
                r = "suffix"
            elif short in long_:
                r = "infix"
            elif fold[short] in fold[long_]:
                r = "caseless"
            else:
                continue
            if len(rel[r]) < limit:
                rel[r].append((long_, short))
        if all(len(v) >= limit for v in rel.values()):
            break
    return rel


def _orders(long_, short, other):
    """value lists over a containing / contained pair: both orders, with a third value before, between and after"""
    return [[long_, short], [short, long_], [long_, other, short], [short, other, long_], [other, long_, short]]


class Sys(G.Editor):
    """deterministic edits built with the helpers of the random Editor"""

    def __init__(self, root, inv, form, seed):
        super().__init__(root, inv, form, random.Random(seed))
        self.counter = 0

    def fresh(self, kind="tag"):
        self.counter += 1
        if kind == "tag":
            name = "Zq-sys-%d" % self.counter
            self.taken.add(name.casefold())
        else:
            name = "zqsys%s%s" % ("abcdefghijklmnopqrstuvwxyz"[self.counter % 26], "abcdefghijklmnopqrstuvwxyz"[(self.counter // 26) % 26])
            self.taken_other.add(name.casefold())
        return name

    def host(self):
        """an editable parent node (None: top level)"""
        parents = self._parents()
        if not parents:
            return self.schema_el, None
        par = parents[(7 * self.counter) % len(parents)]
        return par, G._name(par)

    def add_node(self, attrs, desc, shape, name=None):
        par, pshort = self.host()
        name = name or self.fresh()
        el = G._new(par, "node", name, desc, dict(attrs, **self.lib_attr))
        self.parent[el] = par
        self.specs.append({"kind": "tag", "short": name, "parent": pshort, "attrs": self._expect_attrs(attrs), "desc": desc, "shape": shape})
        self.ops.append("%s: node %s attrs=%s desc=%r" % (shape, name, attrs, desc))
        return el

    def add_placeholder(self, attrs, desc, shape):
        el = self.add_node({}, None, shape)
        attrs = dict(attrs, takesValue=True)
        child = G._new(el, "node", "#", desc, dict(attrs, **self.lib_attr))
        self.parent[child] = el
        self.specs.append({"kind": "tag", "short": G._name(el) + "/#", "parent": G._name(el), "attrs": self._expect_attrs(attrs),
                           "desc": desc, "placeholder_of": G._name(el), "shape": shape})
        self.ops.append("%s: placeholder under %s attrs=%s desc=%r" % (shape, G._name(el), attrs, desc))

    def add_value_class(self, name, attrs, desc, shape):
        cont = self._section("valueClassDefinitions")
        G._new(cont, "valueClassDefinition", name, desc, dict(attrs, **self.lib_attr))
        self.specs.append({"kind": "valueClasses", "name": name, "attrs": self._expect_attrs(attrs), "desc": desc, "shape": shape})
        self.ops.append("%s: value class %s attrs=%s desc=%r" % (shape, name, attrs, desc))

    def add_unit_class(self, name, unit, desc, udesc, shape):
        cont = self._section("unitClassDefinitions")
        cattrs = {"defaultUnits": unit} if "defaultUnits" in self.inv.uc_declared else {}
        cel = G._new(cont, "unitClassDefinition", name, desc, dict(cattrs, **self.lib_attr))
        self.specs.append({"kind": "unitClasses", "name": name, "attrs": self._expect_attrs(cattrs), "desc": desc, "shape": shape})
        G._new(cel, "unit", unit, udesc, dict(self.lib_attr))
        self.specs.append({"kind": "units", "name": unit, "attrs": self._expect_attrs({}), "desc": udesc, "unit_class": name, "shape": shape})
        self.ops.append("%s: unit class %s desc=%r with unit %s desc=%r" % (shape, name, desc, unit, udesc))

    def add_modifier(self, name, desc, shape):
        cont = self._section("unitModifierDefinitions")
        attrs = {"SIUnitModifier": True}
        G._new(cont, "unitModifierDefinition", name, desc, dict(attrs, **self.lib_attr))
        self.specs.append({"kind": "unitModifiers", "name": name, "attrs": self._expect_attrs(attrs), "desc": desc, "shape": shape})
        self.ops.append("%s: unit modifier %s desc=%r" % (shape, name, desc))

    def add_attribute_def(self, name, props, desc, shape):
        cont = self._section("schemaAttributeDefinitions")
        G._new(cont, "schemaAttributeDefinition", name, desc, dict(props, **self.lib_attr), attr_tag="property")
        self.specs.append({"kind": "attributes", "name": name, "attrs": self._expect_attrs(props), "desc": desc, "shape": shape})
        self.ops.append("%s: attribute definition %s props=%s desc=%r" % (shape, name, props, desc))

    def set_text(self, which, text, shape):
        el = self.root.find(which)
        if el is None:
            el = ET.Element(which)
            if which == "prologue":
                self.root.insert(0, el)
            else:
                self.root.append(el)
        el.text = text
        self.specs.append({"kind": "text", "which": which, "text": text, "shape": shape})
        self.ops.append("%s: %s = %r" % (shape, which, text))


# ------------------------------------------------------------------------------------------------ the two families

def multi_shapes(inv, limit):
    """[(shape id, builder(ed))] for the multi-valued family"""
    shapes = []
    rel = _contains_pairs(inv.ref_tags, limit)
    others = [t for t in inv.ref_tags]
    attrs = [a for a in ("suggestedTag", "relatedTag") if a in inv.tag_declared]
    k = 0
    for r in ("prefix", "suffix", "infix", "caseless"):
        for long_, short in rel[r]:
            other = next(o for o in others[k * 13 % len(others):] + others if o not in (long_, short)
                         and short.casefold() not in o.casefold() and o.casefold() not in long_.casefold())
            for j, vals in enumerate(_orders(long_, short, other)):
                a = attrs[(k + j) % len(attrs)]
                shapes.append(("multi.%s.%s.%s" % (a, r, "|".join(vals)),
                               lambda ed, a=a, vals=vals, sid="multi.%s.%s" % (a, r): ed.add_node({a: ",".join(vals)}, None, sid)))
            k += 1
    # allowedCharacter lists: a single character contained in a class name and the other way round
    if "allowedCharacter" in inv.vc_declared:
        for vals in (["letters", "e"], ["e", "letters"], ["text", "t", "x"], ["t", "text"], ["digits", "d", "s"], ["nonascii", "a", "i", "n"],
                     ["E", "e", "letters", "T"], ["uppercase", "lowercase", "case"[0]], ["alphanumeric", "numeric"[0], "alpha"[0]],
                     ["single-quote", "double-quote", "q"], ["period", "colon", "o"], ["blank", "b", "hyphen", "h"]):
            shapes.append(("multi.allowedCharacter.%s" % "|".join(vals),
                           lambda ed, vals=vals: ed.add_value_class(ed.fresh("class") + "Class", {"allowedCharacter": ",".join(vals)}, None,
                                                                    "multi.allowedCharacter")))
    # valueClass / unitClass lists over new classes with nested names

    def nested_classes(ed):
        stem = ed.fresh("class")
        vnames = [stem + "Class", stem + "ClassLong", "zq" + stem + "Class", stem]      # contains / prefix / suffix relations
        for n in vnames:
            ed.taken_other.add(n.casefold())
            ed.add_value_class(n, {}, None, "multi.valueClass.setup")
        ustem = ed.fresh("class")
        unames = [ustem + "Units", ustem + "UnitsWide", "zq" + ustem + "Units"]
        for i, n in enumerate(unames):
            ed.taken_other.add(n.casefold())
            ed.add_unit_class(n, "%sunit%d" % (ustem, i), None, None, "multi.unitClass.setup")
        a, b, c, d = vnames
        for vals in ([b, a], [a, b], [c, a], [a, c], [a, d], [d, a], [b, "textClass" if "textClass" in inv.value_classes else inv.value_classes[0], a], [d, c, b, a]):
            ed.add_placeholder({"valueClass": ",".join(vals)}, None, "multi.valueClass")
        ua, ub, uc = unames
        for vals in ([ub, ua], [ua, ub], [uc, ua], [ua, uc], [ub, inv.unit_classes[0], ua]):
            ed.add_placeholder({"unitClass": ",".join(vals), "valueClass": a}, None, "multi.unitClass")
    shapes.append(("multi.classLists", nested_classes))
    return shapes


def text_shapes(inv, quick):
    shapes = []
    payloads = text_payloads()
    string_attr = []

    def declare(ed):
        name = "zqSysNote"
        props = {"stringRange": True, "tagDomain": True} if inv.gen83 else {"nodeProperty": True} if "nodeProperty" in inv.other_names["properties"] else {}
        ed.taken_other.add(name.casefold())
        ed.add_attribute_def(name, props, None, "text.attribute_value.setup")
        string_attr.append(name)
    shapes.append(("text.setup.string_attribute", declare))
    sites = ["node", "placeholder", "unit", "unitClass", "valueClass", "modifier", "attributeDef", "attrValue"]
    for i, (pid, text) in enumerate(payloads):
        for j, site in enumerate(sites):
            if quick and site not in ("node", "attrValue") and (i + j) % 4:
                continue            # quick tier: every payload on a node and in an attribute value, a quarter of the other sites
            sid = "text.%s.%s" % (site, pid)

            def build(ed, site=site, text=text, sid=sid):
                if site == "node":
                    ed.add_node({}, text, sid)
                elif site == "placeholder":
                    ed.add_placeholder({}, text, sid)
                elif site == "unit":
                    n = ed.fresh("unit")
                    ed.add_unit_class(n + "Units", n + "u", None, text, sid)
                elif site == "unitClass":
                    n = ed.fresh("unit")
                    ed.add_unit_class(n + "Units", n + "u", text, None, sid)
                elif site == "valueClass":
                    ed.add_value_class(ed.fresh("class") + "Class", {}, text, sid)
                elif site == "modifier":
                    ed.add_modifier(ed.fresh("unit"), text, sid)
                elif site == "attributeDef":
                    props = {inv.bool_prop: True}
                    if inv.tag_dom_prop:
                        props[inv.tag_dom_prop] = True
                    elif "nodeProperty" in inv.other_names["properties"]:
                        props["nodeProperty"] = True
                    ed.add_attribute_def(ed.fresh("class") + "Flag", props, text, sid)
                else:
                    ed.add_node({string_attr[0]: text}, None, sid)
            shapes.append((sid, build))
    return shapes


def text_block(which, k):
    """prologue / epilogue text number k: ordinary newlines together with the special code points"""
    chars = LINE_BOUNDARIES + OTHER_NONASCII
    cid, ch = chars[k % len(chars)]
    cid2, ch2 = chars[(k * 7 + 3) % len(chars)]
    return "%s+%s" % (cid, cid2), "The %s of the schema.%sStill the first line\nSecond line with %s inside.\nThird line" % (which, ch, ch2)


def build(base_xml, inv, form, family, quick, drop=(), variant=0):
    """-> (xml text, specs, ops, ids of the shapes applied).  drop: shape ids to leave out"""
    root = ET.fromstring(base_xml)
    ed = Sys(root, inv, form, 12345 + variant)
    if family == "multi":
        shapes = multi_shapes(inv, 2 if quick else 6)
    else:
        shapes = text_shapes(inv, quick)
    applied = []
    for sid, fn in shapes:
        if sid in drop:
            continue
        fn(ed)
        applied.append(sid)
    if family == "text":
        for which, k in (("prologue", variant), ("epilogue", variant + 11)):
            cid, text = text_block(which, k)
            sid = "text.%s.%s" % (which, cid)
            if sid not in drop:
                ed.set_text(which, text, sid)
                applied.append(sid)
    return ET.tostring(root, encoding="unicode"), ed.specs, ed.ops, applied
