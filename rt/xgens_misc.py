"""Case generators (real hed objects) for the model cross-check of part `misc`:
C10.handle_onset_or_offset, C10.validate_temporal_relations, C11.*, C12.update_error_with_char_pos, C12.add_context_and_filter,
C12.error_handler_init, C15.*, C16.is_sidecar_for, C16.get_sidecar_for_obj, C09.validate_def_contents, C14.conversion_factor,
C14.unit_exists, C07.get_org_span_from_strings.   Bounded cross-check only -- never counted as proof."""
import itertools
import os

_cache = {}


def schema(version="8.3.0"):
    if version not in _cache:
        import hed
        _cache[version] = hed.load_schema_version(version)
    return _cache[version]


def _thorough(tier):
    return tier != "quick"


def _case_variants(k):
    out = [k, k.upper(), k.lower(), k.capitalize(), k.swapcase(), k + "s", " " + k, k + " "]
    seen = []
    for x in out:
        if x not in seen:
            seen.append(x)
    return seen


# ----------------------------------------------------------------------------------------------------------------- C11
def unit_entries():
    return [u for uc in schema().unit_classes.values() for u in uc.units.values()]


def conversion_factor_lookup_cases(tier):
    """UnitEntry.get_conversion_factor(unit_name): every unit of 8.3.0 x (own table keys, their case variants, foreign keys, '', None)"""
    n_keys = 6 if _thorough(tier) else 2
    for u in unit_entries():
        keys = list(u.derivative_units)
        names = [None, "", "xyz", "ß", u.name, u.name.upper(), u.name.lower()]
        for k in keys[:n_keys] + keys[-1:]:
            names += _case_variants(k)
        names += ["second", "m", "M", "$", "Seconds", "MILES"]
        done = []
        for nm in names:
            if nm in done:
                continue
            done.append(nm)
            yield {"self": u, "unit_name": nm}


def derivative_unit_entry_cases(tier):
    """UnitClassEntry.get_derivative_unit_entry(units): every unit class x (keys of its table incl. symbols and names, case variants, unknown)"""
    n_keys = 12 if _thorough(tier) else 3
    for uc in schema().unit_classes.values():
        texts = ["", "xyz", "5", "ß", "SS", "M", "S", "Hz", "HZ", "hz", "$", "Dollar", "DOLLARS"]
        for u in uc.units.values():
            keys = list(u.derivative_units)
            for k in [u.name] + keys[:n_keys] + keys[-1:]:
                texts += _case_variants(k)
        done = set()
        for t in texts:
            if t not in done:
                done.add(t)
                yield {"self": uc, "units": t}


def _unit_class_dicts():
    ucs = schema().unit_classes
    return [
        {},
        {"timeUnits": ucs["timeUnits"]},
        {"currencyUnits": ucs["currencyUnits"]},
        {"physicalLengthUnits": ucs["physicalLengthUnits"], "timeUnits": ucs["timeUnits"]},
        {"currencyUnits": ucs["currencyUnits"], "timeUnits": ucs["timeUnits"]},
        {"timeUnits": ucs["timeUnits"], "currencyUnits": ucs["currencyUnits"]},
        {"temperatureUnits": ucs["temperatureUnits"]},
    ]


EXTENSIONS = ["", " ", "5", "5 ms", "5 s", "5 S", "5 Seconds", "5 SECONDS", "5  s", " s", "s", "s ", "5 xyz", "abc s", "5 ms ", "$ 5", "$5", "5 $",
              "$", "$ ", " $", "$  5", "dollars 5", "5 dollars", "5 Dollar", "Dollar 5", "5 m", "5 M", "5 feet", "5 oC", "5 degrees celsius",
              "degrees celsius", "s s", "$ s", "s $", "$ $", "1 2 3", "# s", "$ #", "#", "5 m-per-s", "3.2e4 day", "-1 hours", "5\tms", "5 point", "euro 3", "3 euros"]


def tag_units_portion_cases(tier):
    exts = list(EXTENSIONS)
    if _thorough(tier):
        alpha = ["5", " ", "s", "$", "m"]
        exts += ["".join(t) for n in range(1, 5) for t in itertools.product(alpha, repeat=n)]
    for d in _unit_class_dicts():
        for e in dict.fromkeys(exts):
            yield {"extension_text": e, "tag_unit_classes": d}


def default_unit_cases(tier):
    """HedTag.value_as_default_unit: value-taking tags of different unit classes (and tags without units / without schema entry) x extensions"""
    from hed.models.hed_tag import HedTag
    bases = ["Duration", "Delay", "Weight", "Temperature", "Distance", "Speed", "Frequency", "Angle", "Jerk-rate", "Sound-volume", "Label", "Item-count",
             "Nonexistent-tag"]
    exts = [e for e in EXTENSIONS if e.strip() == e and e]
    if not _thorough(tier):
        bases = bases[:4] + bases[-3:]
    for b in bases:
        for e in exts:
            try:
                tag = HedTag(b + "/" + e, schema())
            except Exception:      # not a constructible tag: nothing to call
                continue
            yield {"self": tag}
    for text in ["Red", "Duration", "Nonexistent-tag", "Def/Abc", "Time-interval/3 days", "Duration/3 Days", "Weight/1 lbs", "Weight/1 LB",
                 "Distance/1 mile", "Temperature/3 oC", "Temperature/3 OC", "Age/3 years", "Age/3", "Age/x years"]:
        yield {"self": HedTag(text, schema())}


# ----------------------------------------------------------------------------------------------------------------- C14
FACTOR_TEXTS = ["1.0", "1", "0", "0.0", "-1", "-0.0", "1e3", "10^3", "10^-3", "-10^3", "^", "", " ", "abc", "1.0.0", " 2 ", "+3", "1_0", "0x10", "inf", "-inf",
                "infinity", "1e-400", "1e400", "-1e-400", ".5", "5.", "1e", "e1", "1^", "0^0", "٣", "1,0", "--1", "0.0000001", "1/2", "True"]
# float('nan') parses but is neither > 0 nor <= 0: kept apart (the contract and the code disagree there, see the report)
FACTOR_TEXTS_NAN = ["nan", "NaN", "-nan"]


def _entry_with(entry, **attrs):
    """a copy of a real schema entry (same class, same section) whose attribute table is replaced"""
    import copy
    e = copy.copy(entry)
    e.attributes = dict(attrs)
    return e


def _conversion_factor_cases(tier, with_nan=False):
    s = schema()
    units = unit_entries()
    picks = [units[0], next(u for u in units if u.name == "foot"), next(u for u in units if u.name == "m")]
    mods = list(s.unit_modifiers.values())[:2]
    texts = FACTOR_TEXTS + (FACTOR_TEXTS_NAN if with_nan else [])
    for e in picks + mods:
        yield {"hed_schema": s, "tag_entry": e, "attribute_name": "conversionFactor"}          # the real entry as loaded
        yield {"hed_schema": s, "tag_entry": _entry_with(e), "attribute_name": "conversionFactor"}   # attribute absent -> default '1.0'
        for t in texts:
            yield {"hed_schema": s, "tag_entry": _entry_with(e, conversionFactor=t), "attribute_name": "conversionFactor"}
    if _thorough(tier):
        for u in units:
            yield {"hed_schema": s, "tag_entry": u, "attribute_name": "conversionFactor"}
        for t in texts:
            yield {"hed_schema": s, "tag_entry": _entry_with(units[3], other=t), "attribute_name": "other"}


def conversion_factor_cases(tier):
    return _conversion_factor_cases(tier)


def conversion_factor_cases_with_nan(tier):
    """the same plus the texts that float() reads as NaN (contract and code disagree there: not registered)"""
    return _conversion_factor_cases(tier, with_nan=True)


def unit_exists_cases(tier):
    s = schema()
    ucs = list(s.unit_classes.values())
    if not _thorough(tier):
        ucs = [s.unit_classes[k] for k in ("timeUnits", "currencyUnits", "temperatureUnits", "physicalLengthUnits", "jerkUnits")]
    for uc in ucs:
        yield {"hed_schema": s, "tag_entry": uc, "attribute_name": "defaultUnits"}
        yield {"hed_schema": s, "tag_entry": _entry_with(uc), "attribute_name": "defaultUnits"}
        texts = ["", "xyz", "S", "M", "$", "Dollar", "dollars", "SECOND", "seconds", "ms", "Ms", "degree Celsius", "degrees celsius", "oC", "OC", " s", "s "]
        texts += [u.name for u in uc.units.values()] + [u.name.upper() for u in uc.units.values()]
        for t in dict.fromkeys(texts):
            yield {"hed_schema": s, "tag_entry": _entry_with(uc, defaultUnits=t), "attribute_name": "defaultUnits"}
            yield {"hed_schema": s, "tag_entry": _entry_with(uc, defaultUnits=t, deprecatedFrom="8.0.0"), "attribute_name": "defaultUnits"}


# ----------------------------------------------------------------------------------------------------------------- C15
def _search_material():
    """groups and tags of one annotation: g1 and g2 are equal but distinct objects, so are their tags; g3/g4 differ"""
    from hed.models.hed_string import HedString
    hs = HedString("(Red, Blue), (Red, Blue), (Green, (Red, Square)), (Blue, Red), Red, Circle", schema())
    g1, g2, g3, g4 = hs.groups()
    inner = g3.groups()[0]
    pools = {id(g1): g1.tags(), id(g2): g2.tags(), id(g3): g3.tags() + [inner] + inner.tags(), id(g4): g4.tags(), id(hs): hs.tags() + [g1, g2]}
    return hs, [g1, g2, g3, g4, hs], pools


def _tag_lists(pool, extra, n):
    items = list(pool) + list(extra)
    out = [[]]
    for k in range(1, n + 1):
        out += [list(t) for t in itertools.permutations(items, k)]
    return out


def search_result_pairs(tier):
    """pairs of real SearchResult objects: same / equal-but-distinct / different groups x tag lists that are identical, equal but not
    identical (the same tag text in another group), permuted, of different length"""
    from hed.models.query_util import SearchResult
    hs, groups, pools = _search_material()
    g1, g2, g3, g4, top = groups
    n = 3 if _thorough(tier) else 2
    combos = [(g1, g1), (g1, g2), (g1, g4), (g1, g3), (top, top)] + ([(g3, g3), (g2, g4)] if _thorough(tier) else [])
    for ga, gb in combos:
        la = _tag_lists(pools[id(ga)], [], n)
        lb = _tag_lists(pools[id(gb)][:2], pools[id(ga)][:2] if ga is not gb else [], n)
        if len(pools[id(ga)]) > 3 and not _thorough(tier):
            la = la[:25]
            lb = lb[:25]
        for ta in la:
            for tb in lb:
                yield {"self": SearchResult(ga, ta), "other": SearchResult(gb, tb)}


def search_result_init_cases(tier):
    from hed.models.query_util import SearchResult
    hs, groups, pools = _search_material()
    for g in groups:
        for tags in _tag_lists(pools[id(g)][:4], [], 3 if _thorough(tier) else 2):
            yield {"self": SearchResult.__new__(SearchResult), "group": g, "tag": tags}
    g = groups[0]
    dup = pools[id(g)][0]
    yield {"self": SearchResult.__new__(SearchResult), "group": g, "tag": [dup, dup]}
    yield {"self": SearchResult(groups[1], [dup]), "group": g, "tag": [dup, dup, pools[id(g)][1]]}      # re-initialisation of a used object


# ----------------------------------------------------------------------------------------------------------------- C12 init
def error_handler_init_cases(tier):
    """ErrorHandler.__init__: the parameter is a Bool, so there are two inputs; each on a blank object and on a handler that was in use"""
    from hed.errors.error_reporter import ErrorHandler
    for flag in (True, False):
        yield {"self": ErrorHandler.__new__(ErrorHandler), "check_for_warnings": flag}
        for before in (True, False):
            used = ErrorHandler(check_for_warnings=before)
            used.push_error_context("ec_filename", "f.tsv")
            yield {"self": used, "check_for_warnings": flag}


# ----------------------------------------------------------------------------------------------------------------- C16
BIDS_ROOT = "/tmp/xcheck_bids_ds"       # nothing is created: BidsFile only parses the (real)path

SIDECAR_PATHS = [
    "task-a_events.json", "events.json", "task-b_events.json", "task-a_run-1_events.json", "task-a_eeg.json", "task-a.json",
    "sub-01/sub-01_events.json", "sub-01/sub-01_task-a_events.json", "sub-01/task-a_events.json", "sub-01/sub-02_task-a_events.json",
    "sub-01/ses-1/sub-01_ses-1_task-a_events.json", "sub-01/ses-1/eeg/sub-01_ses-1_task-a_run-1_events.json",
    "sub-01/ses-1/eeg/sub-01_ses-1_task-a_events.json", "sub-02/sub-02_task-a_events.json", "sub-01/ses-1/eeg/TASK-a_events.json",
    "sub-01/ses-1/eeg/task-A_events.json", "sub-010/task-a_events.json",
]
DATA_PATHS = [
    "sub-01/ses-1/eeg/sub-01_ses-1_task-a_run-1_events.tsv", "sub-01/ses-1/eeg/sub-01_ses-1_task-b_run-1_events.tsv",
    "sub-01/ses-1/eeg/sub-01_ses-1_task-a_run-2_events.tsv", "sub-01/ses-1/eeg/sub-01_ses-1_task-a_run-1_eeg.set",
    "sub-01/ses-1/eeg/sub-01_ses-1_task-a_run-1_channels.tsv", "sub-02/ses-1/eeg/sub-02_ses-1_task-a_run-1_events.tsv",
    "sub-01/sub-01_task-a_events.tsv", "task-a_events.tsv", "sub-010/sub-010_task-a_events.tsv", "sub-01/ses-1/eeg/sub-01_ses-1_task-a_run-1.tsv",
]


def _bids_universe(objs):
    import rt.views
    keys = set()
    for o in objs:
        keys |= set(o.entity_dict)
    rt.views.UNIVERSE = tuple(sorted(keys | {"sub", "ses", "task", "run", "acq", "", "Task", "x"}))


def _bids_objects():
    from hed.tools.bids.bids_file import BidsFile
    from hed.tools.bids.bids_sidecar_file import BidsSidecarFile
    sidecars = [BidsSidecarFile(os.path.join(BIDS_ROOT, p)) for p in SIDECAR_PATHS]
    data = [BidsFile(os.path.join(BIDS_ROOT, p)) for p in DATA_PATHS]
    return sidecars, data


def sidecar_for_cases(tier):
    """every sidecar x (every data file, every sidecar incl. itself and an equal-path twin)"""
    from hed.tools.bids.bids_sidecar_file import BidsSidecarFile
    sidecars, data = _bids_objects()
    _bids_universe(sidecars + data)
    for s in sidecars:
        for o in data + sidecars + [BidsSidecarFile(s.file_path)]:
            yield {"self": s, "obj": o}


def sidecar_dir_cases(tier):
    """BidsFileGroup._get_sidecar_for_obj: directory tables holding 0..3 sidecars per directory in every order (also directories with
    several applicable sidecars), queried for data files and sidecars at listed and unlisted directories"""
    from hed.tools.bids.bids_file_group import BidsFileGroup
    sidecars, data = _bids_objects()
    _bids_universe(sidecars + data)
    by_dir = {}
    for s in sidecars:
        by_dir.setdefault(os.path.dirname(s.file_path), []).append(s)
    root = os.path.realpath(BIDS_ROOT)
    tables = [{d: list(v) for d, v in by_dir.items()}, {d: list(reversed(v)) for d, v in by_dir.items()}, {}, {root: []}]
    top = by_dir[root]
    limit = 3 if _thorough(tier) else 2
    for k in range(1, limit + 1):
        for perm in itertools.permutations(top[:4], k):
            tables.append({root: list(perm)})
    deep = os.path.join(root, "sub-01", "ses-1", "eeg")
    for perm in itertools.permutations(by_dir[deep][:3], 2):
        tables.append({deep: list(perm), root: top[:1]})
    objs = data if _thorough(tier) else data[:4] + data[7:8]
    for table in tables:
        group = BidsFileGroup.__new__(BidsFileGroup)
        group.root_path = root
        group.suffix = "_events"
        group.sidecar_dir_dict = table
        dirs = list(table) + [os.path.join(root, "nowhere")]
        for o in objs + sidecars[:2]:
            for d in dict.fromkeys(dirs + [root, deep]):
                yield {"self": group, "obj": o, "current_path": d}


# ----------------------------------------------------------------------------------------------------------------- C10
DEF_NAMES = ["Abc", "ABC", "abc", "Abc/1", "ABC/1", "Abc/2", "Xyz", "Straße", "STRASSE"]


def onset_handler_cases(tier):
    """OnsetValidator._handle_onset_or_offset: open-scope tables x Def / Def-expand tags (same name in other letter case, with a value)
    x the three markers (and one tag that is none of them: precondition false)"""
    from hed.models.hed_tag import HedTag
    from hed.validator.onset_validator import OnsetValidator
    s = schema()
    tables = [{}, {"abc": "Abc"}, {"abc/1": "Abc/1"}, {"abc": "ABC", "xyz": "Xyz"}, {"strasse": "STRASSE"}, {"abc": "Abc", "abc/1": "Abc/1", "abc/2": "Abc/2"}]
    names = DEF_NAMES if _thorough(tier) else DEF_NAMES[:4] + DEF_NAMES[6:8]
    for table in tables:
        for name in names:
            for base in ("Def", "Def-expand"):
                for marker in ("Onset", "Offset", "Inset", "onset", "Delay/1 s"):
                    v = OnsetValidator()
                    v._onsets = dict(table)
                    yield {"self": v, "def_tag": HedTag(base + "/" + name, s), "onset_offset_tag": HedTag(marker, s),
                           "_case": f"open={table} {base}/{name} {marker}"}


MARKER_GROUPS = ["(Def/A, Onset)", "(Def/a, Offset)", "(Def/A, Inset)", "(Def/A/1, Onset)", "(Def/B, Onset)", "(Onset, (Def-expand/A, (Red)))",
                 "((Def-expand/a, (Red)), Offset, (Blue))", "(Onset, Red)", "(Def/A, Def/B, Onset)", "(Def/B, Offset)", "(Red, Blue)"]
TOP_EXTRAS = ["", "Red", "Onset", "(Green, (Def/A, Onset))"]


def temporal_relation_cases(tier):
    """OnsetValidator.validate_temporal_relations: annotations made of 1..3 marker groups of one time point (same name twice in any letter
    case, with and without value, Def-expand form, marker without Def, group without marker) on an empty / non-empty open-scope table"""
    from hed.models.hed_string import HedString
    from hed.validator.onset_validator import OnsetValidator
    s = schema()
    pool = MARKER_GROUPS if _thorough(tier) else MARKER_GROUPS[:8]
    texts = []
    for n in (1, 2, 3):
        if n == 3 and not _thorough(tier):
            combos = [c for c in itertools.product(pool[:4], repeat=3)]
        else:
            combos = itertools.product(pool, repeat=n)
        for combo in combos:
            texts.append(", ".join(combo))
    for extra in TOP_EXTRAS[1:]:
        texts += [extra, extra + ", (Def/A, Onset), (Def/A, Offset)", "(Def/A, Onset), " + extra + ", (Def/a, Onset)"]
    for text in texts:
        for table in ({}, {"a": "A"}):
            v = OnsetValidator()
            v._onsets = dict(table)
            yield {"self": v, "hed_string_obj": HedString(text, s), "_case": f"open={table} {text}"}


# ----------------------------------------------------------------------------------------------------------------- C12
def _issue_material():
    """real annotations (one plain, one joined from cell strings), their tags, a modified tag and a tag of another annotation"""
    from hed.models.hed_string import HedString
    s = schema()
    plain = HedString("Red, Blue/Xyz, (Green, Duration/3 s)", s)
    parts = [HedString("Circle", s), HedString("(Square, Label/Abc)", s), HedString("Label/Q$", s)]
    joined = HedString.from_hed_strings(parts)
    other = HedString("Purple, Blue/Xyz", s)
    modified = HedString("Yellow, Item/Object", s)
    mtag = modified.get_all_tags()[1]
    mtag.tag = "Item/Object/Man-made-object"          # user form set: _tag is no longer None
    return plain, joined, other, modified, mtag


def raw_issues(tier):
    """issue dicts exactly as ErrorHandler.format_error makes them (+ the contexts add_context adds), undecorated"""
    from hed.errors.error_reporter import ErrorHandler
    from hed.errors.error_types import ValidationErrors, TemporalErrors, ErrorContext
    plain, joined, other, modified, mtag = _issue_material()
    out = []

    def add(label, lst, hs, **extra):
        d = lst[0]
        if hs is not None:
            d[ErrorContext.HED_STRING] = hs
        d.update(extra)
        out.append((label, d))

    for hs_name, hs in (("plain", plain), ("joined", joined), ("modified", modified)):
        tags = hs.get_all_tags()
        for ctx_name, ctx in (("in", hs), ("none", None), ("other", other)):
            for t in tags:
                add(f"{hs_name}/{ctx_name} whole {t}", ErrorHandler.format_error(TemporalErrors.OFFSET_BEFORE_ONSET, tag=t), ctx)
                n = len(t.tag)
                spans = [(0, None), (0, 1), (1, n), (n, n), (0, n)] + ([(1, 2), (2, 1), (0, n + 2), (-1, 1), (n + 1, n + 3)] if ctx_name == "in" else [])
                if not _thorough(tier):
                    spans = spans[:3] + spans[5:9]
                for a, b in spans:
                    add(f"{hs_name}/{ctx_name} sub[{a}:{b}] {t}",
                        ErrorHandler.format_error(ValidationErrors.INVALID_TAG_CHARACTER, t, index_in_tag=a, index_in_tag_end=b), ctx)
                    add(f"{hs_name}/{ctx_name} warn[{a}:{b}] {t}",
                        ErrorHandler.format_error(ValidationErrors.TAG_EXTENDED, t, index_in_tag=a, index_in_tag_end=b), ctx)
        add(f"{hs_name} no tag", ErrorHandler.format_error(ValidationErrors.PARENTHESES_MISMATCH, opening_parentheses_count=1, closing_parentheses_count=2), hs)
        add(f"{hs_name} int source", ErrorHandler.format_error(ValidationErrors.PARENTHESES_MISMATCH, opening_parentheses_count=1, closing_parentheses_count=2), hs,
            source_tag=3)
    return out


def _issue_views(tier):
    """undecorated issues, issues decorated once already (second decoration), issues carrying a char_index that format_error's caller set"""
    from rt.xadapt_misc import IssueView
    from hed.errors.error_reporter import ErrorHandler
    for label, d in raw_issues(tier):
        yield label, IssueView(d)
        once = IssueView(d)
        try:
            ErrorHandler._update_error_with_char_pos(once)
        except Exception:
            continue
        yield label + " (decorated before)", once
        if "char_index" not in once:
            preset = IssueView(d)
            preset["char_index"] = 7
            yield label + " (char_index preset)", preset


def issue_decoration_cases(tier):
    for label, iv in _issue_views(tier):
        yield {"error_object": iv, "_case": label}


def issue_list_cases(tier):
    """ErrorHandler.add_context_and_filter: handlers with / without warnings and with / without an annotation context x lists of real
    issues (errors and warnings mixed, located and not, already decorated)"""
    from hed.errors.error_reporter import ErrorHandler
    from hed.errors.error_types import ErrorContext
    from rt.xadapt_misc import IssueView
    plain, joined, other, modified, mtag = _issue_material()
    # add_context_and_filter overwrites the contexts of the issue with the handler's: build every list for the handler's annotation
    views = [(l, v) for l, v in _issue_views(tier)]
    picks = views[::7] if not _thorough(tier) else views[::3]
    lists = [[]] + [[v] for _, v in picks]
    for k in range(0, len(picks) - 2, 2):
        lists.append([picks[k][1], picks[k + 1][1], picks[k + 2][1]])
    lists.append([picks[0][1], picks[0][1]])                # the same issue object twice
    for flag in (True, False):
        for ctx in (None, "plain", "joined"):
            for lst in lists:
                eh = ErrorHandler(check_for_warnings=flag)
                eh.push_error_context(ErrorContext.ROW, 3)
                if ctx:
                    eh.push_error_context(ErrorContext.HED_STRING, plain if ctx == "plain" else joined)
                fresh = {id(x): IssueView(x) for x in lst}       # per case copies; the same object twice stays the same object twice
                yield {"self": eh, "issues": [fresh[id(x)] for x in lst],
                       "_case": f"warnings={flag} ctx={ctx} " + " | ".join(repr(x)[:80] for x in lst)}


# ----------------------------------------------------------------------------------------------------------------- C09
DEFINITIONS = ["(Definition/A, (Red, Blue))", "(Definition/B/#, (Duration/# s, Green))", "(Definition/C)", "(Definition/D, (Red, (Blue, Green), Square))",
               "(Definition/E/#, (Label/#, (Blue, Age/5)))"]
DEF_USES = [
    "Def/A", "Def/a", "Def/A/3", "Def/B/3", "Def/B", "Def/b/4 ", "Def/C", "Def/C/1", "Def/Unknown", "Def/Unknown/2", "Def/D", "Def/E/Abc", "Def/B/#",
    "(Def-expand/A, (Red, Blue))", "(Def-expand/A, (Blue, Red))", "(Def-expand/a, (Blue, Red))", "(Def-expand/A, (Red))", "(Def-expand/A, (Red, Blue, Green))",
    "(Def-expand/A, (Red, Blue), Green)", "(Def-expand/A)", "((Red, Blue), Def-expand/A)", "(Def-expand/A, (Red, Blue/Abc))", "(Def-expand/A, (Red, (Blue)))",
    "(Def-expand/A/3, (Red, Blue))", "(Def-expand/B/3, (Duration/3 s, Green))", "(Def-expand/B/3, (Green, Duration/3 s))",
    "(Def-expand/B/4, (Duration/3 s, Green))", "(Def-expand/B/3, (Duration/3 ms, Green))", "(Def-expand/B, (Duration/# s, Green))", "(Def-expand/B/3)",
    "(Def-expand/C)", "(Def-expand/C, (Red))", "(Def-expand/C/2)", "(Def-expand/Unknown, (Red))", "(Def-expand/Unknown/2, (Red))", "(Def-expand/Unknown)",
    "(Def-expand/D, (Red, (Blue, Green), Square))", "(Def-expand/D, (Square, (Green, Blue), Red))", "(Def-expand/D, (Square, (Green, Blue, Red)))",
    "(Def-expand/E/Abc, (Label/Abc, (Blue, Age/5)))", "(Def-expand/E/Abc, ((Age/5, Blue), Label/Abc))", "(Def-expand/E/Abc, (Label/Xyz, (Blue, Age/5)))",
    "(Def-expand/E/Abc, (Label/Abc, (Blue, Age/6)))", "(Onset, (Def-expand/A, (Blue, Red)), (Green))", "(Red, (Def-expand/A, (Red)), Def/A)",
]


def def_content_cases(tier):
    """DefValidator._validate_def_contents on the (tag, group) pairs that HedGroup.find_def_tags hands to it: Def and Def-expand uses of
    declared / undeclared names, with / without value where one is (not) expected, content equal / permuted / altered / nested differently;
    annotation parsed with and without the definitions (expanded and plain tags)"""
    from hed.models.hed_string import HedString
    from hed.validator.def_validator import DefValidator
    s = schema()
    dv = DefValidator(DEFINITIONS, s)
    empty = DefValidator(None, s)
    for text in DEF_USES:
        for parse_with in (None, dv):
            hs = HedString(text, s, def_dict=parse_with)
            for def_tag, def_expand_group, def_group in hs.find_def_tags(recursive=True):
                for me, me_name in ((dv, "defs"), (empty, "no defs")):
                    if me is empty and not _thorough(tier) and parse_with is not None:
                        continue
                    yield {"self": me, "def_tag": def_tag, "def_expand_group": def_expand_group, "hed_validator": None,
                           "_case": f"{me_name}; parsed {'with' if parse_with else 'without'} defs: {text} -> {def_tag}"}


# ----------------------------------------------------------------------------------------------------------------- C07
CELLS = ["Red", "(Blue, Green)", "Label/Abc, Circle", "(Square, (Red, Blue)), Item-count/3", "Red", "", "((Green))", "Def/A", "Label/Ü"]


def org_span_cases(tier):
    """HedString._get_org_span_from_strings: row strings joined from 1..3 cell strings (also equal cells and an empty cell) x every tag and
    group of the row, of a cell that is not part of the row, and a copy of a tag"""
    from hed.models.hed_string import HedString
    s = schema()
    n_max = 3
    cells = CELLS if _thorough(tier) else CELLS[:6]
    rows = []
    for n in range(1, n_max + 1):
        for combo in itertools.product(range(len(cells)), repeat=n):
            if n == 3 and not _thorough(tier) and sum(combo) % 5:
                continue
            rows.append(combo)
    for combo in rows:
        parts = [HedString(cells[i], s) for i in combo]
        row = HedString.from_hed_strings(parts)
        outsider = HedString("Red, (Blue, Green)", s)
        nodes = row.get_all_tags() + row.get_all_groups()[1:] + outsider.get_all_tags()[:1] + outsider.groups()[:1]
        nodes += [t.copy() for t in row.get_all_tags()[:1]]
        # (a part string itself is not offered as the node: the parameter is a tag or group *of* the row; for an EMPTY part the code's
        #  `if not found_string` truthiness test would answer (None, None) although check_if_in_original(part) holds - see the report)
        if not _thorough(tier):
            nodes = nodes[:2] + nodes[-5:]
        for node in nodes:
            yield {"self": row, "tag_or_group": node, "_case": f"cells={[cells[i] for i in combo]} node={node}"}


# ----------------------------------------------------------------------------------------------------------------- labels
def _d(v):
    """short readable description of a real object for the failure report"""
    from hed.schema.hed_schema_entry import HedSchemaEntry
    from hed.schema.hed_schema import HedSchema
    from hed.tools.bids.bids_file import BidsFile
    from hed.tools.bids.bids_file_group import BidsFileGroup
    from hed.models.query_util import SearchResult
    from hed.models.hed_tag import HedTag
    from hed.models.hed_group import HedGroup
    if isinstance(v, HedSchemaEntry):
        return f"{type(v).__name__}({v.name!r}, {v.attributes})"
    if isinstance(v, HedSchema):
        return f"HedSchema({v.version})"
    if isinstance(v, BidsFile):
        return f"{type(v).__name__}({os.path.relpath(v.file_path, BIDS_ROOT)})"
    if isinstance(v, BidsFileGroup):
        return "BidsFileGroup(" + _d(v.sidecar_dir_dict) + ")"
    if isinstance(v, SearchResult):
        return f"SearchResult(group#{id(v.group) % 1000}={v.group}, tags={[f'{t}#{id(t) % 1000}' for t in v.tags]})" if hasattr(v, "group") else "SearchResult(blank)"
    if isinstance(v, (HedTag, HedGroup)):
        return f"{type(v).__name__}({str(v)!r})"
    if isinstance(v, dict):
        return "{" + ", ".join(f"{(os.path.relpath(k, BIDS_ROOT) if isinstance(k, str) and k.startswith(BIDS_ROOT) else k)!r}: {_d(x)}" for k, x in v.items()) + "}"
    if isinstance(v, (list, tuple)):
        return "[" + ", ".join(_d(x) for x in v) + "]"
    if isinstance(v, (str, int, float, bool, type(None))):
        return repr(v)
    return type(v).__name__


def _labelled(gen):
    def cases(tier):
        for case in gen(tier):
            if "_case" not in case:
                case["_case"] = "; ".join(f"{k}={_d(v)}" for k, v in case.items())[:400]
            yield case
    cases.__name__ = gen.__name__
    cases.__doc__ = gen.__doc__
    return cases


for _name in ("conversion_factor_lookup_cases", "derivative_unit_entry_cases", "tag_units_portion_cases", "default_unit_cases", "conversion_factor_cases",
              "conversion_factor_cases_with_nan", "unit_exists_cases", "search_result_pairs", "search_result_init_cases", "error_handler_init_cases",
              "sidecar_for_cases", "sidecar_dir_cases"):
    globals()[_name] = _labelled(globals()[_name])
