"""C20 helper - part 'fine': onsets with many decimals, rows sharing a time point at a process start, and several
ongoing processes with textually identical content.

A history is {"clock": <name>, "rows": [[gap, cell], ...]}.  The clock gives a grid of onset TEXTS as BIDS files have
them (sample index / 300 Hz printed with 10 decimals, / 1024 Hz, 1e-7 steps, one-decimal values whose float sums are
inexact); the gap of a row says where it is relative to the row before:
    "="   exactly the same onset text            "~"   1e-10 later  (below the documented 1e-9: the same time point)
    ">"   1e-7 later (a different time point)    "+" / "++"   the next / next but one grid point
Cells (no Delay in this part): a plain row, Duration groups of 3 s / 1 s / 0.2 s / 1500 ms that all have the content
(Red), a row with TWO Duration groups (1 s and 2 s) that both have the content (Blue), Onset groups of two definitions
with the same inner group (Green), an Onset without inner group, Offsets.  Every row also has its own Label/r<i>.

The expectation is computed from the property text with exact arithmetic on the onset texts (fractions.Fraction of the
decimal text) - never with floats: time points = maximal runs of rows whose onsets are equal (or closer than the
documented 1e-9, the generator only produces 0 / n*1e-10 / >= 1e-7); a process is in the context of a time point T iff
it started at a time point strictly before T and T is strictly before its end (next Onset/Offset of the name; start +
duration); contexts and the Event-context group are compared as MULTISETS of entries: one entry per ongoing process.
"""
import itertools
import random
import re
from collections import Counter
from decimal import Decimal
from fractions import Fraction

TOL = Fraction(1, 10 ** 9)       # hed/models/df_util.py: "the same (or close enough) onset", tol = 1e-9
CLEAR = Fraction(1, 10 ** 7)     # the generator keeps every other distance at or above this

FINE_DEFS = ["(Definition/Aa, (Red))", "(Definition/Bb, (Red))"]

L_COUNT = "C20.context.one_entry_per_ongoing_process"
L_BOUNDARY = "C20.duration.end_exactly_at_a_time_point_decimal_onsets"


def _fmt(d):
    return format(d, "f")


def _grid(base, steps):
    return [_fmt(Decimal(base) + Decimal(s)) for s in steps]


_HALF = ["0", "0.5", "1", "1.5", "2", "2.5", "3", "3.5", "4", "4.5", "5", "5.5", "6"]
CLOCKS = {
    # sample 100, 250, 400, ... of a 300 Hz recording, 10 decimals
    "300Hz": _grid("0.3333333333", _HALF),
    # samples 100, 217, 391, ... of a 300 Hz recording (no duration of the alphabet ends on a row)
    "300Hz irregular": [_fmt((Decimal(k) / Decimal(300)).quantize(Decimal("0.0000000001")))
                        for k in (100, 217, 391, 640, 1003, 1311, 1600, 1999, 2400, 2801, 3333, 4000, 4444)],
    # samples 1, 513, 1025, ... of a 1024 Hz recording (exact in binary too)
    "1024Hz": _grid("0.0009765625", _HALF),
    "1e-7": _grid("12.0000001", _HALF),
    # one decimal: 0.1 + 0.2 and the like are not exact in binary floating point
    "decimal": ["0.1", "0.3", "0.6", "0.7", "1.1", "1.3", "1.6", "2.1", "2.3", "3.1", "3.3", "4.1", "5.1"],
}
CLOCK_NAMES = list(CLOCKS)

CELLS = {
    "P": (),
    "D3R": (("dur", "3 s", "(Red)"),),
    "D1R": (("dur", "1 s", "(Red)"),),
    "D02R": (("dur", "0.2 s", "(Red)"),),
    "DmsR": (("dur", "1500 ms", "(Red)"),),
    "DD": (("dur", "1 s", "(Blue)"), ("dur", "2 s", "(Blue)")),
    "OnA": (("on", "Aa", "(Green)"),),
    "OnB": (("on", "Bb", "(Green)"),),
    "OnA0": (("on", "aa", None),),
    "OffA": (("off", "AA"),),
    "OffB": (("off", "Bb"),),
}
ALPHABET = list(CELLS)
IDENT = ["P", "D3R", "D1R", "DmsR", "DD", "OnA", "OnB"]          # contents repeat: (Red) x3, (Blue) x2, (Green) x2
GAPS = ["=", "~", ">", "+", "++"]
UNIT = {"s": Fraction(1), "ms": Fraction(1, 1000)}               # default unit of Duration: seconds


def seconds(text):
    num, unit = text.split()
    return Fraction(Decimal(num)) * UNIT[unit]


def onset_texts(hist):
    grid = CLOCKS[hist["clock"]]
    out = []
    for i, (gap, _) in enumerate(hist["rows"]):
        if i == 0:
            out.append(grid[0])
            continue
        prev = Decimal(out[-1])
        if gap == "=":
            out.append(out[-1])
        elif gap == "~":
            out.append(_fmt(prev + Decimal("0.0000000001")))
        elif gap == ">":
            out.append(_fmt(prev + Decimal("0.0000001")))
        else:
            later = [g for g in grid if Decimal(g) > prev + Decimal("0.000001")]
            out.append(later[1 if gap == "++" else 0])
    return out


def group_text(atom):
    if atom[0] == "dur":
        return f"(Duration/{atom[1]}, {atom[2]})"
    if atom[0] == "on":
        return f"(Def/{atom[1]}, Onset, {atom[2]})" if atom[2] else f"(Def/{atom[1]}, Onset)"
    return f"(Def/{atom[1]}, Offset)"


def content_text(atom):
    """the process content: the group without its Onset / Duration tag (a lone Def tag loses the group)"""
    if atom[0] == "dur":
        return f"({atom[2]})"
    return f"(Def/{atom[1]},{atom[2]})" if atom[2] else f"Def/{atom[1]}"


def file_of(hist):
    """[(onset text, HED text)]"""
    out = []
    for i, (t, (_, cell)) in enumerate(zip(onset_texts(hist), hist["rows"])):
        groups = [group_text(a) for a in CELLS[cell]]
        plain = f"Label/r{i}"
        out.append((t, ", ".join(groups + [plain] if i % 2 == 0 else [plain] + groups)))
    return out


def spec(hist):
    """-> None (not a valid / not a clearly separated file) or
    {"points": [[row, ...], ...], "started": [Counter], "context": [Counter], "boundary": [Counter], "plain": [[label]]}"""
    texts = onset_texts(hist)
    vals = [Fraction(Decimal(t)) for t in texts]
    points = []                                    # [anchor value, [rows]]
    for i, v in enumerate(vals):
        if points and v - points[-1][0] <= TOL:
            if v - points[-1][0] > TOL / 2:
                return None
            points[-1][1].append(i)
        else:
            if points and v - points[-1][0] < CLEAR:
                return None
            points.append([v, [i]])
    anchors = [p[0] for p in points]
    procs = []                                     # (content, start point, end value or None, is duration)
    opened = set()
    marks = []                                     # (point, name) of every Onset / Offset
    for j, (_, idx) in enumerate(points):
        atoms = [a for i in idx for a in CELLS[hist["rows"][i][1]]]
        gtexts = [group_text(a) for a in atoms]
        if len(set(gtexts)) != len(gtexts):
            return None                            # the same group twice at one time point is not valid HED
        names = [a[1].casefold() for a in atoms if a[0] in ("on", "off")]
        if len(set(names)) != len(names):
            return None
        for a in atoms:
            if a[0] == "on":
                opened.add(a[1].casefold())
            elif a[0] == "off":
                if a[1].casefold() not in opened:
                    return None
                opened.discard(a[1].casefold())
            if a[0] in ("on", "off"):
                marks.append((j, a[1].casefold()))
    for j, (_, idx) in enumerate(points):
        for i in idx:
            for a in CELLS[hist["rows"][i][1]]:
                if a[0] == "dur":
                    end = anchors[j] + seconds(a[1])
                    if any(end != t and abs(end - t) < CLEAR for t in anchors):
                        return None
                    procs.append((content_text(a), j, end, True))
                elif a[0] == "on":
                    later = [k for k, n in marks if n == a[1].casefold() and k > j]
                    procs.append((content_text(a), j, anchors[min(later)] if later else None, False))
    out = {"points": [p[1] for p in points], "started": [], "context": [], "boundary": [], "plain": []}
    for j, (t, idx) in enumerate(points):
        out["started"].append(Counter(p[0] for p in procs if p[1] == j))
        out["context"].append(Counter(p[0] for p in procs if anchors[p[1]] < t and (p[2] is None or t < p[2])))
        out["boundary"].append(Counter(p[0] for p in procs if p[3] and anchors[p[1]] < t and p[2] == t))
        out["plain"].append(sorted(f"Label/r{i}" for i in idx))
    return out


# ----------------------------------------------------------------------------------------------------------------
def entries(text):
    """top-level comma separated entries of a HED text, blanks removed"""
    out, depth, cur = [], 0, []
    for ch in (text or ""):
        if ch == "(":
            depth += 1
        elif ch == ")":
            depth -= 1
        if ch == "," and depth == 0:
            out.append("".join(cur))
            cur = []
        elif not ch.isspace():
            cur.append(ch)
    out.append("".join(cur))
    return [e for e in out if e]


_ROW = re.compile(r"Label/r\d+")
_TEMPORAL = re.compile(r"(?i)(?<![\w/-])(Onset|Offset|Duration/|Delay/)")
_state = {}


def _dd(schema):
    if "dd" not in _state:
        from hed.models import DefinitionDict
        _state["dd"] = DefinitionDict(FINE_DEFS, schema)
    return _state["dd"]


def _c(counter):
    return dict(sorted(counter.items()))


def _kind(a, b):
    diff = (a - b) + (b - a)
    return "onset" if any("Def/" in k for k in diff) else "duration"


def check_fine(hist, schema):
    """-> list of (clause, observed, expected); [] also for histories that are not judged (spec is None)"""
    import pandas as pd
    from hed.models import TabularInput
    from hed.tools.analysis.event_manager import EventManager
    from hed.tools.analysis.hed_tag_manager import HedTagManager
    sp = spec(hist)
    if sp is None:
        return []
    rows = file_of(hist)
    fails = []
    try:
        df = pd.DataFrame({"onset": [t for t, _ in rows], "HED": [h for _, h in rows]})
        em = EventManager(TabularInput(df, name="c20fine"), schema, extra_defs=_dd(schema))
        onsets = [float(x) for x in em.onsets]
        base, ctxs, heds = list(em.base), list(em.contexts), [str(h) for h in em.hed_strings]
    except Exception as e:  # noqa
        return [("C20.total.valid_file_is_processed", f"{type(e).__name__}: {str(e)[:200]}", "no exception")]
    n = len(rows)
    if not (len(base) == len(ctxs) == len(heds) == len(onsets) == n == len(em.event_list)):
        return [("C20.entries.same_length", [len(base), len(ctxs), len(heds), len(onsets)], n)]
    if onsets != [float(t) for t, _ in rows]:
        return [("C20.entries.time_order_and_points", onsets, [t for t, _ in rows])]

    def judge_context(where, got, j, later_row=False):
        want = sp["context"][j]
        if got == want:
            return True
        extra, missing = got - want, want - got
        if not missing and not (extra - sp["boundary"][j]):
            label = L_BOUNDARY
        elif later_row:
            if got == Counter(entries(ctxs[sp["points"][j][0]])):
                return False              # the same as the first row of the time point, reported there
            label = "C20.equal_onset.later_rows_have_the_time_points_context"
        elif set(got) == set(want):
            label = L_COUNT
        else:
            label = f"C20.context.{_kind(got, want)}_processes_started_earlier_not_ended"
        fails.append((label, dict(where, context=_c(got)), {"time point": rows[sp["points"][j][0]][0], "context": _c(want)}))
        return False

    for j, idx in enumerate(sp["points"]):
        t = rows[idx[0]][0]
        got = Counter(e for i in idx for e in entries(base[i]))
        if got != sp["started"][j]:
            fails.append((f"C20.base.{_kind(got, sp['started'][j])}_process_listed_at_its_start_point",
                          {"time": t, "base": _c(got)}, {"time": t, "base": _c(sp["started"][j])}))
        judge_context({"time": t, "entry": idx[0]}, Counter(entries(ctxs[idx[0]])), j)
        for i in idx[1:]:
            if not judge_context({"time": rows[i][0], "entry": i}, Counter(entries(ctxs[i])), j, later_row=True):
                break
        plain = sorted(x for i in idx for x in _ROW.findall(heds[i]))
        if plain != sp["plain"][j]:
            fails.append(("C20.remaining.annotation_kept", {"time": t, "rows": plain}, {"time": t, "rows": sp["plain"][j]}))
    left = [h for h in heds if _TEMPORAL.search(h)]
    if left:
        fails.append(("C20.remaining.without_temporal_groups", left, []))
    bad = [s for s in base + ctxs if re.search(r"(?i)(?<![\w/-])(Onset|Offset|Duration/)", s)]
    if bad:
        fails.append(("C20.process.content_without_onset_or_duration_tag", bad, []))
    # the unfolded strings and the Event-context group of the tag manager: one entry per ongoing process as well
    try:
        tm = HedTagManager(em)
        objs = tm.get_hed_objs(include_context=True)
        if not (len(objs) == len(tm.context_strings) == len(tm.base_strings) == n):
            fails.append(("C20.tagmanager.agrees_with_event_manager", [len(objs), len(tm.context_strings)], n))
            return fails
        for i in range(n):
            text = str(objs[i]) if objs[i] else ""
            inside = ""
            m = re.search(r"\(Event-context,\((.*)\)\)$", text)
            if m:
                inside, text = m.group(1), text[:m.start()]
            got_in, got_cs = Counter(entries(inside)), Counter(entries(tm.context_strings[i]))
            em_ctx = Counter(entries(ctxs[i]))
            if got_in != em_ctx or got_cs != em_ctx:
                label = L_COUNT if set(got_in) == set(em_ctx) == set(got_cs) else "C20.tagmanager.agrees_with_event_manager"
                fails.append((label, {"entry": i, "Event-context": _c(got_in), "context_strings": _c(got_cs)},
                              {"event manager context": _c(em_ctx)}))
                break
            want_rest = Counter(entries(heds[i])) + Counter(entries(base[i]))
            if Counter(entries(text)) != want_rest or Counter(entries(tm.base_strings[i])) != Counter(entries(base[i])):
                fails.append(("C20.tagmanager.agrees_with_event_manager",
                              {"entry": i, "obj": str(objs[i]), "base_strings": tm.base_strings[i]},
                              {"hed": heds[i], "base": base[i]}))
                break
    except Exception as e:  # noqa
        fails.append(("C20.tagmanager.agrees_with_event_manager", f"{type(e).__name__}: {str(e)[:200]}", "no exception"))
    return fails


# ----------------------------------------------------------------------------------------------------------------
def gen_fine(quick, seed=0):
    """all two-row histories (every clock in the thorough tier, two rotating clocks each in the quick tier), and seeded
    samples of the three- to five-row histories over the full alphabet and over the identical-content alphabet;
    only histories that are valid files are yielded"""
    rng = random.Random(f"c20fine/{seed}")
    seen = set()

    def emit(clock, cells, gaps):
        hist = {"clock": clock, "rows": [["", cells[0]]] + [[g, c] for g, c in zip(gaps, cells[1:])]}
        key = (clock, tuple(cells), tuple(gaps))
        if key in seen or spec(hist) is None:
            return None
        seen.add(key)
        return hist

    no = 0
    for cells in itertools.product(ALPHABET, repeat=2):
        for gap in GAPS:
            no += 1
            for c in (CLOCK_NAMES if not quick else [CLOCK_NAMES[no % 5], CLOCK_NAMES[(no + 2) % 5]]):
                h = emit(c, cells, (gap,))
                if h:
                    yield h
    plan = [(ALPHABET, 3, 1000), (IDENT, 3, 450), (ALPHABET, 4, 350), (IDENT, 4, 250), (ALPHABET, 5, 120)] if quick else \
        [(ALPHABET, 3, 30000), (IDENT, 3, 8000), (ALPHABET, 4, 12000), (IDENT, 4, 8000), (ALPHABET, 5, 4000), (IDENT, 5, 2000)]
    for alpha, n, want in plan:
        got = tries = 0
        while got < want and tries < want * 8:
            tries += 1
            cells = [rng.choice(alpha) for _ in range(n)]
            gaps = [rng.choice(GAPS) for _ in range(n - 1)]
            h = emit(CLOCK_NAMES[tries % 5], cells, gaps)
            if h:
                got += 1
                yield h


def nontrivial(hist):
    return any(CELLS[c] and CELLS[c][0][0] in ("on", "dur") for _, c in hist["rows"])


def describe(hist):
    sp = spec(hist)
    overlap = max((max(c.values()) for c in sp["context"] if c), default=0) if sp else 0
    shared = any(len(idx) > 1 and sp["started"][j] for j, idx in enumerate(sp["points"])) if sp else False
    return {"identical_ongoing": overlap > 1, "rows_share_start_point": shared}
