"""Case generators (real objects of /repo) for the concrete cross-check of part `tags`.  See tools/MODEL_XCHECK_BRIEF.md.

Every case carries an 'origin' string first (so that it heads a recorded failing input); the adapters of rt/xadapt_tags.py drop it."""
import copy
import itertools

from rt.common import schema
from rt.xadapt_tags import TagP

_cache = {}


def _sch(version):
    return schema(version)


def _group():
    """base 8.3.0 under '', score 1.1.0 under 'sc:', testlib 3.0.0 under 'tl:' (three structurally different schemas)"""
    if "group" not in _cache:
        from hed.schema.hed_schema_group import HedSchemaGroup
        _cache["group"] = HedSchemaGroup([_sch("8.3.0"), _sch("sc:score_1.1.0"), _sch("tl:testlib_3.0.0")])
    return _cache["group"]


def _group2():
    if "group2" not in _cache:
        from hed.schema.hed_schema_group import HedSchemaGroup
        _cache["group2"] = HedSchemaGroup([_sch("ab:8.2.0"), _sch("sc:score_1.1.0")])       # no unprefixed schema
    return _cache["group2"]


def _schemas():
    return [("8.3.0", _sch("8.3.0")), ("8.0.0", _sch("8.0.0")), ("score_1.1.0", _sch("score_1.1.0")),
            ("sc:score_1.1.0", _sch("sc:score_1.1.0")), ("group['',sc:,tl:]", _group()), ("group[ab:,sc:]", _group2())]


# hand-written texts: every kind of HedTag the validators meet
TEXTS = [
    # plain known tags, short / long / partial-long / odd case
    "Red", "red", "RED", "Event/Sensory-event", "Sensory-event", "Property/Sensory-property/Sensory-attribute/Visual-attribute/Color/CSS-color/Red-color/Red",
    "CSS-color/Red-color/Red", "Item", "Action", "Event", "Agent-action",
    # value-taking nodes: with value, with placeholder, without value, with unit, odd characters in the value
    "Label/abc", "Label/#", "Label", "label/ABC", "Duration/3 s", "Duration/#", "Duration", "Delay/5 ms", "Delay", "Age/30", "Age/#", "Age",
    "Label/a#b", "Label/##", "Label/#x#", "Label/a b", "Label/a$b", "Label/é", "Label/a/b", "Label/a/#", "Temperature/#",
    "Informational-property/Label/x", "ID/#", "Creation-date/2024-01-01T10:00:00",
    # requireChild / definitions
    "Definition/Name", "Definition/Name/#", "Definition/#", "Definition", "Def/Name", "Def/Name/3", "Def", "Def-expand/Name", "Def-expand",
    "Def/#", "definition/x", "Organizational-property/Definition",
    # deprecated (8.3.0)
    "Gentalia", "Clock-face", "Clock-face/3", "Clock-face/#", "Body-part/Torso-part/Gentalia",
    # extension: allowed / forbidden / placeholder in extension / nested / extension that names an existing node
    "Red/Dark", "Red/#", "Red/a#", "Item/Widget", "Item/Widget/Small", "Item/#", "Action/Hop/#x", "Event/Bogus", "Sensory-event/Bogus", "Event/#",
    "Agent-action/Ext", "Item/Red", "Red/Blue", "Item/Object/Geometric-object/Bogus", "Object/Widget", "Item/Wid get", "Item/wIDGET",
    # placement attributes
    "Onset", "Offset", "Inset", "Event-context", "Onset/x",
    # unknown
    "Bogus", "Bogus/More", "Bogus/#", "#", "", "/", "Red/", "/Red", "Label/", "Red//Dark", "   ", "{col}", "Red-color/red",
    # namespaces
    "sc:Red", "sc:Label/x", "sc:Label/#", "sc:Definition", "sc:Item/Widget", "sc:Item/#", "sc:Bogus", "tl:Red", "tl:Label/y", "ab:Red", "ab:Event/Bogus/#",
    "xx:Red", "1a:Red", "a1:Red", ":Red", "s c:Red", "é:Red", "sc:", "sc::Red", "Red/sc:x", "A:b:c", "sc:Sleep-modulator", "Sleep-modulator",
    "sc:Gentalia", "tl:Gentalia", "sc:Clock-face/#", "SC:Red", "sc:red/#",
    # case folding / non-ASCII
    "Straße", "Label/Straße", "Item/Ǆx", "İtem",
]


def _make(text, sch, span=None):
    from hed.models.hed_tag import HedTag
    return HedTag(text, sch, span)


def _attr_texts(sch, attr, n):
    """some tags of the schema that carry attr (short form, long form, with a child)"""
    out = []
    for e in sch.tags.all_entries:
        if attr in e.attributes and len(out) < n:
            name = e.name
            if name.endswith("/#"):
                out += [e.short_tag_name + "/5", name]
            else:
                out += [e.short_tag_name, name, e.short_tag_name + "/zz"]
    return out


def tag_pool(tier):
    """[(origin, real HedTag)]: hand-written texts under several schemas, tags picked by attribute, tags cut out of a longer
    string (span), tags with a rewritten text (_tag), tags whose placeholder was replaced (text layout no longer holds)"""
    key = ("pool", tier)
    if key in _cache:
        return _cache[key]
    from hed.models.hed_string import HedString
    pool = []
    seen = set()

    def add(origin, tag):
        pool.append((origin, tag))

    schemas = _schemas()
    for name, sch in schemas:
        texts = list(TEXTS)
        if name in ("8.3.0", "8.0.0") or tier != "quick":
            base = sch if not hasattr(sch, "_schemas") else None
            if base is not None:
                for attr in ("requireChild", "deprecatedFrom", "extensionAllowed", "takesValue", "tagGroup", "topLevelTagGroup"):
                    texts += _attr_texts(base, attr, 3 if tier == "quick" else 12)
        if tier == "quick" and name not in ("8.3.0", "group['',sc:,tl:]"):
            texts = texts[::3]
        for t in texts:
            if (name, t) in seen:
                continue
            seen.add((name, t))
            add(f"HedTag({t!r}, {name})", _make(t, sch))
    s83 = _sch("8.3.0")
    # tags as the parser makes them: a span of a longer string
    for text in ["Red, (Label/a#b, Item/Widget), Definition/X/#", " red ,Bogus/#,(Def/N, Onset)", "sc:Red, tl:Label/#, Duration/# s"]:
        for sname, sch in (("8.3.0", s83), ("group['',sc:,tl:]", _group())):
            hs = HedString(text, sch)
            for k, t in enumerate(hs.get_all_tags()):
                add(f"HedString({text!r}, {sname}).get_all_tags()[{k}]", t)
    # rewritten text (tag setter: _tag)
    for t, new in [("Red", "Property/Sensory-property/Sensory-attribute/Visual-attribute/Color/CSS-color/Blue-color/Blue"), ("Label/x", "Label/y#"),
                   ("Item/Widget", "Bogus/Thing"), ("Bogus", "Item/#")]:
        tag = _make(t, s83)
        tag.tag = new
        add(f"HedTag({t!r}, 8.3.0) then .tag = {new!r}", tag)
    # placeholder replaced: the value no longer is the tail of the text (HEDTAG_LAYOUT does not hold)
    for t, v in [("Label/#", "abc"), ("Duration/# s", "12"), ("Def/Name/#", "3"), ("Bogus/#", "q")]:
        tag = _make(t, s83)
        tag.replace_placeholder(v)
        add(f"HedTag({t!r}, 8.3.0).replace_placeholder({v!r})", tag)
    # node swapped under the text (short_base_tag setter: Def <-> Def-expand; an unknown name leaves a value without a node)
    for t, new in [("Def/Name", "Def-expand"), ("Def-expand/Name", "Def"), ("Red", "Blue"), ("Label/x", "Nonexistent"), ("Duration/3 s", "Delay")]:
        tag = _make(t, s83)
        tag.short_base_tag = new
        add(f"HedTag({t!r}, 8.3.0) then .short_base_tag = {new!r}", tag)
    # column prefix prepended: the text has no base part of its own
    for t, new in [("x", "Label/x"), ("3", "Duration/3 s")]:
        tag = _make(t, s83)
        tag.tag = new
        add(f"HedTag({t!r}, 8.3.0) then .tag = {new!r}", tag)
    _cache[key] = pool
    return pool


# ------------------------------------------------------------------------------------------------ C04.tag_eq
def tag_eq_cases(tier):
    s83 = _sch("8.3.0")
    g = _group()
    texts = ["Red", "red", "CSS-color/Red-color/Red", "Property/Sensory-property/Sensory-attribute/Visual-attribute/Color/CSS-color/Red-color/Red",
             "Blue", "Label/x", "Label/X", "label/x", "Informational-property/Label/x", "Label/y", "Label/#", "Item/Widget", "item/widget",
             "Object/Widget", "Bogus", "bogus", "BOGUS/x", "Bogus/x", "", "Red/Dark", "Red-color/Red/Dark", "Straße", "STRASSE", "Label/Straße", "label/strasse"]
    tags = [(f"HedTag({t!r}, 8.3.0)", _make(t, s83)) for t in texts]
    tags += [(f"HedTag({t!r}, group)", _make(t, g)) for t in ["sc:Red", "SC:red", "sc:Visual-attribute/Color/CSS-color/Red-color/Red", "tl:Red", "Red", "sc:Bogus", "xx:Red"]]
    t = _make("Red", s83)
    t.tag = "Blue"          # org_tag stays 'Red', short form is now Blue
    tags.append(("HedTag('Red', 8.3.0) then .tag='Blue'", t))
    t = _make("Label/#", s83)
    t.replace_placeholder("x")
    tags.append(("HedTag('Label/#', 8.3.0).replace_placeholder('x')", t))
    if tier == "quick":
        tags = tags[::2] + tags[1:8:2]
    for (oa, a), (ob, b) in itertools.product(tags, repeat=2):
        yield {"origin": f"{oa} == {ob}", "self": a, "other": b}
    for oa, a in tags:                       # a distinct but identical twin
        yield {"origin": f"{oa} == copy", "self": a, "other": a.copy()}


# ------------------------------------------------------------------------------------------------ C13.set_schema_prefix
def set_prefix_cases(tier):
    base = _sch("8.3.0")
    alpha = ["a", "Z", ":", "1", " ", "é", "_"]
    n = 3 if tier == "quick" else 4
    extra = ["sc:", "sc", "score:", "abc::", ":sc", "s:c", "ß", "á", "Ⅷ", "²", "a-b", "a.b:", "\t", "ａ"]
    words = ["".join(t) for ln in range(n + 1) for t in itertools.product(alpha, repeat=ln)] + extra
    from pyvc import contract as C
    from rt.conc import spec_eval, spec_namespace
    let_body = C.CONTRACTS["C13.set_schema_prefix"].lets["body"]
    for w in words:
        s = copy.copy(base)                   # shallow: set_schema_prefix only assigns self._namespace
        s._namespace = "zz:"                   # a stale value: the postcondition must speak about the new one
        # rt/conc.py evaluates the `raises` conditions without the contract's lets: the let `body` (the contract's own text,
        # evaluated here) is handed in as an extra name of the case; the adapter drops it before the call
        env = dict(spec_namespace())
        env["schema_namespace"] = w
        yield {"origin": f"copy(8.3.0).set_schema_prefix({w!r})", "self": s, "schema_namespace": w, "body": spec_eval(let_body, env)}


# ------------------------------------------------------------------------------------------------ C01 per-tag rules
def one_tag_cases(tier):
    for origin, tag in tag_pool(tier):
        yield {"origin": origin, "original_tag": tag}


def deprecated_cases(tier):
    from hed.validator.util.tag_util import TagValidator
    me = TagValidator()
    for origin, tag in tag_pool(tier):
        yield {"origin": origin, "self": me, "original_tag": tag}


def placeholder_cases(tier):
    for origin, tag in tag_pool(tier):
        for d in (False, True):
            yield {"origin": origin, "original_tag": tag, "is_definition": d}


def individual_cases(tier):
    from hed.validator.util.tag_util import TagValidator
    me = TagValidator()
    for origin, tag in tag_pool(tier):
        for ap in (False, True):
            for d in (False, True):
                yield {"origin": origin, "self": me, "original_tag": tag, "allow_placeholders": ap, "is_definition": d}


def invalid_chars_cases(tier):
    """the two real call shapes (base part at 0 with TAG_ALLOWED_CHARS [+ '#'], extension after the base with the value characters,
    also a sub-range of the extension with an offset and an overriding code), plus arbitrary windows the precondition admits"""
    from hed.validator.util.char_util import CharValidator as CV
    base_allowed = CV.TAG_ALLOWED_CHARS
    ext_allowed = CV.TAG_ALLOWED_CHARS + CV.DEFAULT_ALLOWED_PLACEHOLDER_CHARS + " "
    pool = tag_pool(tier)
    if tier == "quick":
        pool = pool[::4]
    for origin, tag in pool:
        text = tag.tag
        yield {"origin": origin + " base", "check_string": tag.org_base_tag, "allowed_chars": base_allowed, "source_tag": tag, "starting_index": 0, "error_code": None}
        yield {"origin": origin + " base+#", "check_string": tag.org_base_tag, "allowed_chars": base_allowed + "#", "source_tag": tag, "starting_index": 0, "error_code": None}
        ext = tag.extension
        start = len(tag.org_base_tag) + 1
        yield {"origin": origin + " ext", "check_string": ext, "allowed_chars": ext_allowed, "source_tag": tag, "starting_index": start, "error_code": None}
        if len(ext) > 1:
            yield {"origin": origin + " ext[1:]", "check_string": ext[1:], "allowed_chars": ext_allowed, "source_tag": tag, "starting_index": start + 1,
                   "error_code": "DEF_INVALID"}
        for allowed in ("", "/", "#$ "):
            yield {"origin": origin + f" whole allowed={allowed!r}", "check_string": text, "allowed_chars": allowed, "source_tag": tag, "starting_index": 0,
                   "error_code": ""}
        if len(text) >= 2:       # a window that is NOT the text at that position (the contract does not require it to be)
            yield {"origin": origin + " foreign", "check_string": "$:é" [:len(text) - 1], "allowed_chars": "-", "source_tag": tag, "starting_index": 1, "error_code": "X"}
        yield {"origin": origin + " too long", "check_string": text + "$", "allowed_chars": "", "source_tag": tag, "starting_index": 0, "error_code": None}   # pre false
        yield {"origin": origin + " negative", "check_string": "", "allowed_chars": "", "source_tag": tag, "starting_index": -1, "error_code": None}          # pre false


def tag_level_cases(tier):
    s83 = _sch("8.3.0")
    g = _group()
    texts = ["Red", "Definition/X", "Definition/X/#", "Onset", "Offset", "Inset", "Delay/3 s", "Duration/3 s", "Event-context", "Def/X", "Def-expand/X",
             "Def-expand", "Bogus", "Onset/x", "Label/q", "Duration", "Item/Widget"]
    tags = [(t, _make(t, s83)) for t in texts] + [(t, _make(t, g)) for t in ["sc:Onset", "sc:Definition/Y", "sc:Red", "tl:Def-expand/Z", "xx:Onset"]]
    lists = [[]] + [[a] for a in tags]
    pairs = list(itertools.combinations(tags, 2))
    lists += [list(p) for p in (pairs if tier != "quick" else pairs[::4])]
    lists += [[a, a] for a in tags[:10]]                 # the same tag twice (duplicate top-level tags)
    triples = [["Delay/3 s", "Onset", "Red"], ["Delay/3 s", "Onset", "Offset"], ["Delay/3 s", "Duration/3 s", "Def-expand/X"],
               ["Definition/X", "Red", "Bogus"], ["Red", "Label/q", "Bogus"], ["Onset", "Def/X", "Red"]]
    d = dict(tags)
    lists += [[(t, d[t]) for t in tr] for tr in triples]
    for lst in lists:
        for top in (False, True):
            for grp in (False, True):
                yield {"origin": f"{[t for t, _ in lst]} top={top} group={grp}", "original_tag_list": [x for _, x in lst], "is_top_level": top, "is_group": grp}


# ------------------------------------------------------------------------------------------------ C13.check_invalid_prefix_issues
def prefix_cases(tier):
    s83 = _sch("8.3.0")
    g = _group()
    heads = ["", "sc:", "tl:", "xx:", "a:", "1:", "a1:", "1a:", ":", "::", "s c:", " sc:", "é:", "ß:", "a-b:", "a_b:", "Ab:", "a.:", "²:", "ａ:", "abcdefgh:",
             "a:b:", "#:", "/:", "a/:", "(:"]
    tails = ["Red", "Label/x", "Bogus", "", "Red/a:b"]
    for h in heads:
        for t in tails:
            for sname, sch in (("8.3.0", s83), ("group", g)):
                yield {"origin": f"HedTag({h + t!r}, {sname})", "original_tag": _make(h + t, sch)}
    for origin, tag in tag_pool(tier)[:: (3 if tier == "quick" else 1)]:
        yield {"origin": origin, "original_tag": tag}


# ------------------------------------------------------------------------------------------------ C03 / C13 resolution
class _NoSchema:
    """a schema that resolves nothing: HedTag(text, _NoSchema()) is the state in which HedTag.__init__ (and the tag setter)
    hands the tag to find_tag_entry - no entry yet, str(tag) is the text as written"""
    def find_tag_entry(self, tag, schema_namespace=""):
        return None, None, []


RESOLVE_TEXTS = TEXTS + [
    "Item/Object/Man-made-object/Device/IO-device/Input-device/Computer-mouse", "Computer-mouse/Mouse-button", "Object/Man-made-object/Vehicle/Car/Widget",
    "Event/Sensory-event/Red", "Label/Red", "Item/Ext/Red", "Item/Ext/More/Event", "Duration/Label", "Duration/3 s/Red", "Agent-action/Red/x",
    "Red/Dark/#", "Label/#/x", "Label/#/#", "Item/#/Red", "EVENT/SENSORY-EVENT", "event/sensory-EVENT/x", "Sensory-event/Event", "Event/Event",
    "Red-color/Red", "Red-color/Blue", "CSS-color/Red", "Color/Red", "Property/Red", "Item//Object", "Item/", "/Item", "Item/ Object", " Item",
    "Label/ﬁx", "Straße/x", "İtem/x", "Item/İ",
]


def _unresolved(text, setter=False):
    from hed.models.hed_tag import HedTag
    if setter:
        t = HedTag("zz", _NoSchema())
        t._tag = text             # what the tag setter does before resolving again
        t._schema_entry = None
        return t
    return HedTag(text, _NoSchema())


def find_tag_entry_cases(tier):
    """HedSchema._find_tag_entry(tag, ns): tags in the state of the real call sites (unresolved; written text or rewritten text),
    a few already resolved tags (re-resolution: admitted only when str(tag) is the text), every schema, the schema's own
    namespace and foreign ones (the private function does not check the namespace: it cuts len(ns) characters)"""
    schemas = [("8.3.0", _sch("8.3.0")), ("sc:score_1.1.0", _sch("sc:score_1.1.0")), ("8.0.0", _sch("8.0.0")), ("tl:testlib_3.0.0", _sch("tl:testlib_3.0.0"))]
    for sname, sch in schemas:
        own = sch._namespace
        texts = RESOLVE_TEXTS if (tier != "quick" or sname == "8.3.0") else RESOLVE_TEXTS[::4]
        for text in texts:
            nss = [own]
            if text.startswith(("sc:", "tl:", "xx:", "ab:")) and text[:3] != own:
                nss.append(text[:3])
            if tier != "quick" or len(text) % 5 == 0:
                nss += [x for x in ("", "Item/", "q") if x not in nss]
            for ns in nss:
                full = text if (ns == "" or text.startswith(ns)) else ns + text
                tag = _unresolved(full)
                yield {"origin": f"{sname}._find_tag_entry(unresolved {full!r}, {ns!r})", "self": sch, "tag": TagP(tag, "unresolved"), "schema_namespace": ns}
        for text in texts[::7]:
            full = own + text
            yield {"origin": f"{sname}._find_tag_entry(rewritten-to {full!r}, {own!r})", "self": sch, "tag": TagP(_unresolved(full, setter=True), "rewritten"),
                   "schema_namespace": own}
            tag = _make(full, sch)
            yield {"origin": f"{sname}._find_tag_entry(resolved {full!r}, {own!r})", "self": sch, "tag": TagP(tag, "resolved"), "schema_namespace": own}


def find_sub_cases(tier):
    """HedSchema._find_tag_subfunction(tag, working_tag, adj): the real call shape (working_tag = case-folded text after the
    namespace, adj = len(ns)) and other windows the precondition admits (not folded, shorter than the text)"""
    schemas = [("8.3.0", _sch("8.3.0")), ("sc:score_1.1.0", _sch("sc:score_1.1.0")), ("8.0.0", _sch("8.0.0"))]
    for sname, sch in schemas:
        own = sch._namespace
        texts = RESOLVE_TEXTS if (tier != "quick" or sname == "8.3.0") else RESOLVE_TEXTS[::5]
        for text in texts:
            full = own + text
            tag = TagP(_unresolved(full), "unresolved")
            yield {"origin": f"{sname} real shape {full!r}", "self": sch, "tag": tag, "working_tag": text.casefold(), "prefix_tag_adj": len(own)}
            if text != text.casefold() and len(text.casefold()) == len(text):
                yield {"origin": f"{sname} not folded {full!r}", "self": sch, "tag": tag, "working_tag": text, "prefix_tag_adj": len(own)}
            if "/" in text:
                head = text.rsplit("/", 1)[0]
                yield {"origin": f"{sname} head of {full!r}", "self": sch, "tag": tag, "working_tag": head.casefold(), "prefix_tag_adj": 0}
                yield {"origin": f"{sname} with trailing slash {full!r}", "self": sch, "tag": tag, "working_tag": head.casefold() + "/", "prefix_tag_adj": 0}
        yield {"origin": f"{sname} too long", "self": sch, "tag": TagP(_unresolved("Red"), "unresolved"), "working_tag": "red/dark", "prefix_tag_adj": 0}  # pre false
        yield {"origin": f"{sname} negative", "self": sch, "tag": TagP(_unresolved("Red"), "unresolved"), "working_tag": "red", "prefix_tag_adj": -1}      # pre false


def schema_for_namespace_cases(tier):
    from hed.schema.hed_schema_group import HedSchemaGroup
    groups = [("group['',sc:,tl:]", _group()), ("group[ab:,sc:]", _group2()), ("group['']", HedSchemaGroup([_sch("8.3.0")])),
              ("group[sc:]", HedSchemaGroup([_sch("sc:score_1.1.0")])), ("load(['8.3.0','sc:score_1.0.0'])", _loaded_group())]
    names = ["", "sc:", "tl:", "ab:", "sc", "SC:", "Sc:", ":", "sc::", " sc:", "sc: ", "xx:", "score", "s", "c:", "tl", "8.3.0", "ſc:", "ſc:", "tı:"]
    for gname, g in groups:
        for n in names:
            yield {"origin": f"{gname}.schema_for_namespace({n!r})", "self": g, "namespace": n}


def _loaded_group():
    if "loaded" not in _cache:
        from hed.schema import load_schema_version
        _cache["loaded"] = load_schema_version(["8.3.0", "sc:score_1.0.0"])
    return _cache["loaded"]


def group_find_cases(tier):
    groups = [("group['',sc:,tl:]", _group()), ("group[ab:,sc:]", _group2()), ("load(['8.3.0','sc:score_1.0.0'])", _loaded_group())]
    texts = RESOLVE_TEXTS if tier != "quick" else RESOLVE_TEXTS[::2]
    for gname, g in groups:
        for text in texts:
            real_ns = _unresolved(text).schema_namespace
            nss = [real_ns]
            if tier != "quick" or len(text) % 4 == 0:
                nss += [x for x in ("", "sc:", "tl:", "xx:") if x not in nss and len(x) <= len(text)]
            for ns in nss:
                full = text if text.startswith(ns) else ns + text
                yield {"origin": f"{gname}.find_tag_entry(unresolved {full!r}, {ns!r})", "self": g, "tag": TagP(_unresolved(full), "unresolved"),
                       "schema_namespace": ns}
        for text in ["Red", "sc:Red", "Label/x", "sc:Item/Widget", "Bogus"]:
            tag = _make(text, g)
            yield {"origin": f"{gname}.find_tag_entry(resolved {text!r})", "self": g, "tag": TagP(tag, "resolved"), "schema_namespace": tag.schema_namespace}
