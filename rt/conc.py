"""Concrete (CPython) side of the contracts: run the *real* function of the working tree and evaluate the
same contract text.  Used for (a) replaying solver counterexamples, (b) bounded search for a failing input
when a proof obligation breaks, (c) the bounded stand-in (tier T3) and (d) cross-checking the encoder.

Runs under /venv/bin/python (editable install of /repo => the working tree).  Never counted as proof."""
import copy
import importlib
import importlib.util
import itertools
import json
import os
import sys
import traceback

VERIF = os.path.dirname(os.path.dirname(os.path.abspath(__file__)))
REPO = os.environ.get("HED_REPO", "/repo")
if VERIF not in sys.path:
    sys.path.insert(0, VERIF)
if REPO not in sys.path:
    sys.path.insert(0, REPO)

from pyvc import contract as C  # noqa: E402

_spec_ns = None


import ast


class _Lazy(ast.NodeTransformer):
    """implies(a, b) / iff(a, b) are connectives, not calls: evaluate them lazily like the SMT translation does"""

    def visit_Call(self, node):
        self.generic_visit(node)
        if isinstance(node.func, ast.Name) and node.func.id == "implies" and len(node.args) == 2:
            return ast.BoolOp(op=ast.Or(), values=[ast.UnaryOp(op=ast.Not(), operand=node.args[0]), node.args[1]])
        if isinstance(node.func, ast.Name) and node.func.id == "old" and len(node.args) == 1:
            # old(E): E read in the pre-state: every free name that the adapter snapshotted (__pre__) is taken from the snapshot
            return _PreNames().visit(node.args[0])
        return node


class _PreNames(ast.NodeTransformer):
    def visit_Name(self, node):
        if not isinstance(node.ctx, ast.Load):
            return node
        return ast.IfExp(test=ast.Compare(left=ast.Constant(node.id), ops=[ast.In()], comparators=[ast.Name("__pre__", ast.Load())]),
                         body=ast.Subscript(value=ast.Name("__pre__", ast.Load()), slice=ast.Constant(node.id), ctx=ast.Load()),
                         orelse=ast.Name(node.id, ast.Load()))


def compile_spec(text, mode="eval", filename="<contract>"):
    tree = ast.parse(text.strip() if mode == "eval" else text, mode=mode)
    tree = ast.fix_missing_locations(_Lazy().visit(tree))
    return compile(tree, filename, mode)


_compiled = {}


def spec_eval(text, env):
    if text not in _compiled:
        _compiled[text] = compile_spec(text)
    return eval(_compiled[text], env)


def spec_namespace():
    global _spec_ns
    if _spec_ns is None:
        ns = {}
        import glob
        for path in sorted(glob.glob(os.path.join(VERIF, "spec", "*.py"))):
            if path.endswith("__init__.py"):
                continue
            exec(compile_spec(open(path).read(), "exec", path), ns)
        views = os.path.join(VERIF, "rt", "views.py")      # concrete definitions of the abstract views the contracts name
        if os.path.exists(views):
            exec(compile(open(views).read(), views, "exec"), ns)
        _spec_ns = ns
    return _spec_ns


def load_contracts():
    import glob
    for path in sorted(glob.glob(os.path.join(VERIF, "contracts", "*.py"))):
        name = os.path.basename(path)[:-3]
        if name != "__init__":
            importlib.import_module("contracts." + name)
    C.apply_bounded_registry()


def real_function(ct):
    modname = ct.file[:-3].replace("/", ".")
    mod = importlib.import_module(modname)
    obj = mod
    for part in ct.func.split("."):
        obj = getattr(obj, part.split("#")[0])
    return obj


class Old:
    def __init__(self, env):
        self.env = env


def evaluate(ct, kwargs, adapter=None):
    """call the real function with kwargs; returns dict(outcome, result/exception, violated:[labels])"""
    ns = dict(spec_namespace())
    fn = real_function(ct)
    if ct.bounded and ct.bounded.get("share"):
        from rt.adapters import _wrap
        kwargs = {k: _wrap(v) for k, v in kwargs.items()}     # issue dicts readable as objects (the Issue class model)
        args = old = kwargs              # pure function whose contract speaks about object identity
    else:
        args = copy.deepcopy(kwargs)
        old = copy.deepcopy(kwargs)
    out = {"violated": [], "outcome": "return"}
    try:
        for r in ct.requires:
            env = dict(ns)
            env.update(args)
            if not spec_eval(r, env):
                out["outcome"] = "precondition-false"
                return out
    except Exception as e:  # a requires clause that cannot be evaluated concretely is not a failure of the code
        out["outcome"] = f"requires-not-evaluable: {type(e).__name__}"
        return out
    try:
        if adapter:
            result = adapter(fn, args)
        else:
            result = fn(**args)
        out["result"] = result
        pre = args.pop("__pre__", None) if isinstance(args, dict) else None
    except Exception as e:
        pre = args.pop("__pre__", None) if isinstance(args, dict) else None
        out["outcome"] = "raise"
        out["exception"] = type(e).__name__
        out["message"] = str(e)[:200]
        allowed = [x for x in ct.raises if x == type(e).__name__ or any(b.__name__ == x for b in type(e).__mro__)]
        if not allowed:
            out["violated"].append(f"raises:{type(e).__name__} escapes")
        else:
            cond = ct.raises[allowed[0]]
            if isinstance(cond, str) and cond != "True":
                text = cond[6:] if cond.startswith("maybe:") else cond
                env = dict(ns)
                env.update(old)
                env["old"] = lambda x: x
                env["__pre__"] = pre if pre is not None else {}
                for lbl, e_ in ct.lets.items():        # lets that speak about the entry state only are available to raises conditions
                    try:
                        env[lbl] = spec_eval(e_, dict(env))
                    except Exception:
                        pass
                try:
                    if not spec_eval(text, env):
                        out["violated"].append(f"raises:{allowed[0]} only-if")
                except Exception as e2:
                    out.setdefault("unevaluable", []).append(f"raises:{allowed[0]} only-if: {e2}")
        return out
    env = dict(ns)
    env.update(old)           # contracts speak about parameters at entry ...
    env["result"] = result
    env["old"] = lambda x: x
    env["__pre__"] = pre if pre is not None else {}      # adapter-chosen pre-state snapshots of mutated parameters (see old(E))
    env["now"] = args         # ... mutable arguments after the call are available as now['name']
    for exc, cond in ct.raises.items():
        if isinstance(cond, str) and cond != "True" and not cond.startswith("maybe"):
            env2 = dict(env)
            for lbl, e_ in ct.lets.items():
                try:
                    env2[lbl] = spec_eval(e_, dict(env2))
                except Exception:
                    pass
            try:
                if spec_eval(cond, env2):
                    out["violated"].append(f"raises:{exc} must-raise")
            except Exception:
                pass
    for lbl, e in ct.lets.items():
        try:
            env[lbl] = spec_eval(e, dict(env))
        except Exception as ex:
            out.setdefault("unevaluable", []).append(f"let {lbl}: {type(ex).__name__}: {ex}")
    for lbl, e in ct.ensures.items():
        if lbl.startswith("exc:"):
            continue
        try:
            ok = spec_eval(e, dict(env))
        except Exception as ex:
            out.setdefault("unevaluable", []).append(f"ensures:{lbl}: {type(ex).__name__}: {ex}")
            continue
        if not ok:
            out["violated"].append(f"ensures:{lbl}")
    return out


# ---------------------------------------------------------------------------- generators
def gen_values(desc, tier):
    """descriptor -> iterable of values.
       'str:<alphabet>:<quick len>:<thorough len>'   all strings up to the length
       'int:<lo>:<hi>'  'bool'  'choice:<json list>'  'liststr:<alphabet>:<maxlen>:<maxitems>'"""
    kind, _, rest = desc.partition(":")
    if kind == "str":
        alpha, q, t = rest.rsplit(":", 2)
        n = int(q if tier == "quick" else t)
        for ln in range(n + 1):
            for tup in itertools.product(alpha, repeat=ln):
                yield "".join(tup)
    elif kind == "int":
        lo, hi = rest.split(":")
        yield from range(int(lo), int(hi) + 1)
    elif kind == "bool":
        yield from (False, True)
    elif kind == "choice":
        yield from json.loads(rest)
    elif kind == "listint":
        lo, hi, q, t = rest.split(":")
        n = int(q if tier == "quick" else t)
        for ln in range(n + 1):
            for tup in itertools.product(range(int(lo), int(hi) + 1), repeat=ln):
                yield list(tup)
    else:
        raise ValueError(desc)


def bounded_search(ct, tier="quick", limit=None, stop_at=5):
    """exhaustive product of the contract's generators; returns stats and failing cases"""
    gens = ct.bounded or {}
    if not gens or "adapter" in gens and gens.get("cases") is None and len(gens) == 1:
        return {"cases": 0, "failures": [], "skipped": "no generator"}
    adapter = None
    cases_fn = None
    names = []
    for k, v in gens.items():
        if k == "share":
            continue
        if k == "adapter":
            adapter = resolve(v)
        elif k == "cases":
            cases_fn = resolve(v)
        else:
            names.append(k)
    failures = []
    uneval = []
    n = nontrivial = 0
    if cases_fn is not None:
        it = cases_fn(tier)
    else:
        it = (dict(zip(names, combo)) for combo in itertools.product(*[list(gen_values(gens[k], tier)) for k in names]))
    samples = []
    for kwargs in it:
        n += 1
        res = evaluate(ct, kwargs, adapter)
        if res["outcome"] in ("return", "raise"):
            nontrivial += 1
        if len(samples) < 3 and n % 97 == 1:
            samples.append({"input": _js(kwargs), "outcome": res["outcome"], "result": _js(res.get("result"))})
        if res.get("unevaluable") and len(uneval) < 3:
            uneval.append({"input": _js(kwargs), "unevaluable": res["unevaluable"]})
        if res["violated"]:
            failures.append({"input": _js(kwargs), "violated": res["violated"], "outcome": res["outcome"],
                             "result": _js(res.get("result")), "exception": res.get("exception")})
            if len(failures) >= stop_at:
                break
        if limit and n >= limit:
            break
    out = {"cases": n, "nontrivial": nontrivial, "failures": failures, "samples": samples}
    if uneval:       # a clause the harness cannot evaluate is a fault of the harness (exit 3), never a violation
        out["error"] = "clause not evaluable on the concrete result: " + json.dumps(uneval)[:600]
    return out


def resolve(dotted):
    modname, _, attr = dotted.rpartition(".")
    return getattr(importlib.import_module(modname), attr)


def _js(v):
    try:
        json.dumps(v)
        return v
    except (TypeError, ValueError):
        return repr(v)[:300]


def main():
    """stdin: json {"op": "replay"|"search", "cid":..., "inputs":..., "tier":...} -> stdout json"""
    req = json.load(sys.stdin)
    load_contracts()
    out = {}
    try:
        ct = C.CONTRACTS[req["cid"]]
        if req["op"] == "replay":
            adapter = resolve(ct.bounded["adapter"]) if ct.bounded and "adapter" in ct.bounded else None
            out = evaluate(ct, req["inputs"], adapter)
            out["result"] = _js(out.get("result"))
        elif req["op"] == "search":
            out = bounded_search(ct, req.get("tier", "quick"), req.get("limit"))
    except Exception as e:
        out = {"error": f"{type(e).__name__}: {e}", "trace": traceback.format_exc()}
    json.dump(out, sys.stdout)


if __name__ == "__main__":
    main()
