"""C02  Parsing is total and the parse tree mirrors the source text  (tier T3, bounded runtime workload).

Enumerates EVERY string up to a length bound over the property's delimiter alphabet
{tag char 'a', blank ' ', ',', '(', ')', '/'} (quick: length <= 6, thorough: length <= 8), a list of Unicode / odd
strings, and every sequence (quick <= 4, thorough <= 5 tokens) over a token alphabet made of REAL schema tags in
short / partial / long / value / extension spelling plus the delimiters (so that printing in short and long form
really rewrites the text).  Each string is handed to the real HedString constructor and compared with a tiny
reference parser written from the property statement (rt.c02.ref_parse / ref_balanced).
"""
import itertools
import multiprocessing

from rt.common import Workload, main, schema, codes

SCHEMA_VERSION = "8.3.0"
ALPHABET = "a ,()/"
DELIMS = ",()"
BLANK = " "
MISMATCH = "PARENTHESES_MISMATCH"
CHUNK_TAIL = 4          # strings of one chunk share everything but their last CHUNK_TAIL characters
WORKERS = 14


# ------------------------------------------------------------------------------------------------------
# Oracle, written from the property text only
# ------------------------------------------------------------------------------------------------------
def ref_balanced(s):
    """parentheses are balanced iff deleting innermost pairs '()' from the parenthesis skeleton leaves nothing
    (deliberately a different formulation than a depth counter)"""
    skeleton = "".join(c for c in s if c in "()")
    while True:
        smaller = skeleton.replace("()", "")
        if smaller == skeleton:
            return skeleton == ""
        skeleton = smaller


def ref_runs(s):
    """spans of the maximal runs of non-delimiter characters, trimmed of blanks, empty ones dropped"""
    spans = []
    start = 0
    for end in [i for i, c in enumerate(s) if c in DELIMS] + [len(s)]:
        a, b = start, end
        while a < b and s[a] == BLANK:
            a += 1
        while b > a and s[b - 1] == BLANK:
            b -= 1
        if a < b:
            spans.append((a, b))
        start = end + 1
    return spans


def ref_parse(s):
    """nested list mirroring the parenthesis nesting: ['T', a, b] for a tag, ['G', a, b, children] for a group
    running from its '(' at a to just behind the matching ')' at b-1.  Only called for balanced text."""
    match = {}
    opens = []
    for i, c in enumerate(s):
        if c == "(":
            opens.append(i)
        elif c == ")":
            match[opens.pop()] = i
    runs = ref_runs(s)

    def build(lo, hi):
        # children of the region s[lo:hi], which contains only complete groups
        out = []
        i = lo
        while i < hi:
            if s[i] == "(":
                close = match[i]
                out.append(["G", i, close + 1, build(i + 1, close)])
                i = close + 1
                continue
            for (a, b) in runs:
                if a == i:
                    out.append(["T", a, b])
                    i = b - 1
                    break
            i += 1
        return out

    return build(0, len(s))


def ref_flat_groups(tree, lo, hi):
    """pre-order list of group spans, the whole string first"""
    out = [[lo, hi]]

    def rec(nodes):
        for n in nodes:
            if n[0] == "G":
                out.append([n[1], n[2]])
                rec(n[3])
    rec(tree)
    return out


# ------------------------------------------------------------------------------------------------------
# Observation of the real objects
# ------------------------------------------------------------------------------------------------------
def obs_tree(group):
    from hed.models.hed_tag import HedTag
    out = []
    for child in group.children:
        if isinstance(child, HedTag):
            out.append(["T", child.span[0], child.span[1]])
        else:
            out.append(["G", child.span[0], child.span[1], obs_tree(child)])
    return out


def shape(group, attr):
    """span-free signature of a tree: nesting plus the given text attribute(s) of every tag"""
    from hed.models.hed_tag import HedTag
    out = []
    for child in group.children:
        if isinstance(child, HedTag):
            out.append([getattr(child, a) for a in attr])
        else:
            out.append(["(", shape(child, attr), ")"])
    return out


def parents_ok(group):
    from hed.models.hed_tag import HedTag
    for child in group.children:
        if child._parent is not group:
            return False
        if not isinstance(child, HedTag) and not parents_ok(child):
            return False
    return True


FORMS = (
    # clause suffix, how to print, tag attributes that the re-parsed tree must reproduce
    ("original", lambda h: h.get_original_hed_string(), ("org_tag",)),
    ("as_original", lambda h: h.get_as_original(), ("org_tag",)),
    ("str", lambda h: str(h), ("short_tag", "long_tag")),
    ("short", lambda h: h.get_as_short(), ("short_tag", "long_tag")),
    ("long", lambda h: h.get_as_long(), ("short_tag", "long_tag")),
)


def check_string(s, S, rec, roundtrip=True):
    """Run all C02 clauses on one text.  rec(clause, observed, expected) records a violation.
    Returns (balanced, number_of_tags, printed forms)."""
    from hed.models.hed_string import HedString
    inp_balanced = ref_balanced(s)
    try:
        h = HedString(s, S)
    except BaseException as e:  # noqa  (the property says: never raises)
        if isinstance(e, (KeyboardInterrupt, SystemExit)):
            raise
        rec("C02.total.construct_never_raises", repr(e), "no exception")
        return inp_balanced, 0, []

    if not inp_balanced:
        if h.children != [] or h.get_all_tags() != [] or len(h.get_all_groups()) != 1:
            rec("C02.unbalanced.empty_tree", obs_tree(h), [])
        label = "C02.unbalanced.reported.count_differs" if s.count("(") != s.count(")") \
            else "C02.unbalanced.reported.equal_count"
        try:
            got = codes(h.validate())
        except Exception as e:  # noqa
            got = ["raised " + repr(e)]
        if MISMATCH not in got:
            rec(label, got, "contains " + MISMATCH)
        return False, 0, []

    # ---- balanced text ----
    try:
        only_plain_blanks = not any(c.isspace() and c != BLANK for c in s)
        tags = h.get_all_tags()
        exp_runs = [list(r) for r in ref_runs(s)]
        got_runs = [list(t.span) for t in tags]
        if only_plain_blanks and got_runs != exp_runs:
            rec("C02.tree.tags_are_trimmed_runs", got_runs, exp_runs)

        bad = [[list(t.span), t.org_tag] for t in tags
               if t.org_tag != s[t.span[0]:t.span[1]] or not (0 <= t.span[0] < t.span[1] <= len(s))]
        groups = h.get_all_groups()
        bad += [[list(g.span), g.get_original_hed_string()] for g in groups
                if g.get_original_hed_string() != s[g.span[0]:g.span[1]]]
        if bad or tuple(h.span) != (0, len(s)):
            rec("C02.tree.org_text_is_source_slice", bad or list(h.span), "text == source[span]; whole string (0,len)")

        exp_tree = ref_parse(s)
        got_tree = obs_tree(h)
        if only_plain_blanks and got_tree != exp_tree:
            rec("C02.tree.nesting_matches_parentheses", got_tree, exp_tree)
        bad_paren = [list(g.span) for g in groups[1:]
                     if not (s[g.span[0]] == "(" and s[g.span[1] - 1] == ")"
                             and ref_balanced(s[g.span[0]:g.span[1]]) and ref_balanced(s[g.span[0] + 1:g.span[1] - 1]))]
        if bad_paren:
            rec("C02.tree.nesting_matches_parentheses", bad_paren, "group span runs from '(' to its matching ')'")

        exp_groups = ref_flat_groups(got_tree, 0, len(s))
        if [list(g.span) for g in groups] != exp_groups or groups[0] is not h or not parents_ok(h) \
                or sorted(got_runs) != sorted(_flat_tags(got_tree)):
            rec("C02.tree.traversal_and_parents", [[list(g.span) for g in groups], got_runs],
                [exp_groups, "tags of the tree in source order; every child's parent is its innermost group"])

        # tokenizer level (re-checks the planned deductive clauses at run time)
        toks = HedString.split_hed_string(s)
        pos = 0
        ok = True
        for is_tag, (a, b) in toks:
            ok = ok and a == pos and b > a
            pos = b
            piece = s[a:b]
            if is_tag:
                ok = ok and not any(c in DELIMS for c in piece) and piece[0] != BLANK and piece[-1] != BLANK
            else:
                ok = ok and all(c in DELIMS + BLANK for c in piece) and sum(c != BLANK for c in piece) <= 1
        ok = ok and pos == len(s)
        if only_plain_blanks:
            ok = ok and [list(sp) for is_tag, sp in toks if is_tag] == exp_runs
        if not ok:
            rec("C02.tokens.tiling_and_kinds", [[t, list(sp)] for t, sp in toks], "tiling of the text; tags = trimmed runs")
    except Exception as e:  # noqa
        rec("C02.tree.observers_never_raise", repr(e), "no exception")
        return True, 0, []

    printed = []
    if roundtrip:
        for name, printer, attrs in FORMS:
            clause = "C02.roundtrip." + name
            try:
                text = printer(h)
                h2 = HedString(text, S)
                same = (h2 == h) and (h == h2) and shape(h2, attrs) == shape(h, attrs)
                again = printer(h2)
                if name == "original":
                    if text != s:
                        rec(clause, text, s)
                elif not ref_balanced(text):
                    rec(clause, text, "balanced text")
                if not same:
                    rec(clause, [text, shape(h2, attrs)], ["equal tree", shape(h, attrs)])
                elif again != text:
                    rec(clause, [text, again], "print(parse(print(t))) == print(t)")
                printed.append(text)
            except Exception as e:  # noqa
                rec(clause, repr(e), "no exception")
    return True, len(tags), printed


def _flat_tags(tree):
    out = []
    for n in tree:
        if n[0] == "T":
            out.append([n[1], n[2]])
        else:
            out.extend(_flat_tags(n[3]))
    return out


# ------------------------------------------------------------------------------------------------------
# Case spaces
# ------------------------------------------------------------------------------------------------------
ODD_STRINGS = [
    "\t", "a\tb", "a\t,\tb", " a ,b", "a　,(b )", "ß", "ﬁ,(ß)", "İx,(ı)",
    "（a）", "a，b", "\x00", "(\x00),\x7f", "\ud800", "(\udfff,a)", "\U0001F642,(\U0001F642/\U0001F642)",
    "é,(é)", "‮(a)‬", "{a}", "({a},#)", "#", "a:b", ":", ":a,(b:)", "sc:Red,(sc:a/b)", "a/b:c",
    "Def/x,(Def-expand/y,(Red))", "(Definition/d/#,(Label/#))", "n/a", "N/A,(n/a)", "~", "a~b,(c~)", "[a],(b]",
    "\n", "a\n,b", "(a\r\n)", "Red,Blue,(Green,(Item/Ext , Label/x y ))", "  (  )  ", "((((((((((a))))))))))",
    "(" * 100 + "a" + ")" * 100, "(" * 100 + ")" * 99, ")" * 3 + "(" * 3, "a" * 5000, ",".join(["(a)"] * 300),
    "Red),(Blue", ")(", "(Red)),((Blue)", "())(()", "(Red", "Red)", "ß)(", "(\ud800",
]

_RED_LONG = "Property/Sensory-property/Sensory-attribute/Visual-attribute/Color/CSS-color/Red-color/Red"
TOKENS = ["Red", "Red-color/Red", _RED_LONG.upper(), "Label/x y", "Item/Ext", "Nosuchtag", " ", ",", "(", ")"]


def chunks(max_len):
    """(length, prefix) pairs that partition all strings of length <= max_len, in enumeration order"""
    out = []
    for n in range(max_len + 1):
        head = max(0, n - CHUNK_TAIL)
        for prefix in itertools.product(ALPHABET, repeat=head):
            out.append((n, "".join(prefix)))
    return out


def chunk_strings(n, prefix):
    for tail in itertools.product(ALPHABET, repeat=n - len(prefix)):
        yield prefix + "".join(tail)


def token_strings(max_tokens):
    for n in range(1, max_tokens + 1):
        for seq in itertools.product(range(len(TOKENS)), repeat=n):
            yield seq


_S = None


def _worker_init():
    global _S
    import warnings
    warnings.simplefilter("ignore")
    _S = schema(SCHEMA_VERSION)


def _run_texts(texts, roundtrip=True, follow_printed=False):
    """check a list of texts; returns summary dict (picklable)"""
    fails = {}
    trivial = []
    stats = {"balanced": 0, "tags": 0, "n": 0}
    for idx, s in enumerate(texts):
        def rec(clause, observed, expected, _s=s):
            cnt, recs = fails.setdefault(clause, [0, []])
            fails[clause][0] = cnt + 1
            if len(recs) < 3:
                recs.append({"input": {"text": _s, "schema": SCHEMA_VERSION}, "observed": observed, "expected": expected})
        bal, ntags, printed = check_string(s, _S, rec, roundtrip)
        stats["n"] += 1
        stats["balanced"] += bal
        stats["tags"] += ntags
        if s.strip(BLANK) == "":
            trivial.append(idx)
        if follow_printed:
            for p in printed:
                if p != s:
                    def rec2(clause, observed, expected, _s=p):
                        rec(clause, observed, expected, _s)
                    check_string(p, _S, rec2, roundtrip=False)
    return {"fails": fails, "trivial": trivial, "stats": stats}


def _work_chunk(chunk):
    n, prefix = chunk
    return _run_texts(list(chunk_strings(n, prefix)))


def _work_tokens(seqs):
    return _run_texts(["".join(TOKENS[i] for i in seq) for seq in seqs], follow_printed=True)


def _absorb(w, res, base, sample_of):
    trivial = set(res["trivial"])
    for i in range(res["stats"]["n"]):
        w.case(key=base + i, nontrivial=i not in trivial,
               sample=sample_of(i) if (w.evaluations % 53 == 0 and len(w.samples) < 8) else None)
    for clause in sorted(res["fails"]):
        cnt, recs = res["fails"][clause]
        for r in recs:
            w.fail(clause, r["input"], r["observed"], r["expected"])
        for _ in range(cnt - len(recs)):
            w.fail(clause, None)


def run(w: Workload):
    import warnings
    warnings.simplefilter("ignore")
    max_len = 6 if w.quick else 8
    max_tok = 4 if w.quick else 5
    w.rule = ("every string of length <= %d over {a, blank, ',', '(', ')', '/'} (case key = its index in the "
              "length-lexicographic enumeration; a case is trivial when the text is empty or all blanks); "
              "%d hand-picked Unicode/odd strings; every sequence of <= %d tokens over %r concatenated without "
              "separator (real schema tags, so short/long printing rewrites the text; the printed forms are themselves "
              "re-checked against the reference parser).  Oracle: rt.c02.ref_parse / ref_balanced written from the "
              "property text; schema %s" % (max_len, len(ODD_STRINGS), max_tok, TOKENS, SCHEMA_VERSION))
    _worker_init()      # load the schema before forking so that the workers inherit it
    ctx = multiprocessing.get_context("fork")
    totals = {"balanced": 0, "tags": 0, "n": 0}

    def add(res):
        for k in totals:
            totals[k] += res["stats"][k]

    # part 1: exhaustive over the delimiter alphabet
    cs = chunks(max_len)
    base = 0
    with ctx.Pool(WORKERS, initializer=_worker_init) as pool:
        for chunk, res in zip(cs, pool.imap(_work_chunk, cs, chunksize=4)):
            strings = None

            def sample_of(i, chunk=chunk):
                nonlocal strings
                if strings is None:
                    strings = list(chunk_strings(*chunk))
                return {"text": strings[i]}
            _absorb(w, res, base, sample_of)
            base += res["stats"]["n"]
            add(res)
        n1 = base
        expected_n1 = sum(len(ALPHABET) ** k for k in range(max_len + 1))
        w.check(n1 == expected_n1, "C02.workload.enumeration_complete", {"max_len": max_len}, n1, expected_n1)
        w.part("delimiter alphabet", cases=n1, bound="all strings of length <= %d over the 6-letter alphabet %r"
               % (max_len, ALPHABET), exhaustive=True, balanced=totals["balanced"], unbalanced=n1 - totals["balanced"],
               tags_seen=totals["tags"])

        # part 2: odd strings (in this process; few)
        res = _run_texts(ODD_STRINGS)
        _absorb(w, res, base, lambda i: {"text": ODD_STRINGS[i]})
        base += len(ODD_STRINGS)
        w.part("unicode and odd strings", cases=len(ODD_STRINGS), bound="fixed list rt.c02.ODD_STRINGS", exhaustive=False)

        # part 3: token sequences over real tags
        seqs = list(token_strings(max_tok))
        step = 500
        blocks = [seqs[i:i + step] for i in range(0, len(seqs), step)]
        n3 = 0
        for block, res in zip(blocks, pool.imap(_work_tokens, blocks)):
            _absorb(w, res, base, lambda i, block=block: {"tokens": [TOKENS[j] for j in block[i]]})
            base += len(block)
            n3 += len(block)
        w.part("schema-tag tokens", cases=n3, bound="all sequences of 1..%d tokens over %d tokens (short, partial, "
               "upper-case long, value, extension, unknown tag, blank, ',', '(', ')')" % (max_tok, len(TOKENS)),
               exhaustive=True)
    w.exhaustive = True
    w.not_covered += [
        "strings longer than the bound / other characters than the 6-letter alphabet, apart from the fixed odd-string list",
        "white space other than ' ' (tab, NBSP, newline) is treated by the tokenizer as a tag character; for texts that "
        "contain such characters only totality, source-slice, parenthesis matching and round trip are checked, not "
        "'trimmed of blanks'",
        "HedString.from_hed_strings / _get_org_span_from_strings (joined strings), def_dict argument, trees mutated after parsing",
        "validation of BALANCED text is not part of this property; observed while building: HedString('(),()').validate() "
        "raises IndexError (group_util._check_for_duplicate_groups_recursive) - belongs to C01/C12",
        "nesting deeper than 100 (printing is recursive: RecursionError near the interpreter limit)",
    ]
    w.assumptions += [
        "a schema object (bundled %s) is supplied to the constructor; HedString(text, None) raises AttributeError for any "
        "text with a tag and is considered outside the property" % SCHEMA_VERSION,
        "'equal tree' = HedString.__eq__ in both directions AND identical nesting with identical org_tag (original form) "
        "resp. identical short_tag and long_tag (str/short/long form) of corresponding tags",
    ]


def replay(w: Workload, case: dict):
    import warnings
    warnings.simplefilter("ignore")
    S = schema(case["input"].get("schema", SCHEMA_VERSION))
    text = case["input"]["text"]

    def rec(clause, observed, expected):
        if clause == case["clause"]:
            w.fail(clause, case["input"], observed, expected)
    w.case(key=text)
    check_string(text, S, rec)


if __name__ == "__main__":
    main(run, "C02", replay)
