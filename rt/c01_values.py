"""Part "values" of rt/c01.py: lexical rules of the value classes, checked on EVERY short string.

The vocabulary sweep of rt/c01.py gives each value-taking tag a handful of good and bad values.  A weakened
character / word rule of a value class (hed/validator/util/class_regex.json) is only visible on strings of a certain
make (a sign without digits, an exponent without mantissa, a period alone ...), so here the value position is filled
with ALL strings up to a small length over a small alphabet and the verdict is compared with an oracle written from the
HED specification's description of the value class -- by hand-written recognisers, no regular expression of the
implementation is used:

  numericClass : [sign] mantissa [exponent]; mantissa = digits ['.' [digits]] | '.' digits (at least one digit);
                 exponent = 'e' | 'E', [sign], digits.                           bad value -> VALUE_INVALID
  nameClass    : one or more letters, digits, '_' , '-' (non-ASCII letters from schema 8.3.0 on).
                                                                                  bad character -> CHARACTER_INVALID
  textClass    : any printable characters except comma and curly braces (these are other rules); a control character
                 -> CHARACTER_INVALID
  dateTimeClass: YYYY-MM-DDThh:mm:ss[.f+][Z|+hh:mm|-hh:mm]; every single-character edit (deletion, insertion,
                 substitution over a small alphabet) of five well-formed date-times.  bad format -> VALUE_INVALID; a
                 well-formed text with an impossible field (month 00 ...) goes to the narrow clause of the known finding.

Blanks: a trailing blank of a tag carries no meaning (the verdict is that of the text without it); any other blank in a
value of the numeric, name or date-time class (and a leading blank of any value) makes it something that is not a value of
the class, and two blanks in a row are extra white space inside a tag (TAG_INVALID): some error is expected (which rule
speaks first is not fixed by the property: VALUE_INVALID, UNITS_INVALID, CHARACTER_INVALID or TAG_INVALID).
"""
import itertools

CL_NUM = "C01.value.numeric_class_lexical"
CL_NAME = "C01.value.name_class_chars"
CL_TEXT = "C01.value.text_class_chars"
CL_DT = "C01.value.datetime_lexical"
CL_DT_RANGE = "C01.value.datetime_out_of_range"      # narrow, known finding (same label as in rt/c01.py)

NUM_ALPHABET = "05+-.eEx "
NAME_ALPHABET = "aZ3_-.$ "
TEXT_ALPHABET = "a .$:\x07"


# ---- oracles (hand-written recognisers from the specification text) ---------------------------------------
def is_number(s):
    i, n = 0, len(s)
    if i < n and s[i] in "+-":
        i += 1
    d0 = i
    while i < n and s[i].isdigit() and s[i].isascii():
        i += 1
    int_digits = i - d0
    frac_digits = 0
    if i < n and s[i] == ".":
        i += 1
        f0 = i
        while i < n and s[i].isdigit() and s[i].isascii():
            i += 1
        frac_digits = i - f0
    if int_digits + frac_digits == 0:
        return False
    if i < n and s[i] in "eE":
        i += 1
        if i < n and s[i] in "+-":
            i += 1
        e0 = i
        while i < n and s[i].isdigit() and s[i].isascii():
            i += 1
        if i == e0:
            return False
    return i == n


def is_name(s, nonascii_ok):
    if not s:
        return False
    for ch in s:
        if ch.isascii():
            if not (ch.isalnum() or ch in "_-"):
                return False
        elif not nonascii_ok:
            return False
    return True


def is_text(s):
    return bool(s) and all(ch.isprintable() or not ch.isascii() for ch in s) and not any(ch in ",{}" for ch in s)


def _digits(s, k):
    return len(s) == k and s.isascii() and s.isdigit()


def datetime_shape(s):
    """-> None if s is not written as YYYY-MM-DDThh:mm:ss[.f+][Z|(+|-)hh:mm], else the list of its numeric fields
    (year, month, day, hour, minute, second, offset hour, offset minute)"""
    if len(s) < 19:
        return None
    if not (_digits(s[0:4], 4) and s[4] == "-" and _digits(s[5:7], 2) and s[7] == "-" and _digits(s[8:10], 2)
            and s[10] == "T" and _digits(s[11:13], 2) and s[13] == ":" and _digits(s[14:16], 2) and s[16] == ":"
            and _digits(s[17:19], 2)):
        return None
    fields = [int(s[0:4]), int(s[5:7]), int(s[8:10]), int(s[11:13]), int(s[14:16]), int(s[17:19]), 0, 0]
    rest = s[19:]
    if rest.startswith("."):
        k = 1
        while k < len(rest) and rest[k].isascii() and rest[k].isdigit():
            k += 1
        if k == 1:
            return None
        rest = rest[k:]
    if rest == "" or rest == "Z":
        return fields
    if len(rest) == 6 and rest[0] in "+-" and _digits(rest[1:3], 2) and rest[3] == ":" and _digits(rest[4:6], 2):
        fields[6], fields[7] = int(rest[1:3]), int(rest[4:6])
        return fields
    return None


def datetime_in_range(f):
    y, mo, d, h, mi, s, oh, om = f
    if not (1 <= mo <= 12 and 1 <= d <= 31 and h <= 23 and mi <= 59 and s <= 59 and oh <= 23 and om <= 59):
        return False
    leap = y % 4 == 0 and (y % 100 != 0 or y % 400 == 0)
    return d <= [31, 29 if leap else 28, 31, 30, 31, 30, 31, 31, 30, 31, 30, 31][mo - 1]


# ---- enumeration ---------------------------------------------------------------------------------------------
def strings(alphabet, max_len):
    for k in range(1, max_len + 1):
        for t in itertools.product(alphabet, repeat=k):
            yield "".join(t)


DT_BASES = ("2000-01-01T00:00:00", "2021-06-15T12:30:45.5", "2021-06-15T12:30:45Z", "2021-06-15T12:30:45.25+01:00",
            "1999-12-31T23:59:59-05:30")
DT_ALPHABET = "09-:T.Z+x "


def datetime_edits(quick):
    seen = set()
    for b in DT_BASES:
        out = [b]
        for i in range(len(b)):
            out.append(b[:i] + b[i + 1:])
            for ch in DT_ALPHABET:
                out.append(b[:i] + ch + b[i + 1:])
        for i in range(len(b) + 1):
            for ch in DT_ALPHABET:
                out.append(b[:i] + ch + b[i:])
        for x in out:
            if x not in seen:
                seen.add(x)
                yield x


def numeric_templates(model):
    """(label, template with %s at the value position) for the tags the value is written into; from the XML model only"""
    out = []

    def numeric(name):
        if name.casefold() not in model.all_names:
            return None
        n = model.node(name)
        return n if (model.usable(n) and n.takes_value and n.value_classes == ["numericClass"]) else None
    n = numeric("Item-count")
    if n is not None and not n.unit_classes:
        out.append(("no unit class", "Item-count/%s"))
    n = numeric("Frequency")
    if n is not None and n.unit_classes:
        out.append(("unit class, with unit", "Frequency/%s " + model.default_unit[n.unit_classes[0]]))
    n = numeric("Duration")
    if n is not None and n.unit_classes and n.has("topLevelTagGroup"):
        out.append(("unit class, with unit, in its top-level group", "(Duration/%s " + model.default_unit[n.unit_classes[0]] + ",(Red))"))
    return out


def _single(model, name, vclass):
    if name.casefold() not in model.all_names:
        return None
    n = model.node(name)
    ok = model.usable(n) and n.takes_value and n.value_classes == [vclass] and not n.unit_classes \
        and not n.attrs.keys() & {"topLevelTagGroup", "tagGroup", "unique", "required"}
    return n if ok else None


# ---- the part ------------------------------------------------------------------------------------------------
def part_values(w, env, model, defs_strings, chunk, nchunks):
    """-> (number of cases, per-clause counts, description of the bound)"""
    counts = {}
    n_cases = [0]
    version = env.version

    def observe(text, ph, clause, what):
        n_cases[0] += 1
        counts[clause] = counts.get(clause, 0) + 1
        inp = {"schema": version, "text": text, "allow_placeholders": ph, "rule": what, "definitions": defs_strings}
        w.case(key=(version, text, ph), nontrivial=True, sample={"schema": version, "text": text, "ph": ph, "clause": clause})
        errs, exc = env.observe(text, ph)
        if exc is not None:
            w.fail("C01.entry.agree_no_exception", inp, observed=exc, expected="no exception")
            return None, inp
        return errs, inp

    def verdict(text, ph, clause, value, ok, code, unit_follows, what, inner_blank_ok=False):
        """the three expectations of the module text: accepted / the rule's code / some error (stray blank)"""
        errs, inp = observe(text, ph, clause, what)
        if errs is None:
            return
        inp["value"] = value
        core = value.rstrip(" ")
        if (" " in core and not inner_blank_ok) or "  " in core or core == "" or core[0] == " " or (unit_follows and core != value):
            w.check(errs != [], clause, inp, observed=errs, expected={"nonempty": True})
        elif ok(core):
            w.check(errs == [], clause, inp, observed=errs, expected=[])
        else:
            w.check(code in errs, clause, inp, observed=errs, expected={"contains_one_of": [code]})

    bounds = {}
    # ---- numericClass -----------------------------------------------------------------------------------
    max_len = 4 if w.quick else 5
    templates = numeric_templates(model)
    k = 0
    for v in strings(NUM_ALPHABET, max_len):
        k += 1
        if k % nchunks != chunk:
            continue
        for label, tmpl in templates:
            for ph in (False, True):
                verdict(tmpl % v, ph, CL_NUM, v, is_number, "VALUE_INVALID", not tmpl.endswith("%s"),
                        "numericClass value, " + label)
    bounds[CL_NUM] = "all %d strings of length <= %d over %r as the value of %s; allow_placeholders in {False, True}" % (
        k, max_len, NUM_ALPHABET, [t for _, t in templates])

    # ---- nameClass / textClass ----------------------------------------------------------------------------
    modern = version >= "8.3.0"
    name_node = _single(model, "Label", "nameClass")
    text_node = _single(model, "Description", "textClass") or _single(model, "ID", "textClass")
    name_len = 3 if w.quick else 4
    if name_node is not None:
        alphabet = NAME_ALPHABET + ("é" if modern else "")
        k = 0
        for v in strings(alphabet, name_len):
            k += 1
            if k % nchunks != chunk:
                continue
            for ph in (False, True):
                verdict("%s/%s" % (name_node.name, v), ph, CL_NAME, v, lambda s: is_name(s, modern), "CHARACTER_INVALID", False,
                        "nameClass value")
        bounds[CL_NAME] = "all %d strings of length <= %d over %r as the value of %s" % (k, name_len, alphabet, name_node.name)
    if text_node is not None:
        alphabet = TEXT_ALPHABET + ("é" if modern else "")
        k = 0
        for v in strings(alphabet, name_len):
            k += 1
            if k % nchunks != chunk or v[0] in " ":
                continue
            for ph in (False, True):
                verdict("%s/%s" % (text_node.name, v), ph, CL_TEXT, v, is_text, "CHARACTER_INVALID", False, "textClass value",
                        inner_blank_ok=True)
        bounds[CL_TEXT] = "all %d strings of length <= %d over %r (not starting with a blank) as the value of %s" % (
            k, name_len, alphabet, text_node.name)

    # ---- dateTimeClass ------------------------------------------------------------------------------------
    dt_node = _single(model, "Creation-date", "dateTimeClass")
    if dt_node is not None:
        k = 0
        for v in datetime_edits(w.quick):
            k += 1
            if k % nchunks != chunk:
                continue
            shape = datetime_shape(v.rstrip(" "))
            clause = CL_DT_RANGE if (shape is not None and not datetime_in_range(shape)) else CL_DT
            for ph in (False, True):
                verdict("%s/%s" % (dt_node.name, v), ph, clause, v,
                        lambda s: datetime_shape(s) is not None and datetime_in_range(datetime_shape(s)), "VALUE_INVALID", False,
                        "dateTimeClass value")
        bounds[CL_DT] = "every single-character deletion, substitution and insertion (over %r) of %d well-formed date-times: %d texts " \
                        "as the value of %s" % (DT_ALPHABET, len(DT_BASES), k, dt_node.name)
    return n_cases[0], counts, bounds
