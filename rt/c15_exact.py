"""C15 helper: the exact-group forms  {X}  {X:}  {X: Y}  (and [X]) with the required / optional terms at DIFFERENT DEPTHS of
the annotation, judged by an independent evaluator over nested tuples.

Documented logic (QueryHandler docstring):
    [A && B]    a group that contains both A and B (at any level)
    {A && B}    a group with A and B at the same level
    {A && B:}   ... at the same level, and nothing else
    {A && B: C} ... at the same level, and optionally a C tag  (and nothing else)
    {(Onset || Offset), (Def || {Def-expand}): ???}   a group with an onset tag, a def tag or def-expand GROUP, and an optional
                                                      wildcard group            (',' is '&&'; '{..}' as an operand = a member group)
Reading used here:  a *member* of a group is one of its direct children (a tag or a sub-group).  An expression E is matched
among the members of a group g by a set of members:
    term            one member that is a tag carrying the term
    ? / ?? / ???    one member (any / a tag / a sub-group)
    E1 && E2        a match of E1 and a match of E2 that share no member        (E1, E2 is the same)
    E1 || E2        a match of E1 or a match of E2
    {E} {E:} {E:F}  one member that is a sub-group matching the exact-group form itself
{X} holds for g iff X has a match among the members of g;  {X:} iff some match of X is ALL members of g;  {X: Y} iff some match
of X is all members of g, or some match of X together with a disjoint match of Y is all members of g.  A tag that occurs only
deeper inside a sub-group is not a member.  The query holds for an annotation iff it holds for one of its parenthesised groups
(the annotation itself is not a group).
Nothing here imports hed.
"""
import itertools

TAGS = ["Red", "Blue", "Event", "Item"]          # Item is matched by none of the terms below: 'something else'
TERMS = {"red": {"Red"}, "blue": {"Blue"}, "event": {"Event"}, "color": {"Red", "Blue"}}     # hand written (8.3.0 paths)
T3 = ["red", "blue", "event"]


# ------------------------------------------------------------------------------------------------ annotations
def forests(n, d):
    """ordered forests with exactly n nodes (tags + groups), leaves at depth <= d; leaf 'L', group = non-empty tuple"""
    if n == 0:
        return [()]
    if d == 0:
        return []
    out = []
    for first in range(1, n + 1):
        firsts = ["L"] if first == 1 else [sub for sub in forests(first - 1, d - 1) if sub]
        for f in firsts:
            for rest in forests(n - first, d):
                out.append((f,) + rest)
    return out


def n_leaves(f):
    return sum(1 if c == "L" else n_leaves(c) for c in f)


def fill(shape, labels):
    it = iter(labels)

    def go(f):
        return tuple(next(it) if c == "L" else go(c) for c in f)
    return go(shape)


def render(tree):
    return ", ".join(c if isinstance(c, str) else "(" + render(c) + ")" for c in tree)


def annotations(rng, quick):
    """one outer group around every ordered forest with <= 4 (thorough 5) nodes (depth <= 3 inside it) - every sibling order, every nesting
    of a tag below the level of the others - labelled over Red/Blue/Event (+ Item): all labelings over the three tags, and the
    labelings with Item (all for <= 3 leaves; sampled above).  Plus the same forests without the outer group (thorough: all;
    quick: <= 3 nodes)."""
    out, seen = [], set()

    def add(t):
        if t not in seen:
            seen.add(t)
            out.append(t)
    for n in range(1, 5 if quick else 6):
        for shape in forests(n, 3):
            k = n_leaves(shape)
            labelings = list(itertools.product(TAGS[:3], repeat=k))
            with_item = [lab for lab in itertools.product(TAGS, repeat=k) if "Item" in lab]
            if k > 3 or (quick and k > 2):
                with_item = rng.sample(with_item, min(len(with_item), 10 if quick else 60))
            for lab in labelings + with_item:
                inner = fill(shape, lab)
                add((inner,))
                if n <= 3 or not quick:
                    add(inner)
    return out


def groups_of(tree):
    """every parenthesised group (tuple) of the annotation, at any depth"""
    out = []
    for c in tree:
        if not isinstance(c, str):
            out.append(c)
            out.extend(groups_of(c))
    return out


def parse_tree_text(text):
    pos = [0]

    def go():
        out, cur = [], ""
        while pos[0] < len(text):
            ch = text[pos[0]]
            pos[0] += 1
            if ch == "(":
                out.append(go())
            elif ch == ")":
                if cur.strip():
                    out.append(cur.strip())
                return tuple(out)
            elif ch == ",":
                if cur.strip():
                    out.append(cur.strip())
                cur = ""
            else:
                cur += ch
        if cur.strip():
            out.append(cur.strip())
        return tuple(out)
    return go()


# ------------------------------------------------------------------------------------------------ queries
# ("t", term) | ("w", "?"/"??"/"???") | ("and", A, B) | ("comma", A, B) | ("or", A, B) | ("ex", X) | ("ex0", X) | ("exo", X, Y)
# | ("desc", X)
def q_render(a):
    k = a[0]
    if k in "tw":
        return a[1]
    if k in ("and", "comma", "or"):
        op = {"and": " && ", "comma": ", ", "or": " || "}[k]
        parts = []
        for c in a[1:]:
            s = q_render(c)
            if c[0] in ("and", "comma", "or"):
                s = "(" + s + ")"
            parts.append(s)
        return op.join(parts)
    if k == "ex":
        return "{" + q_render(a[1]) + "}"
    if k == "ex0":
        return "{" + q_render(a[1]) + ":}"
    if k == "exo":
        return "{" + q_render(a[1]) + ": " + q_render(a[2]) + "}"
    if k == "desc":
        return "[" + q_render(a[1]) + "]"
    raise AssertionError(k)


def required_parts():
    t = [("t", x) for x in T3]
    out = list(t)
    for a, b in itertools.product(t, repeat=2):
        out.append(("and", a, b))                       # ordered pairs, and the same term twice (two distinct tags)
    for a, b in itertools.combinations(t, 2):
        out.append(("comma", a, b))
        out.append(("or", a, b))
    out.append(("t", "color"))
    for a in t:
        out.append(("ex", a))                           # a member GROUP that holds the term directly
    for a, b in itertools.permutations(t, 2):
        out.append(("comma", a, ("ex", b)))             # a tag and, next to it, a group holding the other term
    for a in t:
        out.append(("and", a, ("w", "???")))            # a tag and any member group
        out.append(("comma", ("w", "??"), a))           # any member tag and (another) tag carrying the term
    return out


def optional_parts():
    t = [("t", x) for x in T3]
    out = list(t)
    for a, b in itertools.combinations(t, 2):
        out.append(("and", a, b))
        out.append(("or", a, b))
    out += [("w", "?"), ("w", "??"), ("w", "???"), ("t", "color")]
    for a in t:
        out.append(("ex", a))
    return out


def queries(quick):
    """-> list of (ast, form) ; form in ex / ex0 / exo / desc"""
    out = []
    req, opt = required_parts(), optional_parts()
    for x in req:
        out.append((("ex", x), "ex"))
        out.append((("ex0", x), "ex0"))
        for y in opt:
            out.append((("exo", x, y), "exo"))
    t = [("t", x) for x in T3]
    for a in t + [("t", "color")]:
        out.append((("desc", a), "desc"))
    for a, b in itertools.product(t, repeat=2):
        out.append((("desc", ("and", a, b)), "desc"))
    for a, b in itertools.combinations(t, 2):
        out.append((("desc", ("comma", a, b)), "desc"))
        out.append((("desc", ("or", a, b)), "desc"))
    return out


def to_tuple(a):
    return tuple(to_tuple(x) if isinstance(x, (list, tuple)) else x for x in a)


# ------------------------------------------------------------------------------------------------ the evaluator
def members(e, g):
    """the matches of expression e among the direct members of group g: a set of frozensets of positions in g"""
    k = e[0]
    if k == "t":
        return {frozenset([i]) for i, c in enumerate(g) if isinstance(c, str) and c in TERMS[e[1]]}
    if k == "w":
        if e[1] == "?":
            return {frozenset([i]) for i in range(len(g))}
        want_tag = e[1] == "??"
        return {frozenset([i]) for i, c in enumerate(g) if isinstance(c, str) == want_tag}
    if k in ("and", "comma"):
        return {a | b for a in members(e[1], g) for b in members(e[2], g) if not (a & b)}
    if k == "or":
        return members(e[1], g) | members(e[2], g)
    if k in ("ex", "ex0", "exo"):
        return {frozenset([i]) for i, c in enumerate(g) if not isinstance(c, str) and holds_for_group(e, c)}
    raise AssertionError(k)


def holds_for_group(q, g):
    """{X} / {X:} / {X: Y} for ONE group g"""
    everything = frozenset(range(len(g)))
    ms = members(q[1], g)
    if q[0] == "ex":
        return bool(ms)
    if any(m == everything for m in ms):
        return True
    if q[0] == "ex0":
        return False
    ys = members(q[2], g)
    return any(not (m & y) and (m | y) == everything for m in ms for y in ys)


def _leaf_ids(g, counter):
    out = []
    for c in g:
        if isinstance(c, str):
            out.append((counter[0], c))
            counter[0] += 1
        else:
            out.extend(_leaf_ids(c, counter))
    return out


def anywhere(e, leaves_):
    """matches of a term-level expression among ALL tags below a group (any level): sets of tag ids"""
    k = e[0]
    if k == "t":
        return {frozenset([i]) for i, lab in leaves_ if lab in TERMS[e[1]]}
    if k in ("and", "comma"):
        return {a | b for a in anywhere(e[1], leaves_) for b in anywhere(e[2], leaves_) if not (a & b)}
    if k == "or":
        return anywhere(e[1], leaves_) | anywhere(e[2], leaves_)
    raise AssertionError(k)


def expected(q, tree):
    """does the query hold for the annotation (a forest: the top level is not a group)"""
    if q[0] == "desc":
        return any(bool(anywhere(q[1], _leaf_ids(g, [0]))) for g in groups_of(tree))
    return any(holds_for_group(q, g) for g in groups_of(tree))


def optional_never_a_member(q, tree):
    """precondition of the relation {X: Y} == {X:} : in no group where X has a match among the members does Y have one
    (the optional terms occur, if at all, only deeper inside sub-groups or elsewhere)"""
    return all(not (members(q[1], g) and members(q[2], g)) for g in groups_of(tree))
