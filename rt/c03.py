"""C03  Every spelling of a schema tag resolves to the same node and canonical forms  (tier T3, bounded runtime).

For every tag of every bundled schema (the vocabulary is read INDEPENDENTLY from the bundled XML files by nesting
of <node> elements), loaded stand-alone, merged (two libraries with the same standard partner), with a namespace
prefix and inside schema groups, and for generated schemas (random trees put into the 8.3.0 XML frame):
every suffix-path spelling x case variants x {none, value / placeholder, extension} is handed to the real HedTag /
HedString / get_tag_entry / convert_to_form and compared with what the property says (same node, suffix verbatim,
canonical short and long text, long/short mutually inverse and idempotent).
Values and extensions also carry ':' in the first / a middle / the last '/'-separated piece (a colon behind the first slash
never is a namespace separator).  History part (rt/c03_history.py): the same texts converted in bulk under schema S1, S2, S1
again give what each schema defines (tags that moved between bundled versions), whatever was converted before.
Table part (rt/c03_table.py): TabularInput / SpreadsheetInput / BaseInput built from DataFrames and TSV text, their HED columns holding
annotations of tags in every spelling with values, extensions, namespace prefixes, n/a and empty cells; convert_to_short /
convert_to_long of the input object convert every cell exactly as the string level converts it, are mutually inverse and
idempotent, and leave the other columns alone.
"""
import json
import multiprocessing
import os
import random
import xml.etree.ElementTree as ET

from rt.common import Workload, main, schema

WORKERS = 14
BLOCK = 60                      # tags per work unit
VALUE_SUFFIX = "/Val 7:xY"      # blank, colon, mixed case: has to come back verbatim
PLACEHOLDER_SUFFIX = "/#"
# values with ':' and '/' inside: a colon after the first slash of a tag is never a namespace separator, wherever it sits
COLON_VALUES = [("value:colon-in-first-piece", "/run:01/part-2"), ("value:colon-in-middle-piece", "/a/b:2/c"),
                ("value:colon-in-last-piece", "/a/b/c:3"), ("value:time", "/08:30"), ("value:time-then-piece", "/08:30/x")]
EXT_TERMS = ["Ext-X9q", "Sub_zQ"]
QUICK_TAGS_PER_SCHEMA = 250
# configurations of the table part in the quick tier (thorough: all), generated schemas always
TABLE_QUICK = ("8.3.0", "score_2.0.0", "merged testlib_2.0.0+score_1.1.0", "prefixed sc:score_1.1.0",
               "group 8.3.0 + ts:testlib_2.0.0 + sc:score_2.0.0")
CASES = ("asis", "lower", "upper", "swap")

# (label, argument of load_schema_version, xml files that make up the vocabulary of each member in load order)
BUNDLED = [
    ("8.0.0", "8.0.0", [["HED8.0.0"]]),
    ("8.1.0", "8.1.0", [["HED8.1.0"]]),
    ("8.2.0", "8.2.0", [["HED8.2.0"]]),
    ("8.3.0", "8.3.0", [["HED8.3.0"]]),
    ("score_1.0.0", "score_1.0.0", [["HED_score_1.0.0"]]),
    ("score_1.1.0", "score_1.1.0", [["HED_score_1.1.0"]]),
    ("score_2.0.0", "score_2.0.0", [["HED_score_2.0.0"]]),
    ("testlib_1.0.2", "testlib_1.0.2", [["HED_testlib_1.0.2"]]),
    ("testlib_2.0.0", "testlib_2.0.0", [["HED_testlib_2.0.0"]]),
    ("testlib_2.1.0", "testlib_2.1.0", [["HED_testlib_2.1.0"]]),
    ("testlib_3.0.0", "testlib_3.0.0", [["HED_testlib_3.0.0"]]),
    ("merged testlib_2.0.0+score_1.1.0", '["testlib_2.0.0", "score_1.1.0"]', [["HED_testlib_2.0.0", "HED_score_1.1.0"]]),
    ("prefixed sc:score_1.1.0", "sc:score_1.1.0", [["HED_score_1.1.0"]]),
    ("group 8.2.0 + sc:score_1.1.0", '["8.2.0", "sc:score_1.1.0"]', [["HED8.2.0"], ["HED_score_1.1.0"]]),
    ("group 8.3.0 + ts:testlib_2.0.0 + sc:score_2.0.0", '["8.3.0", "ts:testlib_2.0.0", "sc:score_2.0.0"]',
     [["HED8.3.0"], ["HED_testlib_2.0.0"], ["HED_score_2.0.0"]]),
]


# ------------------------------------------------------------------------------------------------------
# independent vocabulary: long names by nesting of <node> in the XML text
# ------------------------------------------------------------------------------------------------------
def _schema_data_dir():
    import hed.schema
    return os.path.join(os.path.dirname(hed.schema.__file__), "schema_data")


def xml_long_names(root):
    names = []

    def walk(el, prefix):
        for node in el.findall("node"):
            name = node.find("name").text
            long_name = prefix + name
            names.append(long_name)
            walk(node, long_name + "/")
    walk(root.find("schema"), "")
    return names


_vocab_cache = {}


def vocabulary(files):
    key = tuple(files)
    if key not in _vocab_cache:
        names = []
        seen = set()
        for f in files:
            for n in xml_long_names(ET.parse(os.path.join(_schema_data_dir(), f + ".xml")).getroot()):
                if n not in seen:           # a merged pair shares the tags of the standard partner
                    seen.add(n)
                    names.append(n)
        _vocab_cache[key] = names
    return _vocab_cache[key]


# ------------------------------------------------------------------------------------------------------
# generated schemas: random trees inside the frame (all non-tag sections) of the bundled 8.3.0 XML
# ------------------------------------------------------------------------------------------------------
_SYLL = ["Ab", "ab-c", "B", "Red", "X1", "x_2", "Tag", "Long-name-with-hyphens", "Q", "Zed9", "mid", "Event", "a", "Z-z"]


def generate_schema_xml(seed, n_nodes):
    rng = random.Random(seed)
    frame = ET.parse(os.path.join(_schema_data_dir(), "HED8.3.0.xml")).getroot()
    sch = frame.find("schema")
    for child in list(sch):
        sch.remove(child)
    used = set()

    def fresh_name():
        while True:
            k = rng.choice([1, 1, 2, 3])
            name = "-".join(rng.choice(_SYLL) for _ in range(k))
            if rng.random() < 0.3:
                name += str(rng.randrange(100))
            if name.casefold() not in used:
                used.add(name.casefold())
                return name

    def add_node(parent, name, attrs=()):
        node = ET.SubElement(parent, "node")
        ET.SubElement(node, "name").text = name
        for a in attrs:
            ET.SubElement(ET.SubElement(node, "attribute"), "name").text = a
        return node

    nodes = []      # (element, may_get_children)
    for _ in range(n_nodes):
        cands = [x for x in nodes if x[1]]
        if not cands or rng.random() < 0.08:
            parent_el = sch
            attrs = ("extensionAllowed",) if rng.random() < 0.5 else ()
        else:
            # half of the time extend the newest node, which gives long chains (many suffix spellings)
            parent_el = (cands[-1] if rng.random() < 0.5 else rng.choice(cands))[0]
            attrs = ()
        el = add_node(parent_el, fresh_name(), attrs)
        takes_value = rng.random() < 0.2
        if takes_value:
            add_node(el, "#", ("takesValue",))
        nodes.append((el, not takes_value or rng.random() < 0.3))
    return ET.tostring(frame, encoding="unicode"), xml_long_names(frame)


# ------------------------------------------------------------------------------------------------------
# loading (cached per process)
# ------------------------------------------------------------------------------------------------------
_loaded = {}


def load(spec):
    """spec = ('bundled', arg) or ('generated', seed, n_nodes, namespace) -> (schema object, [member schemas])"""
    key = json.dumps(spec)
    if key not in _loaded:
        if spec[0] == "bundled":
            S = schema(spec[1])
        else:
            from hed.schema import from_string
            xml, _ = generate_schema_xml(spec[1], spec[2])
            S = from_string(xml, ".xml", schema_namespace=spec[3] or None)
        members = list(S._schemas.values()) if hasattr(S, "_schemas") else [S]
        _loaded[key] = (S, members)
    return _loaded[key]


# ------------------------------------------------------------------------------------------------------
# the checks for one tag
# ------------------------------------------------------------------------------------------------------
def case_variant(text, how):
    return {"asis": text, "lower": text.lower(), "upper": text.upper(), "swap": text.swapcase()}[how]


def suffix_spellings(long_name):
    terms = long_name.split("/")
    return ["/".join(terms[j:]) for j in range(len(terms))]


def check_tag(S, member, long_name, vocab_set, term_set, rec, stats):
    """all clauses for one tag (given by its long name from the XML) of one member schema.
    rec(clause, input, observed, expected); returns list of case keys"""
    from hed.models.hed_tag import HedTag
    from hed.models.hed_string import HedString
    ns = member._namespace
    short_name = long_name.split("/")[-1]
    table = member.tags.all_names
    keys = []
    e = table.get(long_name.casefold())
    has_value_child = (long_name + "/#") in vocab_set
    v = table.get((long_name + "/#").casefold())
    base_input = {"tag": long_name, "namespace": ns}
    ok_entry = (e is not None and e.name == long_name and e.long_tag_name == long_name and e.short_tag_name == short_name
                and (v is not None) == has_value_child
                and (v is None or (v.name == long_name + "/#" and v.long_tag_name == long_name and v.short_tag_name == short_name
                                   and e.takes_value_child_entry is v))
                and (has_value_child or e.takes_value_child_entry is None))
    if not ok_entry:
        rec("C03.vocabulary.node_of_xml_present", base_input,
            None if e is None else [e.long_tag_name, e.short_tag_name, v is not None], [long_name, short_name, has_value_child])
        if e is None:
            return keys

    if has_value_child:
        suffixes = [("none", ""), ("value", VALUE_SUFFIX), ("placeholder", PLACEHOLDER_SUFFIX)] + COLON_VALUES
    else:
        ext = [t for t in EXT_TERMS]
        while any(x.casefold() in term_set for x in ext):       # an extension term must not be a tag of the schema
            ext = [x + "q" for x in ext]
        suffixes = [("none", ""), ("extension", "/" + ext[0]), ("extension2", "/" + ext[0] + "/" + ext[1]),
                    ("extension:colon-in-first-piece", "/%s:1/%s" % (ext[0], ext[1])),
                    ("extension:colon-in-middle-piece", "/%s/%s:2/%s" % (ext[0], ext[1], ext[0])),
                    ("extension:colon-in-last-piece", "/%s/%s:3" % (ext[0], ext[1]))]

    conv_memo = {}
    spellings = suffix_spellings(long_name)
    for kind, R in suffixes:
        expected_entry = v if (R and has_value_child) else e
        exp_short = ns + short_name + R
        exp_long = ns + long_name + R
        sample_texts = []
        refs = None
        for j, spelling in enumerate(spellings):
            keys.append("%s|%d|%s" % (long_name, j, kind))
            seen = set()
            for how in CASES:
                written = case_variant(spelling, how)
                if written in seen or len(written) != len(spelling) or written.casefold() != spelling.casefold():
                    continue        # duplicates; characters whose case mapping changes the length are outside the claim
                seen.add(written)
                text = ns + written + R
                inp = {"text": text, "tag": long_name, "namespace": ns, "spelling": j, "case": how, "suffix": kind}
                stats["spellings"] += 1
                try:
                    t = HedTag(text, S)
                    entry = t._schema_entry
                    obs_forms = [t.short_tag, t.long_tag, t.base_tag, t.short_base_tag]
                    obs_ext = [t.extension, t.org_base_tag, t.org_tag]
                    exists = t.tag_exists_in_schema()
                    if refs is None:
                        refs = (HedTag(exp_short, S), HedTag(exp_long, S))
                    same_hash = hash(t) == hash(refs[0]) == hash(refs[1]) and t == refs[1] and refs[0] == t
                except Exception as ex:  # noqa
                    rec("C03.resolve.never_raises", inp, repr(ex), "no exception")
                    continue
                if entry is not expected_entry or not exists:
                    clause = {"none": "C03.resolve.same_node", "value": "C03.resolve.value_node",
                              "placeholder": "C03.resolve.value_node"}.get(kind.split(":")[0], "C03.resolve.extension_node")
                    if how != "asis" and _resolves(HedTag, S, ns + spelling + R, expected_entry):
                        clause = "C03.resolve.case_insensitive"
                    rec(clause, inp, None if entry is None else entry.name, expected_entry.name)
                    continue
                if obs_ext != [R[1:], ns + written, text]:
                    rec("C03.suffix.verbatim", inp, obs_ext, [R[1:], ns + written, text])
                if obs_forms != [exp_short, exp_long, long_name, short_name]:
                    rec("C03.forms.canonical_text", inp, obs_forms, [exp_short, exp_long, long_name, short_name])
                if not same_hash:
                    rec("C03.forms.equal_and_same_hash", inp, "tag != its long form or hash differs from its short form",
                        "equal, same hash")
                # conversions (memoised on the produced texts: identical for all spellings when the above holds)
                ck = (obs_forms[0], obs_forms[1])
                if ck not in conv_memo:
                    conv_memo[ck] = _conversions(HedTag, S, obs_forms[0], obs_forms[1], expected_entry)
                for clause, observed, expected in conv_memo[ck]:
                    rec(clause, inp, observed, expected)
                if not R or kind == "placeholder":
                    want = expected_entry
                    try:
                        got = [S.get_tag_entry(ns + written + R, schema_namespace=ns), S.get_tag_entry(written + R, schema_namespace=ns)]
                    except Exception as ex:  # noqa
                        got = [repr(ex)]
                    if any(g is not want for g in got):
                        rec("C03.lookup.get_tag_entry", inp, [getattr(g, "name", g) for g in got], want.name)
                if how in ("asis", "upper") and (j in (0, len(spellings) - 1, len(spellings) // 2)):
                    sample_texts.append(text)
        # string level: several spellings in one annotation, printed in short and long form
        if sample_texts:
            a, b, c = sample_texts[0], sample_texts[len(sample_texts) // 2], sample_texts[-1]
            src = "%s,(%s,(%s))" % (a, b, c)
            inp = {"string": src, "tag": long_name, "namespace": ns, "suffix": kind}
            try:
                hs = HedString(src, S)
                got = [hs.get_as_long(), hs.get_as_short(), str(hs)]
            except Exception as ex:  # noqa
                got = [repr(ex)]
            want = ["%s,(%s,(%s))" % (x, x, x) for x in (exp_long, exp_short, exp_short)]
            if got != want:
                rec("C03.string.short_long_forms", inp, got, want)
            stats["strings"].append((src, want[0], want[1]))
    return keys


def _resolves(HedTag, S, text, expected_entry):
    try:
        return HedTag(text, S)._schema_entry is expected_entry
    except Exception:  # noqa
        return False


def _conversions(HedTag, S, short_text, long_text, expected_entry):
    """long(short(t)) == long(t), short(long(t)) == short(t), idempotence, same node"""
    out = []
    try:
        ts = HedTag(short_text, S)
        tl = HedTag(long_text, S)
        if ts.long_tag != long_text:
            out.append(("C03.forms.long_of_short", ts.long_tag, long_text))
        if tl.short_tag != short_text:
            out.append(("C03.forms.short_of_long", tl.short_tag, short_text))
        if ts.short_tag != short_text or tl.long_tag != long_text \
                or HedTag(ts.long_tag, S).long_tag != ts.long_tag or HedTag(tl.short_tag, S).short_tag != tl.short_tag:
            out.append(("C03.forms.idempotent", [ts.short_tag, tl.long_tag], [short_text, long_text]))
        if ts._schema_entry is not expected_entry or tl._schema_entry is not expected_entry:
            out.append(("C03.forms.same_node_after_conversion",
                        [getattr(ts._schema_entry, "name", None), getattr(tl._schema_entry, "name", None)], expected_entry.name))
    except Exception as ex:  # noqa
        out.append(("C03.resolve.never_raises", repr(ex), "no exception"))
    return out


# ------------------------------------------------------------------------------------------------------
# work units
# ------------------------------------------------------------------------------------------------------
def _work(unit):
    import warnings
    warnings.simplefilter("ignore")
    label, spec, member_index, vocab_files, names = unit
    fails = {}
    stats = {"spellings": 0, "strings": []}
    keys = []

    def rec(clause, inp, observed, expected):
        inp = dict(inp, schema=label, spec=spec, member=member_index)
        cnt, recs = fails.setdefault(clause, [0, []])
        fails[clause][0] = cnt + 1
        if len(recs) < 3:
            recs.append({"input": inp, "observed": observed, "expected": expected})
    try:
        S, members = load(spec)
        member = members[member_index]
        vocab = vocabulary(vocab_files) if spec[0] == "bundled" else generate_schema_xml(spec[1], spec[2])[1]
        vocab_set = set(vocab)
        term_set = {t.casefold() for n in vocab for t in n.split("/")}
        for long_name in names:
            for k in check_tag(S, member, long_name, vocab_set, term_set, rec, stats):
                keys.append(label + "|" + member._namespace + "|" + k)
        # bulk conversion of a table column (df_util.convert_to_form)
        if stats["strings"]:
            import pandas as pd
            from hed.models.df_util import convert_to_form
            src = [x[0] for x in stats["strings"]]
            for form, idx in (("long_tag", 1), ("short_tag", 2)):
                want = [x[idx] for x in stats["strings"]]
                ser = pd.Series(list(src))
                df = pd.DataFrame({"HED": list(src), "HED2": list(reversed(src)), "other": list(src)})
                one = pd.DataFrame({"only": list(src)})
                convert_to_form(ser, S, form)
                convert_to_form(df, S, form, columns=["HED", "HED2"])
                convert_to_form(one, S, form)
                got = [list(ser), list(df["HED"]), list(reversed(list(df["HED2"]))), list(one["only"])]
                if any(g != want for g in got) or list(df["other"]) != src:
                    bad = [i for i in range(len(src)) if any(g[i] != want[i] for g in got)][:1]
                    rec("C03.string.convert_to_form", {"form": form, "strings": [src[i] for i in bad] or src[:1]},
                        [[g[i] for g in got] for i in bad] or "untouched column changed", [want[i] for i in bad])
    except Exception as ex:  # noqa
        import traceback
        rec("C03.workload.unit_completed", {"names": names[:3]}, traceback.format_exc()[-600:], "no exception")
    return {"fails": fails, "keys": keys, "spellings": stats["spellings"], "strings": len(stats["strings"])}


def _plan(w, label, spec, vocab_files_per_member, members_vocab):
    """work units of one schema configuration; quick tier samples tags (stratified) with w.rng"""
    units = []
    chosen_total = 0
    for mi, vocab in enumerate(members_vocab):
        vocab_set = set(vocab)
        names = [n for n in vocab if not n.endswith("/#")]
        if w.quick and len(names) > QUICK_TAGS_PER_SCHEMA:
            valued = [n for n in names if n + "/#" in vocab_set]
            deepest = sorted(names, key=lambda n: (-n.count("/"), n))[:6]
            roots = [n for n in names if "/" not in n][:4]
            pick = set(deepest + roots)
            pick.update(w.rng.sample(valued, min(len(valued), QUICK_TAGS_PER_SCHEMA // 3)))
            rest = [n for n in names if n not in pick]
            pick.update(w.rng.sample(rest, max(0, min(len(rest), QUICK_TAGS_PER_SCHEMA - len(pick)))))
            names = [n for n in names if n in pick]
        chosen_total += len(names)
        files = vocab_files_per_member[mi] if vocab_files_per_member else None
        for i in range(0, len(names), BLOCK):
            units.append((label, spec, mi, files, names[i:i + BLOCK]))
    return units, chosen_total


def run(w: Workload):
    import warnings
    warnings.simplefilter("ignore")
    w.rule = ("case = (schema configuration, member namespace, tag long name read from the bundled XML, index of the "
              "suffix-path spelling, suffix kind in {none, value '%s', placeholder '/#', five values with ':' in the first / a middle / "
              "the last '/'-separated piece or written as a time 08:30} for nodes with a '#' child resp. "
              "{none, one-term extension, two-term extension, three extensions with ':' in the first / middle / last piece} for "
              "the others); inside a case the spelling is written as is, "
              "lower, upper and swap-case, with the namespace prefix of the member.  thorough: every tag of every "
              "configuration; quick: per member schema the 6 deepest tags, 4 roots, %d value-taking tags and random others "
              "(w.rng) up to %d, every configuration covered.  Configurations: %s + generated schemas.  Table part: case = (configuration, "
              "kind of input object, HED cell, first conversion): cells are annotations of 1-3 such tag texts (9 group shapes, 4 blank "
              "patterns), n/a, empty; thorough: every configuration and 400 tags per member, quick: %s + generated, 36 tags per member."
              % (VALUE_SUFFIX, QUICK_TAGS_PER_SCHEMA // 3, QUICK_TAGS_PER_SCHEMA, [b[0] for b in BUNDLED], list(TABLE_QUICK)))
    configs = []
    for label, arg, files in BUNDLED:
        configs.append((label, ("bundled", arg), files, [vocabulary(f) for f in files]))
    n_gen, n_nodes = (2, 120) if w.quick else (8, 400)
    for g in range(n_gen):
        seed = w.seed * 1000 + g
        ns = "" if g % 2 == 0 else "gg:"
        _, vocab = generate_schema_xml(seed, n_nodes)
        configs.append(("generated seed=%d nodes=%d ns=%r" % (seed, n_nodes, ns), ("generated", seed, n_nodes, ns), None, [vocab]))

    # vocabulary of the loaded object == vocabulary of the XML text (in this process; cheap)
    for label, spec, files, members_vocab in configs:
        try:
            S, members = load(spec)
            for mi, vocab in enumerate(members_vocab):
                got = {x.name for x in members[mi].tags.all_names.values()}
                w.check(got == set(vocab) and len(vocab) == len(set(vocab)) and not members[mi].tags.duplicate_names,
                        "C03.vocabulary.equals_xml_nodes", {"schema": label, "member": mi},
                        sorted(got ^ set(vocab))[:5], "same set of long names, no duplicates")
        except Exception as ex:  # noqa
            w.fail("C03.vocabulary.equals_xml_nodes", {"schema": label}, repr(ex), "schema loads")

    # history: the same texts under schema S1, S2, S1 again, in this one process (before any worker is forked)
    from rt.c03_history import run_history
    run_history(w, load, vocabulary)

    from rt import c03_table
    c03_table.configure(load, vocabulary, generate_schema_xml)
    table_units = c03_table.plan(w, configs, TABLE_QUICK)

    units = []
    per_config = []
    for label, spec, files, members_vocab in configs:
        u, n = _plan(w, label, spec, files, members_vocab)
        units += u
        per_config.append([label, n, sum(len(v) - sum(x.endswith("/#") for x in v) for v in members_vocab), 0, 0])
    index = {c[0]: c for c in per_config}

    ctx = multiprocessing.get_context("fork")
    with ctx.Pool(WORKERS) as pool:
        for unit, res in zip(units, pool.imap(_work, units)):
            for k in res["keys"]:
                w.case(key=k, sample={"case": k} if (w.evaluations % 53 == 0 and len(w.samples) < 8) else None)
            index[unit[0]][3] += len(res["keys"])
            index[unit[0]][4] += res["spellings"]
            for clause in sorted(res["fails"]):
                cnt, recs = res["fails"][clause]
                for r in recs:
                    w.fail(clause, r["input"], r["observed"], r["expected"])
                for _ in range(cnt - len(recs)):
                    w.fail(clause, None)
        for unit, res in zip(table_units, pool.imap(c03_table.work, table_units)):
            for k in res["keys"]:
                w.case(key=k, sample={"case": k} if (w.evaluations % 53 == 0 and len(w.samples) < 8) else None)
            for clause in sorted(res["fails"]):
                cnt, recs = res["fails"][clause]
                for r in recs:
                    w.fail(clause, r["input"], r["observed"], r["expected"])
                for _ in range(cnt - len(recs)):
                    w.fail(clause, None)
            w.part("table " + unit[0], cases=res["cases"], exhaustive=False,
                   bound="%d tags (deepest, roots, value-taking, random) x 3 written texts each (short / partial / full spelling x 4 letter "
                         "cases x no suffix / value / placeholder / value with ':' / one- and two-term extension, with the member's "
                         "prefix) put into %d cells (9 group shapes x 4 blank patterns, every text twice; n/a, empty, unknown tag, "
                         "{reference}) x %d tables of <= %d rows of 6 kinds (TabularInput from DataFrame / TSV text / with a sidecar "
                         "column, SpreadsheetInput with named and numbered tag columns, BaseInput with a mapper) x {to short first, "
                         "to long first} x 4 conversions in a row; the same through df_util.convert_to_form on a bare Series / DataFrame; "
                         "plus %d sibling cells (5 value-taking + 5 other tags per member, each with a value / extension in 6 writings equal "
                         "up to letter case -- name and suffix re-cased independently -- alone, beside a re-cased companion tag in 4 blank "
                         "patterns, and inside a group) in %d tables (all 8 kinds x order as written / reversed / shuffled): several cells "
                         "of one column, and of two columns of one row, differ only in the case of a value or extension"
                         % (sum(len(x) for x in unit[3]), res["cells"], res["tables"], c03_table.ROWS_PER_TABLE,
                            res.get("sibling_cells", 0), res.get("sibling_tables", 0)))
    for label, n_tags, n_all, n_cases, n_spellings in per_config:
        w.part(label, cases=n_cases, bound="%d of %d tags x all suffix-path spellings x 8 (value nodes) or 6 (others) suffix kinds x <= 4 case variants"
               % (n_tags, n_all), exhaustive=(n_tags == n_all), tag_texts_resolved=n_spellings)
    w.exhaustive = not w.quick
    w.not_covered += [
        "spellings whose case variant changes the text length under casefold (no bundled tag name contains such a character)",
        "other values / extensions than the three fixed suffix texts; extension terms that are themselves schema tags "
        "(reported by the code as invalid parent, a C01 matter)",
        "schemas loaded from mediawiki / TSV files or from a URL; the generated schemas reuse the non-tag sections of 8.3.0",
        "the namespace prefix written in another letter case, and texts with a prefix no schema of the group has",
        "table part: .xlsx files; BaseInput.shrink_defs / expand_defs (not form conversions; outside the statement); tables whose HED "
        "columns come from a sidecar's value / categorical entries (those cells are keys or values, not annotations)",
    ]
    w.assumptions += [
        "the bundled XML files are read with xml.etree; a tag's long name is the '/'-join of the <name> texts on its <node> path",
        "'same node' is observed as identity of HedTag._schema_entry with the entry stored under the case-folded long name in "
        "<member>.tags.all_names (the '#' child when a value is written)",
    ]


def replay(w: Workload, case: dict):
    import warnings
    warnings.simplefilter("ignore")
    inp = case["input"]
    if case["clause"].startswith("C03.history") or "pair" in inp:
        from rt.c03_history import replay_history
        return replay_history(w, case, load, vocabulary)
    if inp.get("table"):
        from rt import c03_table
        c03_table.configure(load, vocabulary, generate_schema_xml)
        return c03_table.replay_table(w, case)
    spec = inp["spec"]
    spec = tuple(spec) if isinstance(spec, list) else spec
    files = None
    for label, arg, fl in BUNDLED:
        if label == inp["schema"]:
            files = fl[inp.get("member", 0)]
    names = [inp["tag"]] if "tag" in inp else inp.get("names", [])
    w.case(key=json.dumps(inp, sort_keys=True))
    res = _work((inp["schema"], list(spec), inp.get("member", 0), files, names))
    for clause, (cnt, recs) in res["fails"].items():
        if clause == case["clause"]:
            for r in recs:
                w.fail(clause, r["input"], r["observed"], r["expected"])


if __name__ == "__main__":
    main(run, "C03", replay)
