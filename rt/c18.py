"""C18 - backups restore byte-for-byte and are never half-valid (bounded workload, tier T3).

Part A (histories): generated data trees (<=6 files, 2 directories + root, 2 tasks) x file selections; a backup is created
(BackupManager.create_backup or run_remodel_backup.main), then every sequence (<=3) over
{modify, delete_file, delete_dir, remodel, restore_all, restore[A], restore[B]} is applied to a fresh copy and the tree is
compared with a byte-level model after every step.  The trees include ones whose directory AND file names carry upper-case
letters (Sub-01/EEG/..., _Events.TSV), mixed case over three levels (sUb-03/Ses-X/eEg), an upper-case file in the root and - on a
case-sensitive file system (probed first) - names that differ only in letter case side by side (Sub-09 / sub-09 / SUB-09, eeg / EEG,
k_... / K_... in one directory): restore means byte identity at the ORIGINAL paths and no file anywhere else.
Part B (crash points): a dry run records the file-system calls of create_backup (os.makedirs, shutil.copy2, open, json.dump);
an interruption is injected before / after each of them, and inside each copy and inside the dump (truncated destination);
afterwards a NEW BackupManager must not list the backup (or raise) unless every recorded file is present and complete.
Part C: an existing backup of the same name is never overwritten.
Part D (damaged afterwards): a COMPLETE backup is damaged - one stored copy deleted / renamed (first, middle, last recorded file, the
deepest one in a sub-directory), a file added inside backup_root / next to it, a record entry dropped / added, the record emptied /
removed / cut, backup_root emptied / removed.  A new BackupManager must not list a backup whose record names a copy that is not there
(C18.crash.listed_only_if_complete) nor one whose tree holds files that the record does not name
(C18.damaged.listed_only_if_tree_matches_record); and whoever uses the damaged backup afterwards (new manager, the manager from before
the damage, run_remodel_restore, run_remodel) either gets an exception or every file it was to restore back byte for byte
(C18.damaged.no_silent_partial_restore).
Part E (hidden entries): trees and selections that hold dot-files, files below dot-directories, names / directories beginning with a
blank or an underscore - alone and mixed with ordinary files, given explicitly or found by io_util.get_file_list / run_remodel_backup
with the CLI's filters.  Whatever create_backup accepted (= the record it wrote), a NEW BackupManager lists exactly that, every way of
restoring brings every recorded file back byte for byte, run_remodel starts from it (existing labels C18.create.complete,
C18.restore.*, C18.remodel.*); which hidden files the CLI's own listing selects is recorded, not judged.  Three of these trees also
run through Parts A, B and D.
"""
import builtins
import itertools
import json
import os
import shutil
import sys
import tempfile
import warnings

warnings.filterwarnings("ignore")

from rt.common import Workload, main  # noqa: E402

NAME = "bk1"

UNIVERSE = {
    "sub1/sub1_task_A_events.tsv": b"onset\tduration\tx\ty\n1\t1\ta\t1\n2\t1\tb\t2\n3\t1\tn/a\tn/a\n",
    "sub1/sub1_task_B_events.tsv": b"onset\tduration\tx\ty\n1\t2\tb\t1\n2\t2\ta\t1\n",
    "sub2/sub2_task_A_events.tsv": b"x\ty\nb\t2\nb\tn/a\na\t1",                    # no trailing newline
    "sub2/sub2_task-B_run-1_events.tsv": b"x\ty\r\na\t1\r\nb\t2\r\n",               # BIDS 'task-' spelling, CRLF
    "top_task_B_events.tsv": b"x\ty\nn/a\t1\nb\t2\n",                               # directly in the data root
    "sub2/notes_task_A.bin": bytes(range(0, 40)) + b"\r\n\x00tail",                 # not a table at all
}
FILES = list(UNIVERSE)
HYPHEN = "sub2/sub2_task-B_run-1_events.tsv"

# Part A', letter case: directory and file names with upper-case letters, mixed case, and (on a case-sensitive file system)
# names that differ only in letter case side by side.  A backup is restored to the ORIGINAL paths, whatever their spelling.
CASE_UNIVERSE = {
    "Sub-01/EEG/Sub-01_task_A_events.tsv": b"onset\tduration\tx\ty\r\n1.0\t0.5\ta\t1\r\n2.0\t0.5\tb\t2\r\n",
    "Sub-01/EEG/Sub-01_task_B_Events.TSV": b"x\ty\nb\t7\na\t8\nb\tn/a\n",               # upper case in suffix and extension
    "Sub-01/Sub-01_task_A_Scans.BIN": b"\x00\x01UPPER\r\n" + bytes(range(200, 230)),      # not a table
    "sub-02/eeg/sub-02_task_B_events.tsv": b"x\ty\na\t3\nb\t4\n",                        # all lower case, next to the others
    "sUb-03/Ses-X/eEg/sUb-03_task_A_events.tsv": b"x\ty\nb\t5\nb\t6",                     # mixed case, three levels
    "TOP_task_A_events.tsv": b"x\ty\nb\t9\n",                                            # upper case, directly in the root
    # names that differ only in letter case (directories at both levels, and two files in one directory)
    "Sub-09/eeg/k_task_A_events.tsv": b"x\ty\nb\tSub-09/eeg\n",
    "sub-09/eeg/k_task_A_events.tsv": b"x\ty\nb\tsub-09/eeg\na\t0\n",
    "sub-09/EEG/k_task_A_events.tsv": b"x\ty\nb\tsub-09/EEG\n",
    "sub-09/eeg/K_task_A_events.tsv": b"x\ty\nb\tsub-09/eeg/K\n",
    "sub-09/eeg/k_task_B_events.tsv": b"x\ty\na\t1\nb\ttask B\n",
    "SUB-09/k_task_B_notes.txt": b"SUB-09 notes\n",
}
UNIVERSE.update(CASE_UNIVERSE)
CASE_TREE_UPPER = list(CASE_UNIVERSE)[:6]
CASE_TREE_UPPER_SMALL = ["Sub-01/EEG/Sub-01_task_A_events.tsv", "Sub-01/Sub-01_task_A_Scans.BIN", "sub-02/eeg/sub-02_task_B_events.tsv"]
CASE_TREE_COLLIDE = list(CASE_UNIVERSE)[6:]

# Part E, hidden and oddly named entries: dot-files, files below dot-directories (at the root and deeper, nested), names and
# directories that begin with a blank or an underscore, a name that begins with two dots, a hidden file that is not a table.
HIDDEN_UNIVERSE = {
    "sub2/.sub2_task_stop_events.tsv": b"x\ty\na\tstop\nb\t2\n",                          # dot-file next to ordinary files
    "sub1/.heudiconv/sub1_task_A_events.tsv": b"onset\tduration\tx\ty\n1\t1\tb\theudiconv\n2\t1\ta\t0\n",   # below a dot-directory
    ".git/x_task_B_events.tsv": b"x\ty\nb\tgit\nb\tn/a\na\t1\n",                          # dot-directory directly in the root
    ".hidden_task_A_events.tsv": b"x\ty\r\nb\troot dot\r\n",                              # dot-file directly in the root, CRLF
    ".dot/.deep/.z_task_A_events.tsv": b"x\ty\nb\tdeep\na\t1",                             # hidden at every level, no final newline
    "sub2/..sub2_task_B_events.tsv": b"x\ty\nb\ttwo dots\n",                               # name beginning with two dots
    "sub1/.DS_Store": b"\x00\x00\x00\x01Bud1\r\n" + bytes(range(90, 120)),                 # hidden, not a table
    "sub1/ sub1_task_A_events.tsv": b"x\ty\nb\tleading blank\na\t2\n",                     # leading blank in the name
    "sub1/_sub1_task_B_events.tsv": b"x\ty\nb\tleading underscore\n",                      # leading underscore
    " lead/_u/_x_task_A_events.tsv": b"x\ty\na\t1\nb\tblank dir\n",                        # directories with leading blank / underscore
    "__pycache__/_task_B_events.tsv": b"x\ty\nb\tdunder\n",                                # directory and name of underscores only
}
UNIVERSE.update(HIDDEN_UNIVERSE)
ORD_A1, ORD_A2, ORD_B1 = "sub1/sub1_task_A_events.tsv", "sub2/sub2_task_A_events.tsv", "sub1/sub1_task_B_events.tsv"
HIDDEN_TREES = [
    [ORD_A1, "sub2/.sub2_task_stop_events.tsv", "sub1/.heudiconv/sub1_task_A_events.tsv", ".git/x_task_B_events.tsv", ORD_A2],
    [ORD_B1, "sub1/ sub1_task_A_events.tsv", "sub1/_sub1_task_B_events.tsv", " lead/_u/_x_task_A_events.tsv",
     "__pycache__/_task_B_events.tsv"],
    [".hidden_task_A_events.tsv", ".dot/.deep/.z_task_A_events.tsv", "sub1/.DS_Store", "sub2/..sub2_task_B_events.tsv"],
    ["sub2/.sub2_task_stop_events.tsv"],
    ["sub1/.heudiconv/sub1_task_A_events.tsv"],
    [".git/x_task_B_events.tsv", ORD_A2],
    ["sub1/ sub1_task_A_events.tsv"],
    [ORD_A1, ORD_B1, "sub1/.DS_Store"],
    list(HIDDEN_UNIVERSE) + [ORD_A1, ORD_A2, ORD_B1],
]
HIDDEN_HOWS = ["explicit_all", "explicit_odd", "explicit_events", "listed_events", "listed_star", "cli", "cli_star"]


def is_odd(rel):
    return rel in HIDDEN_UNIVERSE


OPS = [{"operation": "remove_rows", "description": "d", "parameters": {"column_name": "x", "remove_values": ["a"]}},
       {"operation": "rename_columns", "description": "d", "parameters": {"column_mapping": {"y": "yy"}, "ignore_missing": True}}]

ACTIONS = ["modify", "delete_file", "delete_dir", "remodel", "restore_all", "restore_A", "restore_B"]


class Interrupt(BaseException):
    """stands for the process being killed at this point"""


# ------------------------------------------------------------------------------------------------------------
# helpers
# ------------------------------------------------------------------------------------------------------------


def is_events(rel):
    return rel.lower().endswith("_events.tsv")


def select(tree, selection):
    if selection == "all":
        return list(tree)
    if selection == "events":
        return [f for f in tree if is_events(f)]
    if selection == "taskA":
        return [f for f in tree if "task_A" in os.path.basename(f)]
    raise ValueError(selection)


def make_tree(root, tree):
    for rel in tree:
        p = os.path.join(root, rel)
        os.makedirs(os.path.dirname(p), exist_ok=True)
        with open(p, "wb") as fp:
            fp.write(UNIVERSE[rel])


def read_state(root):
    """relative path -> bytes for everything under root except derivatives/"""
    out = {}
    for r, dirs, files in os.walk(root):
        if os.path.realpath(r) == os.path.realpath(root):
            dirs[:] = [d for d in dirs if d != "derivatives"]
        for f in files:
            p = os.path.join(r, f)
            with open(p, "rb") as fp:
                out[os.path.relpath(p, root).replace(os.sep, "/")] = fp.read()
    return out


def read_backup(root, name):
    d = os.path.join(root, "derivatives", "remodel", "backups", name)
    out = {}
    for r, _, files in os.walk(d):
        for f in files:
            p = os.path.join(r, f)
            with open(p, "rb") as fp:
                out[os.path.relpath(p, d).replace(os.sep, "/")] = fp.read()
    return out


def show(state):
    return {k: (v.decode("latin-1") if v is not None else None) for k, v in sorted(state.items())}


def quiet(fn, *a, **k):
    """run a CLI main without its prints"""
    old = sys.stdout
    sys.stdout = open(os.devnull, "w")
    try:
        return fn(*a, **k)
    finally:
        sys.stdout.close()
        sys.stdout = old


def create_backup(root, tree, selection, via_cli):
    from hed.tools.remodeling.backup_manager import BackupManager
    import hed.tools.remodeling.cli.run_remodel_backup as rb
    if via_cli and selection == "events":
        quiet(rb.main, [root, "-bn", NAME, "-x", "derivatives"])
        return True
    man = BackupManager(root)
    files = [os.path.realpath(os.path.join(root, f)) for f in select(tree, selection)]
    return man.create_backup(files, NAME, verbose=False)


def do_restore(root, tasks, via_cli):
    from hed.tools.remodeling.backup_manager import BackupManager
    import hed.tools.remodeling.cli.run_remodel_restore as rs
    if via_cli:
        quiet(rs.main, [root, "-bn", NAME] + (["-t"] + tasks if tasks else []))
    else:
        BackupManager(root).restore_backup(NAME, task_names=tasks, verbose=False)


def do_remodel(root, model):
    import hed.tools.remodeling.cli.run_remodel as rr
    quiet(rr.main, [root, model, "-bn", NAME])


def parse_tsv(b):
    lines = b.decode().splitlines()
    return [ln.split("\t") for ln in lines if ln != ""]


def oracle_remodel(orig_bytes):
    """OPS by their documented meaning: rows whose x is 'a' removed, column y renamed to yy, n/a stays n/a"""
    rows = parse_tsv(orig_bytes)
    head, body = rows[0], rows[1:]
    xi = head.index("x")
    return [[("yy" if h == "y" else h) for h in head]] + [r for r in body if r[xi] != "a"]


# ------------------------------------------------------------------------------------------------------------
# Part A: histories
# ------------------------------------------------------------------------------------------------------------


def first_dir(state):
    """the first (in code-point order) top-level directory that holds a file; spelled exactly as on disk"""
    tops = sorted({f.split("/")[0] for f in state if "/" in f})
    return tops[0] if tops else None


def fs_is_case_sensitive():
    d = tempfile.mkdtemp(prefix="c18cs_")
    try:
        for n in ("Aa", "aa"):
            os.makedirs(os.path.join(d, n))
        return sorted(os.listdir(d)) == ["Aa", "aa"]
    except OSError:
        return False
    finally:
        shutil.rmtree(d, ignore_errors=True)


def apply_model(state, orig, backed, action, ref):
    """byte-level model of one action. returns (expected_state, wildcard_paths)"""
    st = dict(state)
    wild = set()
    if action == "modify":
        for i, f in enumerate(sorted(st)):
            if i % 2 == 0:
                st[f] = b"MOD\t" + st[f][::-1][: max(1, len(st[f]) // 2)]
    elif action == "delete_file":
        if st:
            del st[sorted(st)[0]]
    elif action == "delete_dir":
        d = first_dir(st)
        for f in [f for f in st if d and f.startswith(d + "/")]:
            del st[f]
    elif action == "restore_all":
        for f in backed:
            st[f] = orig[f]
    elif action in ("restore_A", "restore_B"):
        t = action[-1]
        for f in backed:
            base = os.path.basename(f)
            if ("task_" + t) in base:
                st[f] = orig[f]
            elif ("task-" + t) in base:
                wild.add(f)         # BIDS spelling: the docstring of get_task speaks of task_xxx only
    elif action == "remodel":
        for f in backed:
            st[f] = orig[f]
        for f in list(st):
            if is_events(f) and f in ref:
                st[f] = ref[f]
    return st, wild


def real_action(root, action, model, via_cli):
    if action == "modify":
        st = read_state(root)
        for i, f in enumerate(sorted(st)):
            if i % 2 == 0:
                with open(os.path.join(root, f), "wb") as fp:
                    fp.write(b"MOD\t" + st[f][::-1][: max(1, len(st[f]) // 2)])
    elif action == "delete_file":
        st = read_state(root)
        if st:
            os.remove(os.path.join(root, sorted(st)[0]))
    elif action == "delete_dir":
        d = first_dir(read_state(root))
        if d:
            shutil.rmtree(os.path.join(root, d), ignore_errors=True)
    elif action == "restore_all":
        do_restore(root, [], via_cli)
    elif action == "restore_A":
        do_restore(root, ["A"], via_cli)
    elif action == "restore_B":
        do_restore(root, ["B"], via_cli)
    elif action == "remodel":
        do_remodel(root, model)


def eval_history_group(job):
    """one (tree, selection, via_cli) with a list of sequences -> list of (key, nontrivial, fails)"""
    tree, selection, via_cli, seqs = job["tree"], job["selection"], job["via_cli"], job["sequences"]
    out = []
    base = tempfile.mkdtemp(prefix="c18_")
    try:
        model = os.path.join(base, "model.json")
        with open(model, "w") as fp:
            json.dump(OPS, fp)
        orig = {f: UNIVERSE[f] for f in tree}
        backed = select(tree, selection)
        cli_listed = bool(job.get("hidden") and via_cli and selection == "events")
        can_remodel = all(f in backed for f in tree if is_events(f)) or cli_listed
        # pristine template: tree + backup
        tmpl = os.path.join(base, "tmpl")
        os.makedirs(tmpl)
        make_tree(tmpl, tree)
        fails0 = []
        inp0 = {"kind": "history", "tree": tree, "selection": selection, "via_cli": via_cli}
        if job.get("hidden"):
            inp0["hidden"] = True
        try:
            ok = create_backup(tmpl, tree, selection, via_cli)
        except Exception as e:
            ok = None
            fails0.append(("C18.create.complete", inp0, {"exception": type(e).__name__, "message": str(e)[:200]}, "backup created"))
        rec = None
        if ok is not None and cli_listed:
            # which of the hidden files the CLI's own listing selects is not judged: the selection is what the record names
            try:
                with open(os.path.join(tmpl, "derivatives", "remodel", "backups", NAME, "backup_lock.json")) as fp:
                    keys = list(json.load(fp))
                backed = [f for f in tree if f in keys]
                if sorted(backed) != sorted(keys):
                    fails0.append(("C18.create.complete", inp0, {"recorded": sorted(keys)}, "files of the tree"))
            except Exception as e:
                fails0.append(("C18.create.complete", inp0, {"record": type(e).__name__}, "a record"))
                ok = None
        if ok is not None:
            from hed.tools.remodeling.backup_manager import BackupManager
            try:
                man = BackupManager(tmpl)
                rec = man.get_backup(NAME)
            except Exception as e:
                fails0.append(("C18.create.complete", dict(inp0, stage="a new BackupManager lists the backup"),
                               {"exception": type(e).__name__, "message": str(e)[:300]}, {"listed": sorted(backed)}))
                out.append((json.dumps(inp0), True, fails0))
                return out
            bfiles = read_backup(tmpl, NAME)
            exp_b = {"backup_root/" + f: orig[f] for f in backed}
            got_b = {k: v for k, v in bfiles.items() if k != "backup_lock.json"}
            paths_ok = rec is not None and sorted(man.get_backup_files(NAME, original_paths=True)) == \
                sorted(os.path.realpath(os.path.join(tmpl, f)) for f in backed) if backed else rec is not None
            if not ok or rec is None or sorted(rec) != sorted(backed) or got_b != exp_b or not paths_ok \
                    or read_state(tmpl) != orig:
                fails0.append(("C18.create.complete", inp0,
                               {"returned": ok, "recorded": sorted(rec) if rec else rec, "files": sorted(got_b)},
                               {"returned": True, "recorded": sorted(backed)}))
        if fails0:
            out.append((json.dumps(inp0), True, fails0))
            if not (ok and rec):
                return out
            fails0 = []     # a backup exists whose record or layout is not the documented one: the histories still have to hold
        backup0 = read_backup(tmpl, NAME)
        # reference result of the remodeler on the pristine tree
        ref = {}
        if can_remodel:
            r0 = os.path.join(base, "ref")
            shutil.copytree(tmpl, r0)
            try:
                do_remodel(r0, model)
                after = read_state(r0)
                ref = {f: after.get(f) for f in tree if is_events(f)}
                if cli_listed:
                    # a hidden file that the listing of run_remodel does not pick stays as it is (recorded, not judged)
                    ref = {f: v for f, v in ref.items() if not (is_odd(f) and v == orig[f])}
                bad = [f for f in ref if ref[f] is None or parse_tsv(ref[f]) != oracle_remodel(orig[f])]
                other = [f for f in tree if not is_events(f) and after.get(f) != orig[f]]
                if bad or other or set(after) != set(orig):
                    fails0.append(("C18.remodel.result_is_transformed_original", inp0, show(after),
                                   {f: oracle_remodel(orig[f]) for f in ref}))
            except Exception as e:
                fails0.append(("C18.remodel.result_is_transformed_original", inp0,
                               {"exception": type(e).__name__, "message": str(e)[:300]}, "remodel completes"))
                can_remodel = False
            out.append((json.dumps(dict(inp0, ref=True)), True, fails0))
        for seq in seqs:
            inp = dict(inp0, sequence=seq)
            if "remodel" in seq and not can_remodel:
                continue
            fails = []
            work = os.path.join(base, "w")
            shutil.copytree(tmpl, work)
            state = dict(orig)
            nontrivial = False
            try:
                prev_action = None
                for pos, action in enumerate(seq):
                    before = read_state(work)
                    exp, wild = apply_model(state, orig, backed, action, ref)
                    try:
                        real_action(work, action, model, via_cli)
                        err = None
                    except Exception as e:
                        err = e
                    got = read_state(work)
                    step_inp = dict(inp, position=pos)
                    if action.startswith("restore") or action == "remodel":
                        if err is not None:
                            label = "C18.restore.completes" if action != "remodel" else "C18.remodel.completes"
                            fails.append((label, step_inp, {"exception": type(err).__name__, "message": str(err)[:300]}, "no exception"))
                            break
                        if before != exp:
                            nontrivial = True
                    diff = {f for f in set(got) | set(exp) if got.get(f) != exp.get(f)} - wild
                    for f in wild & set(got):
                        if got[f] not in (before.get(f), orig[f]):
                            diff.add(f)
                    if diff:
                        if action == "restore_all":
                            label = "C18.restore.byte_identical"
                        elif action.startswith("restore_"):
                            t = action[-1]
                            task_files = {f for f in diff if ("task_" + t) in os.path.basename(f)}
                            label = "C18.restore.task_filter_restores_task_files" if task_files == diff \
                                else "C18.restore.task_filter_touches_only"
                        elif action == "remodel":
                            label = "C18.remodel.twice_equals_once" if prev_action == "remodel" \
                                else "C18.remodel.starts_from_backup"
                        else:
                            label = "C18.workload.model_of_own_action"
                        fails.append((label, step_inp, show({f: got.get(f) for f in diff}), show({f: exp.get(f) for f in diff})))
                        break
                    if read_backup(work, NAME) != backup0:
                        fails.append(("C18.backup.unchanged_by_later_actions", step_inp, "backup directory content changed", "unchanged"))
                        break
                    state = exp
                    for f in wild:
                        if f in got:
                            state[f] = got[f]
                    prev_action = action
            finally:
                shutil.rmtree(work, ignore_errors=True)
            out.append((json.dumps(inp), nontrivial, fails))
    finally:
        shutil.rmtree(base, ignore_errors=True)
    return out


# ------------------------------------------------------------------------------------------------------------
# Part B: interruption of create_backup
# ------------------------------------------------------------------------------------------------------------


class Injector:
    """counts the file-system calls made from hed.tools.remodeling.backup_manager and interrupts the k-th one"""

    def __init__(self, k=None, mode=None):
        self.k, self.mode = k, mode
        self.trace = []

    def _hit(self, kind):
        self.trace.append(kind)
        return len(self.trace) - 1 == self.k

    def __enter__(self):
        import hed.tools.remodeling.backup_manager as bm
        self.bm = bm
        self.real = (os.makedirs, shutil.copy2, json.dump)
        inj = self
        real_makedirs, real_copy2, real_dump = self.real
        real_open = builtins.open

        def makedirs(*a, **kw):
            hit = inj._hit("makedirs")
            if hit and inj.mode == "before":
                raise Interrupt("before makedirs")
            r = real_makedirs(*a, **kw)
            if hit:
                raise Interrupt("after makedirs")
            return r

        def copy2(src, dst, *a, **kw):
            hit = inj._hit("copy2")
            if hit and inj.mode == "before":
                raise Interrupt("before copy2")
            if hit and inj.mode == "truncated":
                with real_open(src, "rb") as fp:
                    data = fp.read()
                with real_open(dst, "wb") as fp:
                    fp.write(data[: len(data) // 2])
                raise Interrupt("inside copy2")
            r = real_copy2(src, dst, *a, **kw)
            if hit:
                raise Interrupt("after copy2")
            return r

        def fake_open(*a, **kw):
            hit = inj._hit("open")
            if hit and inj.mode == "before":
                raise Interrupt("before open")
            fp = real_open(*a, **kw)
            if hit:
                fp.close()
                raise Interrupt("after open")
            return fp

        def dump(obj, fp, *a, **kw):
            hit = inj._hit("json.dump")
            if hit and inj.mode == "before":
                raise Interrupt("before json.dump")
            if hit and inj.mode == "truncated":
                txt = json.dumps(obj, *a, **kw)
                fp.write(txt[: max(1, len(txt) // 2)])
                fp.flush()
                raise Interrupt("inside json.dump")
            r = real_dump(obj, fp, *a, **kw)
            if hit:
                fp.flush()
                raise Interrupt("after json.dump")
            return r

        os.makedirs, shutil.copy2, json.dump = makedirs, copy2, dump
        bm.open = fake_open
        return self

    def __exit__(self, *exc):
        os.makedirs, shutil.copy2, json.dump = self.real
        if "open" in vars(self.bm):
            del self.bm.open
        return False


def eval_crash_group(job):
    from hed.tools.remodeling.backup_manager import BackupManager
    from hed.errors.exceptions import HedFileError
    tree, selection = job["tree"], job["selection"]
    out = []
    base = tempfile.mkdtemp(prefix="c18c_")
    try:
        orig = {f: UNIVERSE[f] for f in tree}
        backed = select(tree, selection)

        def fresh(tag):
            root = os.path.join(base, tag)
            os.makedirs(root)
            make_tree(root, tree)
            return root

        root = fresh("dry")
        man = BackupManager(root)
        with Injector() as dry:
            man.create_backup([os.path.realpath(os.path.join(root, f)) for f in backed], NAME)
        trace = dry.trace
        shutil.rmtree(root)
        points = []
        for k, kind in enumerate(trace):
            for mode in ("before", "after") + (("truncated",) if kind in ("copy2", "json.dump") else ()):
                points.append((k, kind, mode))
        for k, kind, mode in points:
            inp = {"kind": "crash", "tree": tree, "selection": selection, "call_index": k, "call": kind, "mode": mode,
                   "trace": trace}
            fails = []
            root = fresh(f"p{k}{mode}")
            man = BackupManager(root)
            interrupted = False
            try:
                with Injector(k, mode):
                    man.create_backup([os.path.realpath(os.path.join(root, f)) for f in backed], NAME)
            except Interrupt:
                interrupted = True
            except Exception as e:
                fails.append(("C18.workload.injection", inp, type(e).__name__ + str(e)[:100], "Interrupt"))
            if not interrupted and not fails:
                fails.append(("C18.workload.injection", inp, "not interrupted", "Interrupt"))
            # the data files themselves are never touched by a (crashed) backup
            if read_state(root) != orig:
                fails.append(("C18.crash.data_untouched", inp, show(read_state(root)), show(orig)))
            # a NEW manager: not listed (or raises), or listed with every recorded file present and complete
            listed = None
            try:
                man2 = BackupManager(root)
                listed = man2.get_backup(NAME)
            except HedFileError as e:
                verdict = "HedFileError:" + str(e.code)
            except Exception as e:
                verdict = type(e).__name__
                fails.append(("C18.crash.listing_error_is_documented_HedFileError", inp,
                              {"exception": type(e).__name__, "message": str(e)[:200]},
                              "HedFileError (\"If a backup is inconsistent for any reason\") or no listing"))
            else:
                verdict = "listed" if listed else "not listed"
            if listed:
                bfiles = read_backup(root, NAME)
                bad = [key for key in listed if bfiles.get("backup_root/" + key) != orig.get(key)]
                if bad or sorted(listed) != sorted(backed):
                    fails.append(("C18.crash.listed_only_if_complete", inp,
                                  {"listed": sorted(listed), "missing_or_truncated": bad}, "every recorded file present and complete"))
                else:
                    try:
                        paths = man2.get_backup_files(NAME)
                        if not all(os.path.isfile(p) for p in paths):
                            fails.append(("C18.crash.listed_only_if_complete", inp, paths, "existing files"))
                    except Exception as e:
                        fails.append(("C18.crash.listed_only_if_complete", inp, type(e).__name__, "file list"))
            # the manager object that was interrupted must obey the same rule
            old = man.get_backup(NAME)
            if old:
                bfiles = read_backup(root, NAME)
                bad = [key for key in old if bfiles.get("backup_root/" + key) != orig.get(key)]
                if bad:
                    fails.append(("C18.crash.listed_only_if_complete", dict(inp, manager="interrupted instance"),
                                  {"listed": sorted(old), "missing_or_truncated": bad}, "every recorded file present and complete"))
            out.append((json.dumps(dict(inp, verdict=verdict)), True, fails))
            shutil.rmtree(root, ignore_errors=True)
    finally:
        shutil.rmtree(base, ignore_errors=True)
    return out


# ------------------------------------------------------------------------------------------------------------
# Part C: an existing backup is never overwritten
# ------------------------------------------------------------------------------------------------------------


def eval_overwrite_group(job):
    from hed.tools.remodeling.backup_manager import BackupManager
    from hed.errors.exceptions import HedFileError
    import hed.tools.remodeling.cli.run_remodel_backup as rb
    tree, selection = job["tree"], job["selection"]
    out = []
    base = tempfile.mkdtemp(prefix="c18o_")
    try:
        for how in ("same_manager", "new_manager", "new_manager_other_files", "cli", "default_name_cli"):
            inp = {"kind": "overwrite", "tree": tree, "selection": selection, "how": how}
            fails = []
            root = os.path.join(base, how)
            os.makedirs(root)
            make_tree(root, tree)
            name = BackupManager.DEFAULT_BACKUP_NAME if how == "default_name_cli" else NAME
            files = [os.path.realpath(os.path.join(root, f)) for f in select(tree, selection)]
            man = BackupManager(root)
            first = man.create_backup(files, name if how != "default_name_cli" else None)
            snap = read_backup(root, name)
            # the data changes, then somebody asks for a backup of the same name again
            for f in tree:
                with open(os.path.join(root, f), "ab") as fp:
                    fp.write(b"changed")
            try:
                if how == "same_manager":
                    res = man.create_backup(files, name)
                elif how == "new_manager":
                    res = BackupManager(root).create_backup(files, name)
                elif how == "new_manager_other_files":
                    res = BackupManager(root).create_backup(files[:1], name)
                elif how == "cli":
                    res = quiet(rb.main, [root, "-bn", name, "-x", "derivatives"])
                else:
                    res = quiet(rb.main, [root, "-x", "derivatives"])
                res = {"returned": res}
            except HedFileError as e:
                res = {"HedFileError": str(e.code)}
            except Exception as e:
                res = {"exception": type(e).__name__, "message": str(e)[:200]}
            after = read_backup(root, name)
            refused = res == {"returned": False} or res == {"HedFileError": "BackupExists"}
            if first is not True or after != snap or not refused:
                fails.append(("C18.overwrite.existing_backup_kept", inp,
                              {"first": first, "second": res, "backup_unchanged": after == snap},
                              {"first": True, "second": "False / HedFileError BackupExists", "backup_unchanged": True}))
            out.append((json.dumps(inp), True, fails))
            shutil.rmtree(root, ignore_errors=True)
    finally:
        shutil.rmtree(base, ignore_errors=True)
    return out


# ------------------------------------------------------------------------------------------------------------
# Part D: a COMPLETE backup that is damaged afterwards (copies deleted / renamed, files added, record removed / cut)
# ------------------------------------------------------------------------------------------------------------
GHOST = "ghost/ghost_task_A_events.tsv"
# what a damage does to the relation between the record and the tree (decided from the damage itself, never from the code):
#   missing    : the record names a copy that is not there        -> the backup must not be listed
#   unrecorded : the tree holds a file that the record does not name -> the backup must not be listed as valid
#   no_record  : there is no (readable) record                    -> nothing can be listed
#   none       : control, the backup is complete
DAMAGE_CLASS = {"delete_copy": "missing", "rename_copy": "missing", "record_adds_entry": "missing", "empty_backup_root": "missing",
                "remove_backup_root": "missing", "extra_file": "unrecorded", "record_emptied": "unrecorded",
                "record_drops_entry": "unrecorded", "remove_record": "no_record", "truncate_record": "no_record", "none": "none"}
CL_DAMAGED_TREE = "C18.damaged.listed_only_if_tree_matches_record"
CL_DAMAGED_RESTORE = "C18.damaged.no_silent_partial_restore"


def damages_for(backed):
    """the damaged states of one complete backup: every kind at the first / middle / last recorded copy and at the copy that
    lies deepest in a sub-directory"""
    n = len(backed)
    pos = {0: "first", n // 2: "middle", n - 1: "last"}
    sub = [i for i, f in enumerate(backed) if "/" in f]
    if sub:
        pos.setdefault(max(sub, key=lambda i: (backed[i].count("/"), i)), "in sub-directory")
    out = [{"damage": "none"}]
    for i, where in sorted(pos.items()):
        out.append({"damage": "delete_copy", "file": backed[i], "position": where})
        out.append({"damage": "rename_copy", "file": backed[i], "position": where, "to": backed[i] + ".bak"})
        out.append({"damage": "record_drops_entry", "file": backed[i], "position": where})
    if n > 1:
        out.append({"damage": "rename_copy", "file": backed[0], "position": "first", "to": "moved_" + os.path.basename(backed[0])})
    dirs = sorted({os.path.dirname(f) for f in backed if "/" in f})
    out.append({"damage": "extra_file", "at": "backup_root/extra_task_A_events.tsv"})
    if dirs:
        out.append({"damage": "extra_file", "at": "backup_root/" + dirs[-1] + "/extra_task_B_events.tsv"})
    out.append({"damage": "extra_file", "at": "backup_root/new_dir/deeper/extra.txt"})
    out.append({"damage": "extra_file", "at": "stray_next_to_backup_root.txt"})
    out.append({"damage": "record_adds_entry", "file": GHOST, "position": "last"})
    out.append({"damage": "record_adds_entry", "file": GHOST, "position": "first"})
    out += [{"damage": "record_emptied"}, {"damage": "remove_record"}, {"damage": "truncate_record", "keep": "half"},
            {"damage": "truncate_record", "keep": "nothing"}, {"damage": "truncate_record", "keep": "all but the last byte"},
            {"damage": "empty_backup_root"}, {"damage": "remove_backup_root"}]
    return out


def apply_damage(root, dmg):
    bdir = os.path.join(root, "derivatives", "remodel", "backups", NAME)
    broot = os.path.join(bdir, "backup_root")
    lock = os.path.join(bdir, "backup_lock.json")
    kind = dmg["damage"]
    if kind == "none":
        return
    if kind == "delete_copy":
        os.remove(os.path.join(broot, dmg["file"]))
    elif kind == "rename_copy":
        os.rename(os.path.join(broot, dmg["file"]), os.path.join(broot, dmg["to"]))
    elif kind == "extra_file":
        p = os.path.join(bdir, dmg["at"])
        os.makedirs(os.path.dirname(p), exist_ok=True)
        with open(p, "wb") as fp:
            fp.write(b"x\ty\nextra\t1\n")
    elif kind == "remove_record":
        os.remove(lock)
    elif kind == "truncate_record":
        with open(lock, "rb") as fp:
            data = fp.read()
        keep = {"half": len(data) // 2, "nothing": 0, "all but the last byte": len(data) - 1}[dmg["keep"]]
        with open(lock, "wb") as fp:
            fp.write(data[:keep])
    elif kind in ("record_emptied", "record_drops_entry", "record_adds_entry"):
        with open(lock) as fp:
            rec = json.load(fp)
        if kind == "record_emptied":
            rec = {}
        elif kind == "record_drops_entry":
            del rec[dmg["file"]]
        else:
            stamp = next(iter(rec.values()), "2024-01-01 00:00:00")
            items = list(rec.items())
            items.insert(0 if dmg["position"] == "first" else len(items), (dmg["file"], stamp))
            rec = dict(items)
        with open(lock, "w") as fp:
            json.dump(rec, fp, indent=4)
    elif kind == "empty_backup_root":
        shutil.rmtree(broot)
        os.makedirs(broot)
    elif kind == "remove_backup_root":
        shutil.rmtree(broot)
    else:
        raise ValueError(kind)


def spoil_data(root, tree, backed):
    """the data changes after the backup: every file rewritten, the first backed-up file deleted"""
    exp = {}
    for f in tree:
        exp[f] = b"SPOILED\t" + UNIVERSE[f][:5]
        with open(os.path.join(root, f), "wb") as fp:
            fp.write(exp[f])
    if backed:
        os.remove(os.path.join(root, backed[0]))
        del exp[backed[0]]
    return exp


def eval_damaged_group(job):
    from hed.tools.remodeling.backup_manager import BackupManager
    from hed.errors.exceptions import HedFileError
    import hed.tools.remodeling.cli.run_remodel_restore as rs
    import hed.tools.remodeling.cli.run_remodel as rr
    tree, selection = job["tree"], job["selection"]
    only = job.get("only")
    out = []
    base = tempfile.mkdtemp(prefix="c18d_")
    try:
        orig = {f: UNIVERSE[f] for f in tree}
        backed = select(tree, selection)
        can_remodel = all(f in backed for f in tree if is_events(f)) and any(is_events(f) for f in tree)
        model = os.path.join(base, "model.json")
        with open(model, "w") as fp:
            json.dump(OPS, fp)
        tmpl = os.path.join(base, "tmpl")
        os.makedirs(tmpl)
        make_tree(tmpl, tree)
        BackupManager(tmpl).create_backup([os.path.realpath(os.path.join(tmpl, f)) for f in backed], NAME)
        for di, dmg in enumerate(damages_for(backed)):
            if only is not None and dmg != only:
                continue
            inp = {"kind": "damaged", "tree": tree, "selection": selection, "damage": dmg}
            cls = DAMAGE_CLASS[dmg["damage"]]
            fails = []
            root = os.path.join(base, "d%d" % di)
            shutil.copytree(tmpl, root)
            try:
                stale = BackupManager(root)               # a manager that saw the complete backup
            except Exception as e:
                out.append((json.dumps(inp), True, [("C18.create.complete", dict(inp, stage="a new BackupManager lists the backup"),
                                                     {"exception": type(e).__name__, "message": str(e)[:300]},
                                                     "the complete backup is listed")]))
                break
            try:
                apply_damage(root, dmg)
            except Exception as e:
                out.append((json.dumps(inp), False, [("C18.workload.injection", inp, type(e).__name__ + str(e)[:100], "damage applied")]))
                continue
            after_damage = read_backup(root, NAME)
            # ---- listing by a NEW manager
            man2, listed = None, None
            try:
                man2 = BackupManager(root)
                listed = man2.get_backup(NAME)
                verdict = "not listed" if listed is None else "listed"
            except HedFileError as e:
                verdict = "HedFileError:" + str(e.code)
            except Exception as e:
                verdict = type(e).__name__
                fails.append(("C18.crash.listing_error_is_documented_HedFileError", inp,
                              {"exception": type(e).__name__, "message": str(e)[:200]},
                              "HedFileError (\"If a backup is inconsistent for any reason\") or no listing"))
            if read_state(root) != orig or read_backup(root, NAME) != after_damage:
                fails.append(("C18.crash.data_untouched", inp, "listing the backups changed files", "nothing written"))
            if listed is not None:
                bfiles = read_backup(root, NAME)
                missing = sorted(key for key in listed if bfiles.get("backup_root/" + key) != orig.get(key))
                unrecorded = sorted(k for k in bfiles if k != "backup_lock.json" and
                                    (not k.startswith("backup_root/") or k[len("backup_root/"):] not in listed))
                if cls == "none":
                    if missing or unrecorded or sorted(listed) != sorted(backed):
                        fails.append(("C18.create.complete", inp, {"listed": sorted(listed)}, {"listed": sorted(backed)}))
                elif missing or cls in ("missing", "no_record"):
                    fails.append(("C18.crash.listed_only_if_complete", inp,
                                  {"verdict": verdict, "listed": sorted(listed), "missing_or_truncated": missing},
                                  "not listed (or HedFileError): " + ("the record names a copy that is not there" if cls == "missing"
                                                                      else "there is no complete record")))
                else:
                    fails.append((CL_DAMAGED_TREE, inp, {"verdict": verdict, "listed": sorted(listed), "files_not_in_record": unrecorded},
                                  "not listed as valid (or HedFileError): the backup tree holds files that the record does not name"))
            elif cls == "none":
                fails.append(("C18.create.complete", inp, verdict, "the undamaged backup is listed"))
            # ---- use of the damaged backup: never a partial restore in silence
            routes = [("new_manager", lambda r: BackupManager(r).restore_backup(NAME, verbose=False)),
                      ("cli_restore", lambda r: quiet(rs.main, [r, "-bn", NAME])),
                      ("cli_restore_task_A", lambda r: quiet(rs.main, [r, "-bn", NAME, "-t", "A"]))]
            if can_remodel:
                routes.append(("cli_remodel", lambda r: quiet(rr.main, [r, model, "-bn", NAME])))
            routes.append(("manager_from_before_the_damage", lambda r: stale.restore_backup(NAME, verbose=False)))
            if job.get("quick") and only is None:
                # quick tier: two of the routes per damaged state, rotating with the state and the tree
                k0 = di + len(tree) + len(backed)
                routes = [routes[k0 % len(routes)], routes[(k0 + 2) % len(routes)]]
            for route, fn in routes:         # one after the other in the same tree: the data is rewritten before each use
                fails += _use_damaged(root, tree, backed, orig, dict(inp, route=route), fn, cls, route)
                if read_backup(root, NAME) != after_damage:
                    fails.append(("C18.backup.unchanged_by_later_actions", dict(inp, route=route), "backup directory content changed",
                                  "unchanged"))
                    break
            out.append((json.dumps(dict(inp, damaged_verdict=verdict)), cls != "none", fails))
            shutil.rmtree(root, ignore_errors=True)
    finally:
        shutil.rmtree(base, ignore_errors=True)
    return out


def _use_damaged(work, tree, backed, orig, rinp, fn, cls, route):
    """spoil the data, use the backup through one route: either it raises, or every file it is to restore is back byte for byte"""
    spoiled = spoil_data(work, tree, backed)
    try:
        fn(work)
        err = None
    except Exception as e:
        err = e
    got = read_state(work)
    if err is not None:
        if cls == "none":
            return [("C18.restore.completes" if route != "cli_remodel" else "C18.remodel.completes", rinp,
                     {"exception": type(err).__name__, "message": str(err)[:300]}, "no exception")]
        return []                                           # refused aloud: fine
    exp = dict(spoiled)
    for f in backed:
        if route == "cli_restore_task_A" and "task_A" not in os.path.basename(f):
            if "task-A" in os.path.basename(f) and got.get(f) == orig[f]:
                exp[f] = orig[f]                            # BIDS spelling: either way (see Part A)
            continue
        exp[f] = orig[f]
    if route == "cli_remodel":
        for f in list(exp):
            if is_events(f):
                got[f] = parse_tsv(got[f]) if f in got else None
                exp[f] = oracle_remodel(orig[f])
    if got != exp:
        diff = sorted(f for f in set(got) | set(exp) if got.get(f) != exp.get(f))
        label = CL_DAMAGED_RESTORE if cls != "none" else \
            ("C18.restore.byte_identical" if route != "cli_remodel" else "C18.remodel.starts_from_backup")
        return [(label, rinp, {"returned": "normally", "differing": {f: _show1(got.get(f)) for f in diff}},
                 {"either": "an exception", "or": {f: _show1(exp.get(f)) for f in diff}})]
    return []


def _show1(v):
    return v.decode("latin-1") if isinstance(v, bytes) else v


# ------------------------------------------------------------------------------------------------------------
# Part E: hidden / oddly named entries in the tree and in the selection
# ------------------------------------------------------------------------------------------------------------
CLI_EXCLUDE = ["derivatives", "remodeling"]          # what run_remodel_backup passes to get_file_list with '-x derivatives'


def hidden_selection(root, tree, how):
    """the file list handed to create_backup (None: the CLI main makes its own)"""
    from hed.tools.util import io_util
    full = lambda fs: [os.path.realpath(os.path.join(root, f)) for f in fs]
    if how == "explicit_all":
        return full(tree)
    if how == "explicit_odd":
        return full([f for f in tree if is_odd(f)])
    if how == "explicit_events":
        return full([f for f in tree if is_events(f)])
    if how == "listed_events":
        return io_util.get_file_list(root, name_suffix=["events"], extensions=[".tsv"], exclude_dirs=CLI_EXCLUDE)
    if how == "listed_star":
        return io_util.get_file_list(root, name_suffix=None, extensions=None, exclude_dirs=CLI_EXCLUDE)
    return None


def spoil_hidden(root, tree, accepted):
    """the data changes after the backup: every file rewritten, the first accepted file deleted, and the top-level directory of
    the first accepted odd-named file below a directory removed altogether (a restore has to make hidden directories again)"""
    exp = {}
    for f in tree:
        exp[f] = b"SPOILED\t" + UNIVERSE[f][:5]
        os.makedirs(os.path.dirname(os.path.join(root, f)), exist_ok=True)
        with open(os.path.join(root, f), "wb") as fp:
            fp.write(exp[f])
    gone = set(accepted[:1])
    deep = [f for f in accepted if is_odd(f) and "/" in f]
    if deep:
        top = deep[0].split("/")[0]
        gone |= {f for f in tree if f.startswith(top + "/")}
        shutil.rmtree(os.path.join(root, top), ignore_errors=True)
    for f in gone:
        if os.path.exists(os.path.join(root, f)):
            os.remove(os.path.join(root, f))
        exp.pop(f, None)
    return exp


def eval_hidden_group(job):
    """whatever create_backup accepted: a NEW BackupManager lists the backup with exactly those files, every way of restoring
    brings every accepted file back byte for byte (and nothing else), run_remodel starts from it (twice == once).  Which of the
    hidden files the listing of the CLI selects is recorded, not judged."""
    from hed.tools.remodeling.backup_manager import BackupManager
    import hed.tools.remodeling.cli.run_remodel_backup as rb
    import hed.tools.remodeling.cli.run_remodel_restore as rs
    import hed.tools.remodeling.cli.run_remodel as rr
    tree, how = job["tree"], job["how"]
    inp = {"kind": "hidden", "tree": tree, "how": how}
    fails = []
    note = {}
    orig = {f: UNIVERSE[f] for f in tree}
    base = tempfile.mkdtemp(prefix="c18h_")
    try:
        model = os.path.join(base, "model.json")
        with open(model, "w") as fp:
            json.dump(OPS, fp)
        root = os.path.join(base, "data")
        os.makedirs(root)
        make_tree(root, tree)
        creator = None
        given = None
        try:
            given = hidden_selection(root, tree, how)
            if how.startswith("explicit") and not given:
                return [(json.dumps(dict(inp, hidden_verdict="nothing to select")), False, fails)]
            if given is None:
                quiet(rb.main, [root, "-bn", NAME, "-x", "derivatives"] + (["-e", "*", "-f", "*"] if how == "cli_star" else []))
                ok = True
            else:
                creator = BackupManager(root)
                ok = creator.create_backup(list(given), NAME, verbose=False)
        except Exception as e:
            fails.append(("C18.create.complete", dict(inp, stage="create"), {"exception": type(e).__name__, "message": str(e)[:300]},
                          "backup created"))
            return [(json.dumps(inp), True, fails)]
        # ---- what was accepted = the record that create_backup wrote (read as plain JSON, no manager involved)
        lock = os.path.join(root, "derivatives", "remodel", "backups", NAME, "backup_lock.json")
        try:
            with open(lock) as fp:
                accepted_keys = list(json.load(fp))
        except Exception as e:
            fails.append(("C18.create.complete", dict(inp, stage="record written"), {"returned": ok, "record": type(e).__name__},
                          "create_backup returns True and leaves a record"))
            return [(json.dumps(inp), True, fails)]
        accepted = [f for f in tree if f in accepted_keys]
        note = {"selected_odd": sorted(f for f in accepted if is_odd(f)), "not_selected_odd": sorted(f for f in tree if is_odd(f) and f not in accepted)}
        want = None if given is None or how.startswith("listed") else sorted(os.path.relpath(g, os.path.realpath(root)).replace(os.sep, "/") for g in given)
        copies = {k: v for k, v in read_backup(root, NAME).items() if k != "backup_lock.json"}
        if ok is not True or sorted(accepted) != sorted(accepted_keys) or (want is not None and sorted(accepted_keys) != want) \
                or copies != {"backup_root/" + f: orig[f] for f in accepted} or read_state(root) != orig:
            fails.append(("C18.create.complete", dict(inp, stage="record and copies"),
                          {"returned": ok, "recorded": sorted(accepted_keys), "copies": sorted(copies)},
                          {"returned": True, "recorded": want if want is not None else "files of the tree", "copies": "one per recorded file, same bytes"}))
        if not accepted:
            return [(json.dumps(dict(inp, hidden_verdict="listing selected nothing", **note)), False, fails)]
        backup0 = read_backup(root, NAME)
        # ---- a NEW manager lists it as valid
        try:
            man2 = BackupManager(root)
            listed = man2.get_backup(NAME)
            paths_b = man2.get_backup_files(NAME) if listed else []
            paths_o = man2.get_backup_files(NAME, original_paths=True) if listed else []
            obs = {"listed": sorted(listed) if listed is not None else None, "copies_exist": all(os.path.isfile(x) for x in paths_b),
                   "original_paths": sorted(paths_o) == sorted(os.path.realpath(os.path.join(root, f)) for f in accepted)}
        except Exception as e:
            obs = {"exception": type(e).__name__, "message": str(e)[:300]}
        exp_l = {"listed": sorted(accepted), "copies_exist": True, "original_paths": True}
        if obs != exp_l:
            fails.append(("C18.create.complete", dict(inp, stage="a new BackupManager lists the backup"), obs, exp_l))
        # ---- every way of restoring
        routes = [("new_manager", lambda r: BackupManager(r).restore_backup(NAME, verbose=False), None),
                  ("cli_restore", lambda r: quiet(rs.main, [r, "-bn", NAME]), None),
                  ("cli_restore_task_A", lambda r: quiet(rs.main, [r, "-bn", NAME, "-t", "A"]), "A"),
                  ("new_manager_task_B", lambda r: BackupManager(r).restore_backup(NAME, task_names=["B"], verbose=False), "B")]
        if creator is not None:
            routes.append(("creating_manager", lambda r: creator.restore_backup(NAME, verbose=False), None))
        for route, fn, task in routes:
            rinp = dict(inp, route=route)
            spoiled = spoil_hidden(root, tree, accepted)
            try:
                fn(root)
            except Exception as e:
                fails.append(("C18.restore.completes", rinp, {"exception": type(e).__name__, "message": str(e)[:300]}, "no exception"))
                continue
            got = read_state(root)
            exp = dict(spoiled)
            for f in accepted:
                if task is None or ("task_" + task) in os.path.basename(f):
                    exp[f] = orig[f]
            if got != exp:
                diff = sorted(f for f in set(got) | set(exp) if got.get(f) != exp.get(f))
                if task is None:
                    label = "C18.restore.byte_identical"
                else:
                    label = "C18.restore.task_filter_restores_task_files" if all(("task_" + task) in os.path.basename(f) for f in diff) \
                        else "C18.restore.task_filter_touches_only"
                fails.append((label, rinp, {f: _show1(got.get(f)) for f in diff}, {f: _show1(exp.get(f)) for f in diff}))
            if read_backup(root, NAME) != backup0:
                fails.append(("C18.backup.unchanged_by_later_actions", rinp, "backup directory content changed", "unchanged"))
        # ---- the remodel CLI starts from the backup.  Run when the backup holds every events file of the tree, or when it was made
        # by the CLI's own listing (run_remodel lists the same way, so what it works on is what was backed up)
        ev = [f for f in tree if is_events(f)]
        if ev and (all(f in accepted for f in ev) or how in ("cli", "listed_events")):
            rinp = dict(inp, route="cli_remodel")
            spoiled = spoil_hidden(root, tree, accepted)
            states = []
            for n in (1, 2):
                try:
                    do_remodel(root, model)
                except Exception as e:
                    fails.append(("C18.remodel.completes", dict(rinp, run=n), {"exception": type(e).__name__, "message": str(e)[:300]},
                                  "no exception"))
                    break
                states.append(read_state(root))
            if states:
                got = states[0]
                bad, remodeled = {}, []
                for f in sorted(set(got) | set(spoiled) | set(accepted)):
                    if f in accepted and is_events(f):
                        if f in got and parse_tsv(got[f]) == oracle_remodel(orig[f]):
                            remodeled.append(f)
                        elif not (is_odd(f) and got.get(f) == orig[f]):     # restored, but not picked by run_remodel's listing
                            bad[f] = (got.get(f), "rows of the backed-up original with x != a, y renamed")
                    else:
                        want_f = orig[f] if f in accepted else spoiled.get(f)
                        if got.get(f) != want_f:
                            bad[f] = (got.get(f), want_f)
                note["remodeled_odd"] = sorted(f for f in remodeled if is_odd(f))
                if bad:
                    fails.append(("C18.remodel.starts_from_backup", rinp, {f: _show1(v[0]) for f, v in bad.items()},
                                  {f: _show1(v[1]) for f, v in bad.items()}))
                if len(states) == 2 and states[1] != states[0]:
                    diff = sorted(f for f in set(states[0]) | set(states[1]) if states[0].get(f) != states[1].get(f))
                    fails.append(("C18.remodel.twice_equals_once", rinp, {f: _show1(states[1].get(f)) for f in diff},
                                  {f: _show1(states[0].get(f)) for f in diff}))
                if read_backup(root, NAME) != backup0:
                    fails.append(("C18.backup.unchanged_by_later_actions", rinp, "backup directory content changed", "unchanged"))
        verdict = "all odd names selected" if not note["not_selected_odd"] else "some odd names not selected"
        return [(json.dumps(dict(inp, hidden_verdict=verdict, **note)), any(is_odd(f) for f in accepted), fails)]
    finally:
        shutil.rmtree(base, ignore_errors=True)


# ------------------------------------------------------------------------------------------------------------
# Part F: the data root spelled in different but equivalent ways
# ------------------------------------------------------------------------------------------------------------
SPELLINGS = ["real", "symlink", "trailing", "dotdot", "relative", "symlink_trailing", "relative_dot", "relative_symlink",
             "relative_dotdot_symlink"]
SPELL_ENTRIES = ["api_files_under_spelled_root", "api_files_real", "cli"]


def spell_root(base, how):
    """the directory <base>/ds written in another way; <base>/lnk is a symbolic link to it, <base>/other a sibling directory and
    <base> the current directory"""
    ds = os.path.join(base, "ds")
    return {"real": ds, "symlink": os.path.join(base, "lnk"), "trailing": ds + os.sep,
            "dotdot": os.path.join(base, "other", "..", "ds"), "relative": "ds",
            "symlink_trailing": os.path.join(base, "lnk") + os.sep, "relative_dot": os.path.join(".", "ds"),
            "relative_symlink": "lnk", "relative_dotdot_symlink": os.path.join("other", "..", "lnk")}[how]


def outside_files(base):
    """every file below <base> that is neither in the data set nor the link to it"""
    out = []
    for r, dirs, files in os.walk(base):
        if r == base:
            dirs[:] = [d for d in dirs if d not in ("ds", "lnk")]
        out += [os.path.relpath(os.path.join(r, f), base) for f in files]
    return sorted(out)


def eval_spelling_group(job):
    """one (tree, selection, spelling used to create, entry point): the backup is created through one spelling of the data root
    and then listed / restored / remodeled through the same and through other spellings"""
    from hed.tools.remodeling.backup_manager import BackupManager
    import hed.tools.remodeling.cli.run_remodel_backup as rb
    tree, selection, created_as, entry = job["tree"], job["selection"], job["create"], job["entry"]
    uses = job["uses"]
    out = []
    base = os.path.realpath(tempfile.mkdtemp(prefix="c18sp_"))
    cwd0 = os.getcwd()
    try:
        ds = os.path.join(base, "ds")
        os.makedirs(ds)
        os.makedirs(os.path.join(base, "other"))
        os.symlink(ds, os.path.join(base, "lnk"), target_is_directory=True)
        os.chdir(base)
        make_tree(ds, tree)
        model = os.path.join(base, "model.json")
        with open(model, "w") as fp:
            json.dump(OPS, fp)
        orig = {f: UNIVERSE[f] for f in tree}
        backed = select(tree, selection)
        inp0 = {"kind": "spelling", "tree": tree, "selection": selection, "create": created_as, "entry": entry,
                "root_as_given": spell_root("<base>", created_as)}
        fails0 = []
        root_a = spell_root(base, created_as)
        ok = None
        try:
            if entry == "cli":
                quiet(rb.main, [root_a, "-bn", NAME, "-x", "derivatives"] + (["-e", "*", "-f", "*"] if selection == "all" else []))
                ok = True
            else:
                if entry == "api_files_real":
                    files = [os.path.join(ds, f) for f in backed]
                else:   # full paths that lead through the spelling of the root
                    files = [os.path.join(base if not os.path.isabs(root_a) else "", root_a, f) for f in backed]
                ok = BackupManager(root_a).create_backup(files, NAME, verbose=False)
        except Exception as e:
            fails0.append(("C18.create.complete", dict(inp0, stage="create"), {"exception": type(e).__name__, "message": str(e)[:300]},
                           "backup created"))
        if ok is None:
            out.append((json.dumps(inp0), True, fails0))
            return out
        bdir = os.path.join(ds, "derivatives", "remodel", "backups", NAME)
        broot = os.path.join(bdir, "backup_root")
        exp_b = {"backup_root/" + f: orig[f] for f in backed}
        got = read_backup(ds, NAME)
        got_b = {k: v for k, v in got.items() if k != "backup_lock.json"}
        stray = outside_files(base)
        if not ok or got_b != exp_b or "backup_lock.json" not in got or stray != ["model.json"] or read_state(ds) != orig:
            fails0.append(("C18.create.complete", dict(inp0, stage="copies lie in backup_root of the data set, nothing written elsewhere"),
                           {"returned": ok, "in_backup_dir": sorted(got), "files_outside_the_data_set": stray},
                           {"returned": True, "in_backup_dir": sorted(exp_b) + ["backup_lock.json"], "files_outside_the_data_set": ["model.json"]}))
        out.append((json.dumps(inp0), True, fails0))
        backup0 = read_backup(ds, NAME)
        can_remodel = all(f in backed for f in tree if is_events(f))
        for ui, used_as in enumerate(uses):
            root_b = spell_root(base, used_as)
            inp = dict(inp0, use=used_as, root_as_used=spell_root("<base>", used_as))
            fails = []
            # -- listed as valid by a new manager, whatever the spelling
            try:
                man = BackupManager(root_b)
                rec = man.get_backup(NAME)
                stored = man.get_backup_files(NAME) if rec else None
                origs = man.get_backup_files(NAME, original_paths=True) if rec else None
                inside = stored is not None and all(os.path.realpath(p).startswith(broot + os.sep) and os.path.isfile(p) for p in stored)
                if rec is None or sorted(rec) != sorted(backed) or not inside or \
                        sorted(os.path.realpath(p) for p in origs) != sorted(os.path.join(ds, f) for f in backed):
                    fails.append(("C18.create.complete", dict(inp, stage="a new BackupManager lists the backup"),
                                  {"recorded": sorted(rec) if rec else rec, "stored": stored, "originals": origs},
                                  {"recorded": sorted(backed), "stored": "existing files inside " + broot}))
            except Exception as e:
                fails.append(("C18.create.complete", dict(inp, stage="a new BackupManager lists the backup"),
                              {"exception": type(e).__name__, "message": str(e)[:300]}, {"listed": sorted(backed)}))
            # -- restore (API / CLI) after the data was rewritten and one file deleted
            for via_cli in (False, True):
                rinp = dict(inp, route="run_remodel_restore" if via_cli else "BackupManager.restore_backup")
                spoiled = spoil_data(ds, tree, backed)
                expect = dict(spoiled)
                expect.update({f: orig[f] for f in backed})
                try:
                    do_restore(root_b, [], via_cli)
                except Exception as e:
                    fails.append(("C18.restore.completes", rinp, {"exception": type(e).__name__, "message": str(e)[:300]}, "no exception"))
                    continue
                finally:
                    pass
                now = read_state(ds)
                if now != expect:
                    diff = sorted(f for f in set(now) | set(expect) if now.get(f) != expect.get(f))
                    fails.append(("C18.restore.byte_identical", rinp, {f: _show1(now.get(f)) for f in diff},
                                  {f: _show1(expect.get(f)) for f in diff}))
                if outside_files(base) != ["model.json"]:
                    fails.append(("C18.restore.byte_identical", dict(rinp, stage="nothing written outside the data set"),
                                  outside_files(base), ["model.json"]))
            # -- remodel through this spelling: starts from the backed-up originals, twice == once
            if can_remodel and (selection != "taskA"):
                rinp = dict(inp, route="run_remodel")
                spoil_data(ds, tree, backed)
                states = []
                for n in (1, 2):
                    try:
                        do_remodel(root_b, model)
                        states.append(read_state(ds))
                    except Exception as e:
                        fails.append(("C18.remodel.completes", dict(rinp, run=n), {"exception": type(e).__name__, "message": str(e)[:300]},
                                      "no exception"))
                        break
                if states:
                    bad = sorted(f for f in tree if is_events(f) and
                                 (states[0].get(f) is None or parse_tsv(states[0][f]) != oracle_remodel(orig[f])))
                    bad += sorted(f for f in backed if not is_events(f) and states[0].get(f) != orig[f])
                    if bad:
                        fails.append(("C18.remodel.starts_from_backup", rinp, {f: _show1(states[0].get(f)) for f in bad},
                                      {f: (oracle_remodel(orig[f]) if is_events(f) else _show1(orig[f])) for f in bad}))
                    if len(states) == 2 and states[1] != states[0]:
                        diff = sorted(f for f in set(states[0]) | set(states[1]) if states[0].get(f) != states[1].get(f))
                        fails.append(("C18.remodel.twice_equals_once", rinp, {f: _show1(states[1].get(f)) for f in diff},
                                      {f: _show1(states[0].get(f)) for f in diff}))
            if read_backup(ds, NAME) != backup0:
                fails.append(("C18.backup.unchanged_by_later_actions", inp, "backup directory content changed", "unchanged"))
            out.append((json.dumps(inp), used_as != created_as, fails))
            # leave the data as it was for the next spelling
            for f in tree:
                os.makedirs(os.path.dirname(os.path.join(ds, f)), exist_ok=True)
                with open(os.path.join(ds, f), "wb") as fp:
                    fp.write(orig[f])
    finally:
        os.chdir(cwd0)
        shutil.rmtree(base, ignore_errors=True)
    return out


def spelling_jobs(quick):
    trees_f = [list(FILES), ["sub1/sub1_task_B_events.tsv", HYPHEN, "sub2/notes_task_A.bin", "top_task_B_events.tsv"]]
    jobs = []
    k = 0
    for tree in trees_f:
        for selection in ("all", "events", "taskA"):
            if not select(tree, selection):
                continue
            for create in SPELLINGS:
                for entry in SPELL_ENTRIES:
                    if entry == "cli" and selection == "taskA":
                        continue
                    k += 1
                    if quick:
                        # the same spelling, the real path and two others (rotating so that every ordered pair of spellings occurs)
                        others = [s for s in SPELLINGS if s not in (create, "real")]
                        uses = [create] + (["real"] if create != "real" else []) + [others[(k + j) % len(others)] for j in (0, 3)]
                    else:
                        uses = [create] + [s for s in SPELLINGS if s != create]
                    jobs.append({"kind": "spelling", "tree": tree, "selection": selection, "create": create, "entry": entry,
                                 "uses": uses})
    return jobs


# ------------------------------------------------------------------------------------------------------------
# Part G: "restoring only the requested tasks touches only those files" with task NAMES as users write them: several letters, names that
# share letters, a name that is the beginning of another one - through both entry points, one name and two names asked. The oracle is the
# documented rule of BackupManager.get_task ("the file name contains task_xxx where xxx is in task_names"), written out here.
# ------------------------------------------------------------------------------------------------------------
TASK_TREE = {
    "sub1/sub1_task_go_events.tsv": b"onset\tx\n1\ta\n",
    "sub1/sub1_task_gabor_events.tsv": b"onset\tx\n1\tb\n",
    "sub1/sub1_task_oddball_run-1_events.tsv": b"onset\tx\n1\tc\n2\td\n",
    "sub2/sub2_task_go_events.tsv": b"onset\tx\r\n5\ta\r\n",
    "sub2/sub2_task_gonogo_events.tsv": b"onset\tx\n7\te\n",
    "sub2/sub2_task_rest_events.tsv": b"onset\tx\n9\tf",
}
UNIVERSE.update(TASK_TREE)
TASK_ASKS = (["go"], ["gabor"], ["rest"], ["oddball"], ["go", "rest"], ["gonogo", "gabor"], ["o"], ["g", "r"], ["nosuchtask"])
CL_TASKS = "C18.restore.only_the_files_of_the_tasks_asked"


def eval_tasks_group(job):
    out = []
    base = tempfile.mkdtemp(prefix="c18t_")
    try:
        for ai, asked in enumerate(TASK_ASKS):
            for via_cli in (False, True):
                inp = {"kind": "tasks", "tree": "TASK_TREE", "asked": asked, "via_cli": via_cli}
                root = os.path.join(base, "t%d_%d" % (ai, via_cli))
                os.makedirs(root)
                make_tree(root, list(TASK_TREE))
                create_backup(root, list(TASK_TREE), "all", False)
                for f in TASK_TREE:
                    with open(os.path.join(root, f), "ab") as fp:
                        fp.write(b"edited after the backup\n")
                edited = read_state(root)
                fails = []
                try:
                    do_restore(root, list(asked), via_cli)
                    now = read_state(root)
                    want = {}
                    for f in TASK_TREE:
                        # the documented rule (BackupManager.get_task): the file name contains task_xxx for a requested xxx
                        want[f] = TASK_TREE[f] if any(("task_" + t) in os.path.basename(f) for t in asked) else edited[f]
                    if now != want:
                        bad = sorted(f for f in set(now) | set(want) if now.get(f) != want.get(f))
                        fails.append((CL_TASKS, inp, {f: ("restored" if now.get(f) == TASK_TREE.get(f) else "as edited" if now.get(f) == edited.get(f)
                                                           else "other") for f in bad},
                                      {f: ("restored" if want.get(f) == TASK_TREE.get(f) else "as edited") for f in bad}))
                except (Exception, SystemExit) as e:        # (argparse leaves through SystemExit)
                    fails.append((CL_TASKS, inp, "%s: %s" % (type(e).__name__, str(e)[:200]), "the files of the tasks asked restored, nothing raised"))
                out.append((json.dumps(inp), True, fails))
                shutil.rmtree(root, ignore_errors=True)
    finally:
        shutil.rmtree(base, ignore_errors=True)
    return out


GROUP = {"tasks": eval_tasks_group, "spelling": eval_spelling_group, "history": eval_history_group, "crash": eval_crash_group, "overwrite": eval_overwrite_group, "damaged": eval_damaged_group,
         "hidden": eval_hidden_group}


def eval_job(job):
    try:
        return GROUP[job["kind"]](job)
    except Exception as e:
        import traceback
        return [(json.dumps({k: v for k, v in job.items() if k != "sequences"}), False,
                 [("C18.workload.internal_error", {k: v for k, v in job.items() if k != "sequences"},
                   traceback.format_exc()[-800:], type(e).__name__)])]


# ------------------------------------------------------------------------------------------------------------


def case_trees():
    out = [CASE_TREE_UPPER, CASE_TREE_UPPER_SMALL]
    if fs_is_case_sensitive():
        out.append(CASE_TREE_COLLIDE)
        out.append(["Sub-09/eeg/k_task_A_events.tsv", "sub-09/eeg/k_task_A_events.tsv"])
    return out


def trees(w):
    full = list(FILES)
    fixed = [full,
             ["sub1/sub1_task_A_events.tsv", "sub2/sub2_task_A_events.tsv", HYPHEN],
             ["top_task_B_events.tsv"],
             ["sub1/sub1_task_B_events.tsv", HYPHEN, "sub2/notes_task_A.bin", "top_task_B_events.tsv"]]
    fixed += case_trees()
    if w.quick:
        return fixed
    allsub = [[f for f, b in zip(FILES, bits) if b] for bits in itertools.product((0, 1), repeat=len(FILES)) if any(bits)]
    extra = [t for t in allsub if t not in fixed]
    return fixed + w.rng.sample(extra, 16)


def run(w: Workload):
    w.rule = ("data trees = subsets of a 6-file universe (2 sub-directories + root, tasks A/B, one BIDS 'task-' name, one "
              "file without trailing newline, one CRLF file, one binary file) + %d letter-case trees over a 12-file universe (upper / "
              "mixed-case directory and file names, 1-3 levels deep, root file%s) x selections {all, events only, task A only} x "
              "both entry points (BackupManager API / the three CLI mains); histories = every sequence of length <=3 over "
              "{modify, delete_file, delete_dir, remodel, restore_all, restore[A], restore[B]} on a fresh copy (quick: all of "
              "length <=2 + a sample of length 3); a history is non-trivial when a restore/remodel has something to undo; crash "
              "points = before and after each os.makedirs / shutil.copy2 / open / json.dump call of create_backup, plus a "
              "half-written destination inside each copy and inside the dump"
              % (len(case_trees()), "; names differing only in letter case side by side" if fs_is_case_sensitive() else
                 "; file system is NOT case-sensitive: case-only collisions skipped"))
    seq_all = [list(s) for n in (1, 2, 3) for s in itertools.product(ACTIONS, repeat=n)]
    if w.quick:
        short = [s for s in seq_all if len(s) <= 2]
        long3 = [s for s in seq_all if len(s) == 3]
        seqs_quick = short + w.rng.sample(long3, 50)
    jobs = []
    tl = trees(w)
    case_tl = case_trees()
    for ti, tree in enumerate(tl):
        for selection in ("all", "events", "taskA"):
            if not select(tree, selection):
                continue
            for via_cli in (False, True):
                if w.quick and (ti + (selection == "all") + via_cli) % 2 == 1 and ti > 0 and tree not in case_tl[:1] + case_tl[2:3]:
                    continue
                seqs = seqs_quick if w.quick else seq_all
                # split into 3 jobs to spread the load
                n = (len(seqs) + 2) // 3
                for i in range(0, len(seqs), n):
                    jobs.append({"kind": "history", "tree": tree, "selection": selection, "via_cli": via_cli,
                                 "sequences": seqs[i:i + n]})
            jobs.append({"kind": "crash", "tree": tree, "selection": selection})
            jobs.append({"kind": "overwrite", "tree": tree, "selection": selection})
            jobs.append({"kind": "damaged", "tree": tree, "selection": selection, "quick": w.quick})
    jobs.append({"kind": "tasks"})
    # Part E: hidden / oddly named entries
    for tree in HIDDEN_TREES:
        for how in HIDDEN_HOWS:
            jobs.append({"kind": "hidden", "tree": tree, "how": how})
    hist_hidden = HIDDEN_TREES[:3] if w.quick else HIDDEN_TREES
    for ti, tree in enumerate(hist_hidden):
        for selection in ("all", "events", "taskA"):
            if not select(tree, selection):
                continue
            for via_cli in (False, True):
                if w.quick and (ti + (selection == "all") + via_cli) % 2 == 1:
                    continue
                seqs = seqs_quick if w.quick else seq_all
                n = (len(seqs) + 2) // 3
                for i in range(0, len(seqs), n):
                    jobs.append({"kind": "history", "tree": tree, "selection": selection, "via_cli": via_cli, "hidden": True,
                                 "sequences": seqs[i:i + n]})
            if selection != "taskA":
                jobs.append({"kind": "crash", "tree": tree, "selection": selection})
                jobs.append({"kind": "damaged", "tree": tree, "selection": selection, "quick": w.quick})
    jobs += spelling_jobs(w.quick)
    import multiprocessing as mp
    nproc = min(14, max(1, (os.cpu_count() or 2) - 2))
    with mp.get_context("fork").Pool(nproc) as pool:
        results = pool.map(eval_job, jobs, chunksize=1)
    counts = {"history": 0, "crash": 0, "overwrite": 0, "damaged": 0, "hidden": 0, "spelling": 0, "tasks": 0}
    hidden_verdicts = {}
    verdicts = {}
    damaged_verdicts = {}
    for job, res in zip(jobs, results):
        for key, nontrivial, fails in res:
            counts[job["kind"]] += 1
            d = json.loads(key)
            if "verdict" in d:
                v = d["call"] + "/" + d["mode"] + " -> " + d["verdict"]
                verdicts[v] = verdicts.get(v, 0) + 1
            if "hidden_verdict" in d:
                v = d["how"] + " -> " + d["hidden_verdict"] + (" / remodeled: all selected" if d.get("remodeled_odd") is not None and
                                                                 d.get("remodeled_odd") == d.get("selected_odd") else "")
                hidden_verdicts[v] = hidden_verdicts.get(v, 0) + 1
            if "damaged_verdict" in d:
                v = d["damage"]["damage"] + " -> " + d["damaged_verdict"]
                damaged_verdicts[v] = damaged_verdicts.get(v, 0) + 1
            w.case(key=key, nontrivial=nontrivial, sample=d)
            for clause, inp, obs, exp in fails:
                w.fail(clause, inp, obs, exp)
    w.part("histories after create_backup", cases=counts["history"],
           bound="%d trees (of them %d with upper-case / mixed-case / case-only-differing directory and file names) x selections x "
                 "2 entry points x sequences of length <=3 over 7 actions%s" %
                 (len(tl), len(case_tl), " (length 3 sampled)" if w.quick else " (all 399)"), exhaustive=not w.quick,
                 case_sensitive_file_system=fs_is_case_sensitive())
    w.part("interruption of create_backup", cases=counts["crash"],
           bound="every extern call of create_backup x {before, after, truncated destination}", exhaustive=True,
           listing_after_crash=dict(sorted(verdicts.items())))
    w.part("restore by task name", cases=counts["tasks"],
           bound="one tree with 5 task names (two sharing letters, one the beginning of another) x %d requests (one name, two names, a "
                 "single letter, an unknown name) x 2 entry points" % len(TASK_ASKS), exhaustive=True)
    w.part("same-name backup", cases=counts["overwrite"], bound="5 ways of asking again per tree/selection", exhaustive=True)
    w.part("complete backup damaged afterwards", cases=counts["damaged"],
           bound="per tree/selection: one stored copy deleted / renamed / dropped from the record at the first, middle, last recorded "
                 "file and at the deepest one in a sub-directory; an extra file in backup_root, in an existing and in a new "
                 "sub-directory of it, and next to backup_root; a record entry added for a copy that is not there (first / last); "
                 "record emptied, removed, cut (half, nothing, all but the last byte); backup_root emptied / removed; + the undamaged "
                 "control.  Each state x {new BackupManager + get_backup} and x {restore through a new manager, through the manager from "
                 "before the damage, run_remodel_restore (all / task A), run_remodel}%s after the data was rewritten and one file deleted"
                 % (" (quick: two of these per state, rotating)" if w.quick else ""),
           exhaustive=True, listing_of_damaged=dict(sorted(damaged_verdicts.items())))
    w.part("hidden and oddly named entries in the tree and in the selection", cases=counts["hidden"],
           bound="%d trees over an %d-file universe (dot-files in the root and in sub-directories, files below dot-directories in the root / "
                 "deeper / nested, a name beginning with two dots, a hidden non-table, names and directories beginning with a blank or an "
                 "underscore; alone, and mixed with ordinary files) x %d ways of selecting (explicit list: all / only the odd names / events "
                 "files; io_util.get_file_list with the CLI's filters and with '*' then create_backup; run_remodel_backup.main with its "
                 "defaults and with -e * -f *).  Whatever the record written by create_backup names: a NEW BackupManager lists exactly that, "
                 "restore through a new manager / run_remodel_restore / task A / task B / the creating manager brings every recorded file "
                 "back byte for byte after all data was rewritten, one file deleted and a hidden directory removed, and touches nothing "
                 "else; run_remodel starts from the backup, twice == once.  Which hidden files the CLI's listing selects is recorded "
                 "(listing_of_hidden), not judged.  + %d of these trees through the histories / interruption / damaged parts above"
                 % (len(HIDDEN_TREES), len(HIDDEN_UNIVERSE), len(HIDDEN_HOWS), len(hist_hidden)),
           exhaustive=True, listing_of_hidden=dict(sorted(hidden_verdicts.items())))
    w.part("data root spelled in equivalent ways", cases=counts["spelling"],
           bound="2 trees x selections {all, events, task A} x the spelling used to create the backup (%s) x entry point (BackupManager "
                 "with full file paths leading through that spelling / with the real file paths / run_remodel_backup) x the spelling used "
                 "afterwards (%s): the copies lie in <data set>/derivatives/remodel/backups/<name>/backup_root and nothing is written "
                 "anywhere else; a NEW BackupManager given any spelling lists the backup with exactly the backed-up files, its stored "
                 "paths exist inside backup_root and its original paths are the data files; restore_backup and run_remodel_restore "
                 "through any spelling bring every backed-up file back byte for byte after all data was rewritten and one file "
                 "deleted; run_remodel through any spelling starts from the backup, twice == once"
                 % (", ".join(SPELLINGS), "the same, the real path and two rotating others" if w.quick else "every spelling"),
           exhaustive=not w.quick)
    w.not_covered += [
        "interruption of restore_backup or of the remodeler itself; concurrent managers (a manager whose listing is stale "
        "because another manager created the backup after it was constructed does overwrite - outside the sequential contract)",
        "files of a BIDS 'task-<name>' spelling in a task-filtered restore are only required to be either untouched or restored",
        "file metadata (mtime/permissions); backups_root outside the data root; trees > 6 files",
        "non-ASCII or Unicode-normalisation variants of directory names; symbolic links INSIDE the data set (the data root itself "
        "reached through a link / relative / '..' / trailing separator is covered); case-only collisions on a case-insensitive file system (skipped when the probe says so)",
        "remodel on a tree whose events files are not all in the backup (Dispatcher raises HedFileError by design)",
    ]
    w.assumptions += [
        "a process kill is modelled as a BaseException raised at the extern call (before/after) or after half of the bytes were written",
        "the remodeling result itself is only checked for the tiny list [remove_rows x=a, rename y->yy] (C17 covers the operations)",
    ]


def replay(w: Workload, case: dict):
    inp = case["input"]
    kind = inp["kind"]
    if kind == "history":
        job = {"kind": "history", "tree": inp["tree"], "selection": inp["selection"], "via_cli": inp["via_cli"],
               "sequences": [inp["sequence"]] if "sequence" in inp else [], "hidden": inp.get("hidden", False)}
    elif kind == "hidden":
        job = {"kind": kind, "tree": inp["tree"], "how": inp["how"]}
    elif kind == "spelling":
        job = {"kind": kind, "tree": inp["tree"], "selection": inp["selection"], "create": inp["create"], "entry": inp["entry"],
               "uses": [inp["use"]] if "use" in inp else []}
    elif kind == "damaged":
        job = {"kind": kind, "tree": inp["tree"], "selection": inp["selection"], "only": inp["damage"]}
    elif kind == "tasks":
        job = {"kind": kind}
    else:
        job = {"kind": kind, "tree": inp["tree"], "selection": inp["selection"]}
    for key, nontrivial, fails in eval_job(job):
        w.case(key=key, nontrivial=nontrivial)
        for clause, i2, obs, exp in fails:
            if clause == case["clause"] and all(i2.get(k) == inp.get(k) for k in ("call_index", "mode", "how", "sequence", "damage", "route", "use", "asked", "via_cli")):
                w.fail(clause, i2, obs, exp)


if __name__ == "__main__":
    main(run, "C18", replay)
