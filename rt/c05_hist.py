"""C05 part F helpers: schemas that differ in which sections are EMPTY, for the save-over-an-earlier-save histories.

emptied(base_xml, which) removes whole sections from the XML text of a schema (and the references to them from the nodes), so
that the edited schema has empty Unit / UnitClass / UnitModifier / ValueClass sections where the base has entries.
"""
from xml.etree import ElementTree as ET

EMPTYINGS = {
    "no_modifiers": ("unitModifierDefinitions",),
    "no_units": ("unitClassDefinitions", "unitModifierDefinitions"),
    "no_value_classes": ("valueClassDefinitions",),
    "no_units_no_value_classes": ("unitClassDefinitions", "unitModifierDefinitions", "valueClassDefinitions"),
}
_REFS = {"unitClassDefinitions": "unitClass", "valueClassDefinitions": "valueClass"}


def emptied(base_xml, which):
    """-> XML text of the base schema with the sections of EMPTYINGS[which] emptied"""
    root = ET.fromstring(base_xml)
    for cont in EMPTYINGS[which]:
        el = root.find(cont)
        if el is not None:
            for child in list(el):
                el.remove(child)
        ref = _REFS.get(cont)
        if ref:
            for node in root.iter("node"):
                for a in list(node.findall("attribute")):
                    if a.findtext("name") == ref:
                        node.remove(a)
    return ET.tostring(root, encoding="unicode")


def expected_empty(which):
    """section keys (HedSectionKey names) that must be empty in the edited schema"""
    m = {"unitClassDefinitions": ("UnitClasses", "Units"), "unitModifierDefinitions": ("UnitModifiers",),
         "valueClassDefinitions": ("ValueClasses",)}
    out = []
    for cont in EMPTYINGS[which]:
        out += m[cont]
    return out
