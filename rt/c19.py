"""C19 - the schema cache never serves or keeps a torn schema file (bounded workload, tier T3).

Part A  population: un-interrupted population of an empty temp cache (directly and through load_schema_version) leaves
        byte-identical copies.
Part B  crash points: single-process fault injection at every file operation of the population
        (cache_local_versions/_copy_installed_folder_to_cache): the k-th call of shutil.copy*/os.replace is interrupted
        before / after the call, or after half of the destination was written; in the resulting cache state
        load_schema_version must succeed and equal the bundled schema (for 8.3.0 and for the version whose file was hit),
        and a later complete population must leave no torn file behind.
Part C  cache states an earlier process can leave (only bookkeeping files, garbage timestamp, left-over temp file ...):
        load_schema_version('8.3.0') must succeed.
Part D  CacheLock: two overlapping holders (nested, two threads, two processes; two processes that SPELL the one directory
        differently - trailing separator, relative, '..', doubled slash, symbolic link - in every ordered pair) must not both be
        inside; the second gives up with CacheException after its timeout; a refresh inside the interval raises CacheException (skipped);
        a torn/garbage last_update.txt must not crash.

Part E  the DEFAULT cache directory: child processes with a private HOME (rt/c19_home.py) bring ~/.hedtools/hed_cache/ into the
        states an interrupted population / refresh leaves (a forked process is killed with os._exit before / inside / after the
        k-th file copy; refresh against a stand-in repository; timestamp absent / recent / old / garbage; lock file left
        behind or held by a live process), name the directory not at all / by set_cache_directory(<equivalent spelling>) /
        by a folder argument in an equivalent spelling, and then - network off - call get_hed_versions() and
        load_schema_version for EVERY bundled version (plain, one-element list, prefixed, lists, merged libraries).

The network does not exist: make_url_request is replaced by a function that raises URLError at once and counts calls.
"""
import json
import os
import shutil
import sys
import tempfile
import threading
import time
import warnings
from urllib.error import URLError

warnings.filterwarnings("ignore")

from rt.common import Workload, main  # noqa: E402


class Interrupt(BaseException):
    """stands for the process being killed at this point"""


BOOKKEEPING = ("cache_lock.lock", "last_update.txt")

# ------------------------------------------------------------------------------------------------------------
# environment
# ------------------------------------------------------------------------------------------------------------
_url_calls = []


def _offline(*a, **k):
    _url_calls.append(a[0] if a else None)
    raise URLError("offline (rt.c19)")


class Env:
    """temp cache directory + offline network; restores the module state afterwards"""

    def __enter__(self):
        import hed.schema.hed_cache as hc
        import hed.schema.schema_io.schema_util as su
        self.hc, self.su = hc, su
        self.old_dir = hc.HED_CACHE_DIRECTORY
        self.old_req = (hc.make_url_request, su.make_url_request)
        hc.make_url_request = _offline
        su.make_url_request = _offline
        self.base = tempfile.mkdtemp(prefix="c19_")
        self.n = 0
        return self

    def new_cache(self, create=True):
        self.n += 1
        d = os.path.join(self.base, f"cache{self.n}")
        if create:
            self.hc.set_cache_directory(d)
        else:
            self.hc.HED_CACHE_DIRECTORY = d
        clear_memo()
        return d

    def __exit__(self, *exc):
        self.hc.HED_CACHE_DIRECTORY = self.old_dir       # not set_cache_directory: that would create ~/.hedtools/...
        self.hc.make_url_request, self.su.make_url_request = self.old_req
        clear_memo()
        shutil.rmtree(self.base, ignore_errors=True)
        return False


def clear_memo():
    import hed.schema.hed_schema_io as io_
    import hed.schema.hed_cache as hc
    io_._load_schema_version.cache_clear()
    hc.get_library_data.cache_clear()


def installed_files():
    import hed.schema.hed_cache as hc
    src = hc.INSTALLED_CACHE_LOCATION
    out = {}
    for f in sorted(os.listdir(src)):
        p = os.path.join(src, f)
        if os.path.isfile(p):
            with open(p, "rb") as fp:
                out[f] = fp.read()
    return out


_bundled = {}


def bundled(version):
    """the bundled schema, read straight from the installed file (no cache involved)"""
    if version not in _bundled:
        import hed.schema.hed_cache as hc
        from hed.schema import load_schema
        lib, _, num = version.rpartition("_")
        name = f"HED_{lib}_{num}.xml" if lib else f"HED{num}.xml"
        _bundled[version] = load_schema(os.path.join(hc.INSTALLED_CACHE_LOCATION, name))
    return _bundled[version]


def dir_state(d):
    out = {}
    if not os.path.isdir(d):
        return None
    for f in sorted(os.listdir(d)):
        p = os.path.join(d, f)
        if os.path.isfile(p):
            out[f] = os.path.getsize(p)
        else:
            out[f + "/"] = sorted(os.listdir(p))
    return out


def try_load(version):
    """-> ("ok", equal_to_bundled) | ("exc", description)"""
    from hed.schema import load_schema_version
    clear_memo()
    try:
        s = load_schema_version(version)
    except BaseException as e:  # observation
        return ("exc", type(e).__name__ + ": " + str(e)[:160])
    try:
        return ("ok", s == bundled(version))
    except Exception as e:
        return ("exc", "comparison failed: " + type(e).__name__)


def version_of(fname):
    import hed.schema.hed_cache as hc
    m = hc.version_pattern.match(fname)
    if not m:
        return None
    return (m.group(2) + "_" if m.group(2) else "") + m.group(3)


def has_version_file(d):
    import hed.schema.hed_cache as hc
    return any(hc.version_pattern.match(f) for f in os.listdir(d)) if os.path.isdir(d) else False


# ------------------------------------------------------------------------------------------------------------
# fault injection on the file operations of the population
# ------------------------------------------------------------------------------------------------------------


class Injector:
    """interrupts the k-th call among shutil.copy / shutil.copyfile / shutil.copy2 / os.replace / os.rename made while
    active; optional listing order for os.listdir of the installed folder"""

    def __init__(self, k=None, mode=None, order=None, on_hit=None):
        self.k, self.mode, self.order = k, mode, order
        self.on_hit = on_hit          # if given: called (blocks) at the chosen point instead of interrupting
        self.trace = []

    def __enter__(self):
        import hed.schema.hed_cache as hc
        self.hc = hc
        inj = self
        self.real = {"copy": shutil.copy, "copyfile": shutil.copyfile, "copy2": shutil.copy2,
                     "replace": os.replace, "rename": os.rename, "listdir": os.listdir,
                     "hc_copyfile": hc.copyfile}
        real = self.real
        tl = threading.local()

        def stop(what):
            if inj.on_hit:
                inj.on_hit(what)
            else:
                raise Interrupt(what)

        def wrap(kind, fn, is_copy):
            def f(src, dst, *a, **kw):
                if getattr(tl, "depth", 0):        # shutil.copy calls shutil.copyfile internally: count once
                    return fn(src, dst, *a, **kw)
                inj.trace.append((kind, os.path.basename(str(dst))))
                hit = len(inj.trace) - 1 == inj.k
                if hit and inj.mode == "before":
                    stop(f"before {kind}")
                if hit and inj.mode == "truncated" and is_copy:
                    target = os.path.join(dst, os.path.basename(src)) if os.path.isdir(dst) else dst
                    with open(src, "rb") as fp:
                        data = fp.read()
                    with open(target, "wb") as fp:
                        fp.write(data[: len(data) // 2])
                    stop(f"inside {kind}")
                tl.depth = getattr(tl, "depth", 0) + 1
                try:
                    r = fn(src, dst, *a, **kw)
                finally:
                    tl.depth -= 1
                if hit and inj.mode == "after":
                    stop(f"after {kind}")
                return r
            return f

        def listdir(path="."):
            r = real["listdir"](path)
            if inj.order and os.path.realpath(str(path)) == os.path.realpath(hc.INSTALLED_CACHE_LOCATION):
                first = [x for x in inj.order if x in r]
                rest = [x for x in sorted(r) if x not in first]
                return rest + first if inj.order_last else first + rest
            return r

        self.order_last = False
        if self.order and self.order[0] == "LAST":
            self.order_last = True
            self.order = self.order[1:]
        shutil.copy = wrap("copy", real["copy"], True)
        shutil.copyfile = wrap("copyfile", real["copyfile"], True)
        shutil.copy2 = wrap("copy2", real["copy2"], True)
        hc.copyfile = shutil.copyfile
        os.replace = wrap("replace", real["replace"], False)
        os.rename = wrap("rename", real["rename"], False)
        os.listdir = listdir
        return self

    def __exit__(self, *exc):
        r = self.real
        shutil.copy, shutil.copyfile, shutil.copy2 = r["copy"], r["copyfile"], r["copy2"]
        os.replace, os.rename, os.listdir = r["replace"], r["rename"], r["listdir"]
        self.hc.copyfile = r["hc_copyfile"]
        return False


ORDERS = {"os order": None, "8.3.0 last": ["LAST", "HED8.3.0.xml"], "8.3.0 first": ["HED8.3.0.xml"]}


def crash_job(job):
    """one crash point -> (key, nontrivial, fails)"""
    import hed.schema.hed_cache as hc
    k, mode, order_name = job["k"], job["mode"], job["order"]
    inst = installed_files()
    fails = []
    with Env() as env:
        d = env.new_cache()
        inp = {"kind": "crash", "call_index": k, "mode": mode, "listing_order": order_name}
        victim = None
        interrupted = False
        try:
            with Injector(k, mode, ORDERS[order_name]) as inj:
                hc.cache_local_versions(d)
        except Interrupt:
            interrupted = True
        if inj.trace and k < len(inj.trace):
            victim = inj.trace[k][1]
            inp["call"] = inj.trace[k][0]
        inp["victim_file"] = victim
        if not interrupted:
            return (json.dumps(inp), False, [("C19.workload.injection", inp, "not interrupted", "Interrupt")])
        state = dir_state(d)
        inp["cache_state"] = state
        d2 = d + "_copy"          # the same crash state, for the repair check (independent of what the loads below do)
        shutil.copytree(d, d2)
        # (1) a later load in this cache state succeeds and returns the bundled schema
        versions = ["8.3.0"]
        vv = version_of(victim) if victim else None
        if vv and vv != "8.3.0" and "_" not in vv:
            versions.append(vv)
        for v in versions:
            res = try_load(v)
            if res != ("ok", True):
                fname = f"HED{v}.xml"
                torn = fname in state and state[fname] != len(inst[fname])
                if torn:
                    label = "C19.crash.D15_torn_copy_is_served"
                elif not any(version_of(f) for f in state):
                    label = "C19.crash.D17_directory_without_schema_counts_as_populated"
                elif fname not in state:
                    label = "C19.crash.partial_population_never_completed"
                else:
                    label = "C19.crash.load_after_interruption"
                fails.append((label, dict(inp, load=v), {"load": res[0], "detail": res[1]}, "load succeeds and equals the bundled schema"))
        # (2) a later complete population repairs the directory: no torn schema file is kept
        try:
            hc.cache_local_versions(d2)
            rep = None
        except BaseException as e:
            rep = type(e).__name__ + ": " + str(e)[:120]
        after = {}
        for f in os.listdir(d2):
            p = os.path.join(d2, f)
            if os.path.isfile(p):
                with open(p, "rb") as fp:
                    after[f] = fp.read()
        bad = sorted(f for f in inst if after.get(f) != inst[f])
        stray = sorted(f for f in after if f not in inst and f not in BOOKKEEPING and version_of(f))
        if rep or bad or stray:
            torn = [f for f in bad if f in after]
            label = "C19.crash.D15_torn_copy_is_kept" if torn and mode == "truncated" else "C19.crash.repaired_by_next_population"
            fails.append((label, inp, {"error": rep, "not_identical": bad, "stray_schema_named_files": stray},
                          "every bundled file present and byte-identical"))
    return (json.dumps(inp), True, fails)


def concurrent_job(job):
    """a populating holder is paused at one file operation; meanwhile a loader runs; then the holder finishes"""
    import hed.schema.hed_cache as hc
    k, mode, order_name = job["k"], job["mode"], job["order"]
    inst = installed_files()
    fails = []
    with Env() as env:
        d = env.new_cache()
        inp = {"kind": "concurrent", "call_index": k, "mode": mode, "listing_order": order_name}
        paused, resume = threading.Event(), threading.Event()
        res = {}

        def on_hit(what):
            paused.set()
            resume.wait(60)

        def populate():
            try:
                res["populator"] = hc.cache_local_versions(d)
            except BaseException as e:
                res["populator"] = type(e).__name__ + ": " + str(e)[:100]
            paused.set()

        with Injector(k, mode, ORDERS[order_name], on_hit=on_hit) as inj:
            th = threading.Thread(target=populate)
            th.start()
            paused.wait(60)
            inp["cache_state_seen_by_loader"] = dir_state(d)
            if k < len(inj.trace):
                inp["call"], inp["victim_file"] = inj.trace[k]
            load = try_load("8.3.0")
            resume.set()
            th.join(60)
        if load != ("ok", True):
            state = inp["cache_state_seen_by_loader"] or {}
            fname = "HED8.3.0.xml"
            if fname in state and state[fname] != len(inst[fname]):
                label = "C19.crash.D15_torn_copy_is_served"
            elif fname not in state:
                label = "C19.concurrent.loader_fails_while_population_in_progress"
            else:
                label = "C19.concurrent.load_during_population"
            fails.append((label, inp, {"load": load[0], "detail": load[1]}, "load succeeds and equals the bundled schema"))
        got = {f: open(os.path.join(d, f), "rb").read() for f in os.listdir(d) if os.path.isfile(os.path.join(d, f))}
        bad = sorted(f for f in inst if got.get(f) != inst[f])
        stray = sorted(f for f in got if f not in inst and f not in BOOKKEEPING)
        if res.get("populator") is not None or bad or stray:
            fails.append(("C19.concurrent.final_state_byte_identical", inp,
                          {"populator_returned": res.get("populator"), "not_identical": bad, "unexpected_files": stray},
                          "population finishes; byte-identical copies only"))
    return (json.dumps(inp), True, fails)


def pool_job(job):
    return concurrent_job(job) if job.get("concurrent") else crash_job(job)


def trace_of_population(order_name):
    import hed.schema.hed_cache as hc
    with Env() as env:
        d = env.new_cache()
        with Injector(None, None, ORDERS[order_name]) as inj:
            hc.cache_local_versions(d)
        return list(inj.trace)


# ------------------------------------------------------------------------------------------------------------
# Part A / C / D (run in the parent, they are few)
# ------------------------------------------------------------------------------------------------------------


def part_population(w):
    import hed.schema.hed_cache as hc
    inst = installed_files()
    n = 0
    for how in ("cache_local_versions", "get_hed_versions", "load_schema_version", "nonexistent_directory"):
        with Env() as env:
            d = env.new_cache(create=(how != "nonexistent_directory"))
            inp = {"kind": "populate", "how": how}
            w.case(key=json.dumps(inp), nontrivial=True, sample=inp)
            n += 1
            try:
                if how == "cache_local_versions":
                    r = hc.cache_local_versions(d)
                    ok = r is None
                elif how == "get_hed_versions":
                    r = hc.get_hed_versions(d)
                    ok = "8.3.0" in r and r == sorted(r, key=lambda s: tuple(map(int, s.split("."))), reverse=True)
                else:
                    res = try_load("8.3.0")
                    ok = res == ("ok", True)
                    r = res
            except Exception as e:
                ok, r = False, type(e).__name__ + ": " + str(e)[:150]
            w.check(ok, "C19.populate.first_use_succeeds", inp, r, "population / load succeeds")
            got = {}
            for f in (os.listdir(d) if os.path.isdir(d) else []):
                p = os.path.join(d, f)
                if os.path.isfile(p):
                    with open(p, "rb") as fp:
                        got[f] = fp.read()
            bad = sorted(f for f in inst if got.get(f) != inst[f])
            extra = sorted(f for f in got if f not in inst and f not in BOOKKEEPING)
            w.check(not bad and not extra, "C19.populate.byte_identical", inp,
                    {"not_identical_or_missing": bad, "unexpected_files": extra}, "byte-identical copies of the installed files only")
            # populating again changes nothing
            snap = dict(got)
            hc.cache_local_versions(d)
            got2 = {f: open(os.path.join(d, f), "rb").read() for f in os.listdir(d) if os.path.isfile(os.path.join(d, f))}
            w.check({f: got2.get(f) for f in inst} == {f: snap.get(f) for f in inst}, "C19.populate.byte_identical",
                    dict(inp, again=True), "changed by a second population", "unchanged")
    return n


def part_states(w):
    """cache directory states that an earlier (interrupted / offline) process can leave behind"""
    inst = installed_files()
    now = time.time()
    states = {
        "empty directory": {},
        "only cache_lock.lock": {"cache_lock.lock": b""},
        "only last_update.txt (recent)": {"last_update.txt": str(now).encode()},
        "only last_update.txt (old)": {"last_update.txt": b"1000.5"},
        "lock + garbage timestamp": {"cache_lock.lock": b"", "last_update.txt": b"17159\x00\x00"},
        "only an unrelated file": {"README.txt": b"hello"},
        "left-over temp file of an interrupted atomic copy": {"HED8.3.0.xml.tmp1234": inst["HED8.3.0.xml"][:5000]},
        "left-over temp + bookkeeping": {"tmpab12cd.xml": inst["HED8.3.0.xml"][:777], "cache_lock.lock": b"",
                                         "last_update.txt": b"1000.5"},
        "complete population + garbage timestamp": dict(inst, **{"last_update.txt": b"garbage"}),
        "complete population + empty timestamp": dict(inst, **{"last_update.txt": b""}),
        "complete + left-over temp": dict(inst, **{"HED8.3.0.xml.tmp99": b"<?xml"}),
    }
    n = 0
    for name, files in states.items():
        with Env() as env:
            d = env.new_cache()
            for f, b in files.items():
                with open(os.path.join(d, f), "wb") as fp:
                    fp.write(b)
            inp = {"kind": "state", "state": name, "cache_state": dir_state(d)}
            w.case(key=json.dumps(inp), nontrivial=True, sample=inp)
            n += 1
            res = try_load("8.3.0")
            if res != ("ok", True):
                if "recent" in name and not any(version_of(f) for f in files):
                    label = "C19.lock.local_population_blocked_by_refresh_interval"
                elif not any(version_of(f) for f in files):
                    label = "C19.crash.D17_directory_without_schema_counts_as_populated"
                else:
                    label = "C19.state.load_succeeds"
                w.fail(label, inp, {"load": res[0], "detail": res[1]}, "load succeeds and equals the bundled schema")
    return n


LOCK_SPELLINGS = ("plain", "trailing slash", "relative", "relative with ./ and slash", "dot-dot", "doubled slash", "symlink",
                  "symlink with slash")


class _StillWaiting(BaseException):
    """the second holder had not given up after the limit (the documented lock timeout is one second)"""


class give_up_limit:
    """with give_up_limit(15): ...  - raises _StillWaiting inside the block after that many seconds (main thread only)"""
    def __init__(self, seconds):
        self.seconds = seconds

    def _fire(self, *_):
        raise _StillWaiting(f"still waiting for the lock after {self.seconds} s")

    def __enter__(self):
        import signal
        self._main = threading.current_thread() is threading.main_thread()
        if self._main:
            self._old = signal.signal(signal.SIGALRM, self._fire)
            signal.setitimer(signal.ITIMER_REAL, self.seconds)
        return self

    def __exit__(self, *exc):
        import signal
        if self._main:
            signal.setitimer(signal.ITIMER_REAL, 0)
            signal.signal(signal.SIGALRM, self._old)
        return False


def lock_spell(d, name, base):
    """an equivalent spelling of the existing directory d (POSIX); the relative ones are relative to base (the working directory of
    both holders); the symlink ones name the link <d>_link -> d"""
    d = d.rstrip("/")
    rel = os.path.relpath(d, base)
    return {"plain": d, "trailing slash": d + "/", "relative": rel, "relative with ./ and slash": "./" + rel + "/",
            "dot-dot": d + "/../" + os.path.basename(d), "doubled slash": os.path.dirname(d) + "//" + os.path.basename(d),
            "symlink": d + "_link", "symlink with slash": d + "_link/"}[name]


def lock_spelling_probe(w, env, case):
    """one directory, two holders that SPELL it differently: for every spelling s1 a forked process holds CacheLock(s1(D)) on a
    directory D of its own; meanwhile this process asks for CacheLock(s2(D)) with every spelling s2 (one thread per ordered pair, so
    that the one-second timeouts run side by side).  Exclusion and the give-up error must not depend on the spelling; after the
    holder left, another spelling gets the lock."""
    from hed.schema.hed_cache_lock import CacheLock, CacheException
    base = os.path.realpath(env.base)
    old_cwd = os.getcwd()
    holders = []
    results = {}
    try:
        os.chdir(base)
        for s1 in LOCK_SPELLINGS:
            d = os.path.realpath(env.new_cache())
            os.symlink(d, d + "_link")
            r_in, w_in = os.pipe()
            r_go, w_go = os.pipe()
            sys.stdout.flush()
            pid = os.fork()
            if pid == 0:
                code = 0
                try:
                    with CacheLock(lock_spell(d, s1, base), write_time=False):
                        os.write(w_in, b"1")
                        os.read(r_go, 1)
                except BaseException:
                    code = 7
                    try:
                        os.write(w_in, b"0")
                    except OSError:
                        pass
                os._exit(code)
            holders.append({"s1": s1, "dir": d, "pid": pid, "fds": (r_in, w_in, r_go, w_go)})
        for h in holders:
            h["inside"] = os.read(h["fds"][0], 1) == b"1"

        def ask(h, s2):
            res = {}
            t0 = time.time()
            try:
                with CacheLock(lock_spell(h["dir"], s2, base), write_time=False):
                    res["asker"] = "entered"
            except CacheException:
                res["asker"] = "CacheException"
            except BaseException as e:
                res["asker"] = type(e).__name__ + ": " + str(e)[:100]
            res["asker_waited_s"] = round(time.time() - t0, 2)
            results[(h["s1"], s2)] = res

        threads = [threading.Thread(target=ask, args=(h, s2), daemon=True) for h in holders for s2 in LOCK_SPELLINGS]
        for th in threads:
            th.start()
        deadline = time.time() + 30       # all askers together: an asker that has not given up by then is recorded as "no answer"
        for th in threads:
            th.join(max(0.0, deadline - time.time()))
        for h in holders:
            os.write(h["fds"][3], b"1")
            _, status = os.waitpid(h["pid"], 0)
            h["exit"] = os.waitstatus_to_exitcode(status)
            for fd in h["fds"]:
                os.close(fd)
        for i, h in enumerate(holders):
            for s2 in LOCK_SPELLINGS:
                inp = {"kind": "lock", "probe": "two processes, one directory spelled differently", "holder_spelling": h["s1"],
                       "asker_spelling": s2, "holder_path": lock_spell(h["dir"], h["s1"], base).replace(base, "<base>"),
                       "asker_path": lock_spell(h["dir"], s2, base).replace(base, "<base>")}
                case(inp)
                res = dict(results.get((h["s1"], s2), {"asker": "no answer"}), holder_inside=h["inside"], holder_exit=h["exit"])
                if h["inside"] and res["asker"] == "entered":
                    w.fail("C19.lock.D14_two_holders_overlap", inp, res, {"asker": "CacheException"})
                else:
                    w.check(h["inside"] and h["exit"] == 0 and res["asker"] == "CacheException" and res["asker_waited_s"] < 5,
                            "C19.lock.second_holder_gives_up_with_CacheException", inp, res,
                            {"holder_inside": True, "asker": "CacheException within its timeout"})
            # the holder has left: the directory in another spelling can be locked again
            s3 = LOCK_SPELLINGS[(i + 1) % len(LOCK_SPELLINGS)]
            inp = {"kind": "lock", "probe": "released, then asked in another spelling", "holder_spelling": h["s1"], "asker_spelling": s3}
            case(inp)
            try:
                with CacheLock(lock_spell(h["dir"], s3, base), write_time=False):
                    r = "entered"
            except BaseException as e:
                r = type(e).__name__
            w.check(r == "entered", "C19.lock.released_on_exit", inp, r, "entered")
    finally:
        os.chdir(old_cwd)
        for h in holders:
            if "exit" not in h:
                try:
                    os.kill(h["pid"], 9)
                    os.waitpid(h["pid"], 0)
                except OSError:
                    pass


def part_lock(w):
    import hed.schema.hed_cache as hc
    from hed.schema.hed_cache_lock import CacheLock, CacheException
    n = 0

    def case(inp):
        nonlocal n
        n += 1
        w.case(key=json.dumps(inp), nontrivial=True, sample=inp)

    with Env() as env:
        # ---- two holders, nested in one thread
        for write_time in (False, True):
            d = env.new_cache()
            inp = {"kind": "lock", "probe": "nested holders", "write_time": write_time}
            case(inp)
            both_inside = False
            second = None
            t0 = time.time()
            try:
                with CacheLock(d, write_time=write_time, time_threshold=0):
                    t0 = time.time()
                    try:
                        with give_up_limit(15):
                            with CacheLock(d, write_time=write_time, time_threshold=0):
                                both_inside = True
                        second = "entered"
                    except CacheException:
                        second = "CacheException"
                    except BaseException as e:
                        second = type(e).__name__ + ": " + str(e)[:100]
                    waited = time.time() - t0
                first = "ok"
            except BaseException as e:
                first = type(e).__name__ + ": " + str(e)[:100]
                waited = time.time() - t0
            obs = {"first": first, "second": second, "both_inside": both_inside, "second_waited_s": round(waited, 2)}
            if both_inside:
                w.fail("C19.lock.D14_two_holders_overlap", inp, obs, {"second": "CacheException", "both_inside": False})
            else:
                w.check(first == "ok" and second == "CacheException" and waited < 5, "C19.lock.second_holder_gives_up_with_CacheException",
                        inp, obs, {"first": "ok", "second": "CacheException within its timeout"})
        # ---- two threads
        d = env.new_cache()
        inp = {"kind": "lock", "probe": "two threads"}
        case(inp)
        inside = threading.Event()
        leave = threading.Event()
        res = {}

        def holder():
            try:
                with CacheLock(d, write_time=False):
                    inside.set()
                    leave.wait(20)
                res["holder"] = "ok"
            except BaseException as e:
                res["holder"] = type(e).__name__
                inside.set()

        th = threading.Thread(target=holder)
        th.start()
        inside.wait(20)
        t0 = time.time()
        try:
            with give_up_limit(15):
                with CacheLock(d, write_time=False):
                    res["second"] = "entered"
        except CacheException:
            res["second"] = "CacheException"
        except BaseException as e:
            res["second"] = type(e).__name__ + ": " + str(e)[:100]
        res["second_waited_s"] = round(time.time() - t0, 2)
        leave.set()
        th.join()
        try:
            with CacheLock(d, write_time=False):
                res["third_after_release"] = "entered"
        except BaseException as e:
            res["third_after_release"] = type(e).__name__
        if res.get("second") == "entered":
            w.fail("C19.lock.D14_two_holders_overlap", inp, res, {"second": "CacheException"})
        else:
            w.check(res.get("second") == "CacheException" and res["second_waited_s"] < 5,
                    "C19.lock.second_holder_gives_up_with_CacheException", inp, res, {"second": "CacheException"})
        w.check(res.get("holder") == "ok" and res.get("third_after_release") == "entered", "C19.lock.released_on_exit", inp, res,
                {"holder": "ok", "third_after_release": "entered"})
        # ---- two processes
        d = env.new_cache()
        inp = {"kind": "lock", "probe": "two processes"}
        case(inp)
        r_in, w_in = os.pipe()
        r_go, w_go = os.pipe()
        pid = os.fork()
        if pid == 0:
            code = 0
            try:
                with CacheLock(d, write_time=False):
                    os.write(w_in, b"1")
                    os.read(r_go, 1)
            except BaseException:
                code = 7
                try:
                    os.write(w_in, b"0")
                except OSError:
                    pass
            os._exit(code)
        got = os.read(r_in, 1)
        res = {"child_inside": got == b"1"}
        t0 = time.time()
        try:
            with give_up_limit(15):
                with CacheLock(d, write_time=False):
                    res["parent"] = "entered"
        except CacheException:
            res["parent"] = "CacheException"
        except BaseException as e:
            res["parent"] = type(e).__name__ + ": " + str(e)[:100]
        res["parent_waited_s"] = round(time.time() - t0, 2)
        os.write(w_go, b"1")
        os.waitpid(pid, 0)
        for fd in (r_in, w_in, r_go, w_go):
            os.close(fd)
        if res["child_inside"] and res["parent"] == "entered":
            w.fail("C19.lock.D14_two_holders_overlap", inp, res, {"parent": "CacheException"})
        else:
            w.check(res["child_inside"] and res["parent"] == "CacheException", "C19.lock.second_holder_gives_up_with_CacheException",
                    inp, res, {"parent": "CacheException"})
        # ---- two processes that spell the one directory differently (every ordered pair of spellings)
        lock_spelling_probe(w, env, case)
        # ---- population happens under the lock: a holder blocks cache_local_versions (returns -1, copies nothing)
        d = env.new_cache()
        inp = {"kind": "lock", "probe": "cache_local_versions while another holder is inside"}
        case(inp)
        try:
            with CacheLock(d, write_time=False), give_up_limit(20):
                r = hc.cache_local_versions(d)
                copied = [f for f in os.listdir(d) if version_of(f)]
            obs = {"returned": r, "schema_files_copied_while_locked": len(copied)}
        except BaseException as e:
            obs = {"exception": type(e).__name__}
        if obs.get("schema_files_copied_while_locked"):
            w.fail("C19.lock.D14_two_holders_overlap", inp, obs, {"returned": -1, "schema_files_copied_while_locked": 0})
        else:
            w.check(obs == {"returned": -1, "schema_files_copied_while_locked": 0}, "C19.lock.second_holder_gives_up_with_CacheException",
                    inp, obs, {"returned": -1, "schema_files_copied_while_locked": 0})
        # ---- refresh interval
        for thr, wait, expect in ((1000, 0, "skipped"), (0, 0, "entered"), (0.3, 0.5, "entered"), (5, 0.2, "skipped")):
            d = env.new_cache()
            inp = {"kind": "lock", "probe": "refresh interval", "time_threshold": thr, "wait_s": wait}
            case(inp)
            try:
                with CacheLock(d, write_time=True, time_threshold=thr):
                    pass
                first = "entered"
            except BaseException as e:
                first = type(e).__name__
            time.sleep(wait)
            ran = []
            try:
                with CacheLock(d, write_time=True, time_threshold=thr):
                    ran.append(1)
                second = "entered"
            except CacheException:
                second = "skipped"
            except BaseException as e:
                second = type(e).__name__ + ": " + str(e)[:80]
            w.check(first == "entered" and second == expect and (bool(ran) == (expect == "entered")),
                    "C19.lock.refresh_within_interval_is_skipped", inp, {"first": first, "second": second, "body_ran": bool(ran)},
                    {"first": "entered", "second": expect})
        # write_time=False holders neither read nor write the interval
        d = env.new_cache()
        inp = {"kind": "lock", "probe": "refresh interval not written by local holders"}
        case(inp)
        with CacheLock(d, write_time=False):
            pass
        w.check(not os.path.exists(os.path.join(d, "last_update.txt")), "C19.lock.refresh_within_interval_is_skipped", inp,
                "last_update.txt written by a write_time=False holder", "not written")
        # write_time=False ("generally False for local operations"): the docstring ties reading the time and the
        # "won't operate if too recent" rule to write_time=True
        d = env.new_cache()
        inp = {"kind": "lock", "probe": "local holder (write_time=False) right after a refresh"}
        case(inp)
        with open(os.path.join(d, "last_update.txt"), "w") as fp:
            fp.write(str(time.time()))
        try:
            with CacheLock(d, write_time=False):
                r = "entered"
        except CacheException:
            r = "CacheException"
        except BaseException as e:
            r = type(e).__name__
        w.check(r == "entered", "C19.lock.local_population_blocked_by_refresh_interval", inp, r, "entered")
        # cache_xml_versions inside the interval: -1 and the network is not touched
        d = env.new_cache()
        inp = {"kind": "lock", "probe": "cache_xml_versions inside the interval"}
        case(inp)
        with open(os.path.join(d, "last_update.txt"), "w") as fp:
            fp.write(str(time.time()))
        del _url_calls[:]
        try:
            r = hc.cache_xml_versions(cache_folder=d)
        except BaseException as e:
            r = type(e).__name__ + ": " + str(e)[:80]
        w.check(r == -1 and not _url_calls, "C19.lock.refresh_within_interval_is_skipped", inp,
                {"returned": r, "url_requests": len(_url_calls)}, {"returned": -1, "url_requests": 0})
        # ---- torn / garbage timestamp file
        garbage = {"empty": b"", "text": b"garbage", "two dots": b"12.3.4", "torn float": b"17159e", "NULs": b"\x00\x00\x00",
                   "non-utf8": b"\xff\xfe\x00\x31", "newline only": b"\n", "valid old": b"1000.0", "valid + junk line": b"1000.0\njunk"}
        for gname, content in garbage.items():
            for api in ("CacheLock", "cache_xml_versions"):
                d = env.new_cache()
                with open(os.path.join(d, "last_update.txt"), "wb") as fp:
                    fp.write(content)
                inp = {"kind": "lock", "probe": "garbage last_update.txt", "content": content.decode("latin-1"), "api": api}
                case(inp)
                try:
                    if api == "CacheLock":
                        with CacheLock(d, write_time=True):
                            pass
                        r = "entered"
                    else:
                        r = hc.cache_xml_versions(cache_folder=d)       # offline: -1 expected (documented "failed for any reason")
                except CacheException:
                    r = "CacheException"
                except BaseException as e:
                    r = type(e).__name__ + ": " + str(e)[:100]
                if api == "CacheLock":
                    ok = r in ("entered", "CacheException")
                    label = "C19.lock.D16_torn_timestamp_raises"
                    exp = "entered (timestamp treated as missing) or CacheException"
                else:
                    ok = r in (-1, 0)
                    exp = "-1 (documented: 'Returns -1 if cache failed for any reason')"
                    if isinstance(r, str) and r.startswith("URLError"):
                        # a different escape: URLError is not caught either (same `except A or B or C`)
                        label = "C19.lock.D16_except_or_in_cache_xml_versions_lets_URLError_escape"
                    else:
                        label = "C19.lock.D16_torn_timestamp_raises"
                w.check(ok, label, inp, r, exp)
    return n


# ------------------------------------------------------------------------------------------------------------
# Part E: the default cache directory under a private HOME (child processes, see rt/c19_home.py)
# ------------------------------------------------------------------------------------------------------------


def home_jobs(quick):
    """the cache states x ways of naming the directory that Part E visits"""
    from rt.c19_home import SPELLINGS
    n = len([f for f in installed_files() if version_of(f)])
    entries = ["cache_local_versions", "get_hed_versions", "load_schema_version"]
    stamps = ["absent", "recent", "old", "garbage"]
    orders = ["os order", "shuffle a", "8.3.0 last", "shuffle b", "8.3.0 first", "shuffle c"]
    other = [sp for sp in SPELLINGS if sp != "as computed"]
    jobs = []

    def add(steps, **kw):
        i = len(jobs)
        job = {"id": i, "steps": steps, "timestamp": stamps[i % len(stamps)]}
        job.update(kw)
        jobs.append(job)

    def pop(nth, mode, i):
        return {"kind": "populate", "entry": entries[i % 3], "nth_copy": nth, "mode": mode, "order": orders[i % len(orders)]}

    def naming(i):
        return {"via": "default"} if i % 2 == 0 else {"via": "set", "spelling": other[(i // 2) % len(other)]}

    # population killed between two copies: exactly k files were copied (k = n: it finished)
    for k in range(n + 1):
        add([pop(k, "before", k)], **naming(k))
    # ... inside a copy / after a copy, before the copy is published
    points = [(0, "truncated"), (n // 2, "truncated"), (n - 2, "after")] if quick else \
        [(k, m) for k in range(n) for m in ("truncated", "after")]
    for i, (k, m) in enumerate(points):
        add([pop(k, m, i + 1)], **naming(i + 1))
    if not quick:
        for k in range(n + 1):
            add([pop(k, "before", k + 2)], **naming(k + 1))
    # refresh (download path) killed; on an empty directory and after a partial population
    rpoints = [(None, 0, "truncated"), (3, 1, "truncated"), (5, 2, "after")] if quick else \
        [(base, j, m) for base in (None, 3) for j in range(0, n - 3) for m in ("before", "truncated", "after")]
    for i, (base, j, m) in enumerate(rpoints):
        steps = ([pop(base, "before", i)] if base is not None else []) + [{"kind": "refresh", "nth_copy": j, "mode": m}]
        add(steps, **naming(i))
    # a live process holds the lock while the loads run
    add([pop(0, "before", 0)], lock_held=True, few_loads=2, via="default")
    add([pop(4, "before", 1)], lock_held=True, via="default")
    if not quick:
        add([pop(0, "before", 2)], lock_held=True, few_loads=2, via="set", spelling="no trailing slash")
        add([pop(7, "truncated", 3)], lock_held=True, via="set", spelling="dot-dot")
    # the directory given as an argument, in equivalent spellings
    for k in ((3,) if quick else (1, 3, 7, n - 1)):
        for sp in (("as computed", "no trailing slash", "relative") if quick else SPELLINGS):
            add([pop(k, "before", k)], via="arg", spelling=sp)
    if not quick:
        add([pop(0, "before", 1)], via="arg", spelling="no trailing slash")
    # ... through a symbolic link to the cache directory: as folder argument, and with HED_CACHE_DIRECTORY set to one spelling
    # while the folder argument is another one (link / real path, both ways round)
    for k in ((3,) if quick else (1, 3, 7, n - 1)):
        add([pop(k, "before", k)], via="arg", spelling="symlink")
        add([pop(k, "before", k + 1)], via="arg", spelling="symlink relative" if k % 2 else "symlink with slash")
        add([pop(k, "before", k + 2)], via="set_arg", spelling="symlink", arg_spelling="as computed")
        add([pop(k, "before", k)], via="set_arg", spelling="symlink with slash", arg_spelling="no trailing slash")
        add([pop(k, "before", k + 1)], via="set_arg", spelling="no trailing slash", arg_spelling="symlink")
        if not quick:
            add([pop(k, "truncated", k)], via="set_arg", spelling="symlink relative", arg_spelling="relative")
            add([pop(k, "before", k)], via="set_arg", spelling="dot-dot", arg_spelling="doubled slash")
    for j in jobs:
        if j.get("lock_held"):
            j["timestamp"] = "absent"
        if quick:
            j["quick"] = True
    return jobs


def home_children(jobs, nchildren, seed):
    """start the child processes (private HOME each); -> list of (Popen, home, jobs)"""
    import subprocess
    import hed
    base = tempfile.mkdtemp(prefix="c19homes_")
    hed_root = os.path.dirname(os.path.dirname(os.path.abspath(hed.__file__)))
    verif = os.path.dirname(os.path.dirname(os.path.abspath(__file__)))
    path = os.pathsep.join([hed_root, verif] + [p for p in os.environ.get("PYTHONPATH", "").split(os.pathsep) if p])
    kids = []
    for c in range(nchildren):
        mine = jobs[c::nchildren]
        if not mine:
            continue
        home = os.path.join(base, "c19home_%d" % c)
        os.makedirs(os.path.join(home, "tmp"))
        env = dict(os.environ, HOME=home, TMPDIR=os.path.join(home, "tmp"), PYTHONPATH=path, PYTHONDONTWRITEBYTECODE="1")
        err = open(os.path.join(home, "stderr.txt"), "wb")
        p = subprocess.Popen([sys.executable, "-m", "rt.c19_home"], stdin=subprocess.PIPE, stdout=subprocess.PIPE, stderr=err,
                             cwd=verif, env=env)
        err.close()
        p.stdin.write(json.dumps({"jobs": mine, "seed": seed}).encode())
        p.stdin.close()
        kids.append((p, home, mine))
    return base, kids


def home_collect(w, base, kids, timeout):
    import hed
    n = 0
    t_end = time.time() + timeout
    try:
        for p, home, mine in kids:
            try:
                p.stdin = None          # (already written and closed)
                out, _ = p.communicate(timeout=max(1, t_end - time.time()))
            except Exception:
                p.kill()
                out = b""
            try:
                res = json.loads(out.decode().strip().splitlines()[-1])
            except Exception:
                res = {"error": "no result from the child process"}
            if "results" not in res:
                try:
                    with open(os.path.join(home, "stderr.txt"), "rb") as fp:
                        tail = fp.read()[-500:].decode("latin-1")
                except OSError:
                    tail = ""
                w.fail("C19.workload.injection", {"kind": "home", "jobs": [j["id"] for j in mine]}, {"child": res, "stderr": tail},
                       "the child process reports its results")
                continue
            same = os.path.realpath(res["info"]["hed"]) == os.path.realpath(os.path.dirname(hed.__file__))
            w.check(same, "C19.workload.injection", {"kind": "home", "what": "package seen by the child"}, res["info"],
                    os.path.dirname(hed.__file__))
            for r in res["results"]:
                n += 1
                if os.environ.get("C19_TIMES"):
                    print("job", r["input"]["job"]["id"], r.get("s"), r["input"].get("loads"), file=sys.stderr)
                w.case(key=json.dumps(r["input"]["job"], sort_keys=True), nontrivial=r["nontrivial"], sample=r["input"]["job"])
                for clause, inp, obs, exp in r["fails"]:
                    w.fail(clause, inp, obs, exp)
    finally:
        for p, _, _ in kids:
            if p.poll() is None:
                p.kill()
        shutil.rmtree(base, ignore_errors=True)
    return n


def run(w: Workload):
    w.rule = ("default cache under a private HOME (child processes): a forked populating / refreshing process is killed (os._exit) "
              "before the k-th copy for every k, inside / after chosen copies (all of them in the thorough tier), x entry point x "
              "listing order x timestamp file x {directory not named, set_cache_directory(equivalent spelling), folder argument "
              "in an equivalent spelling}; then get_hed_versions() and load_schema_version of every bundled version and "
              "library by number (plain / list / prefixed / lists / merged) must equal the schema built from the bundled "
              "files, and a complete population must leave byte-identical files; "
              "crash points: every call of shutil.copy*/os.replace/os.rename made by cache_local_versions on an empty temp cache "
              "x {interrupt before, after, after half of the destination was written} x listing orders of the installed folder "
              "{as listed by the OS, HED8.3.0.xml last, first}; every crash point is a distinct cache state; then load_schema_version of 8.3.0 "
              "and of the version whose file was hit; + 11 hand-made left-behind states; + lock probes (nested / threads / "
              "processes / refresh interval x 4 / 9 garbage timestamps x 2 entry points)")
    hjobs = home_jobs(w.quick)
    hbase, hkids = home_children(hjobs, 10 if w.quick else 12, w.seed)      # run alongside the other parts
    n_pop = part_population(w)
    n_states = part_states(w)
    n_lock = part_lock(w)
    orders = ["os order", "8.3.0 last"] if w.quick else list(ORDERS)
    jobs = []
    for o in orders:
        tr = trace_of_population(o)
        for k, (kind, _) in enumerate(tr):
            for mode in ("before", "after", "truncated"):
                if mode == "truncated" and kind in ("replace", "rename"):
                    continue
                jobs.append({"k": k, "mode": mode, "order": o})
    n_crash = len(jobs)
    for o in orders[:1] if w.quick else orders:
        tr = trace_of_population(o)
        for k, (kind, _) in enumerate(tr):
            for mode in ("before", "after", "truncated"):
                if mode == "truncated" and kind in ("replace", "rename"):
                    continue
                jobs.append({"k": k, "mode": mode, "order": o, "concurrent": True})
    import multiprocessing as mp
    nproc = min(14, max(1, (os.cpu_count() or 2) - 2))
    with mp.get_context("fork").Pool(nproc) as pool:
        results = pool.map(pool_job, jobs, chunksize=1)
    for key, nontrivial, fails in results:
        w.case(key=key, nontrivial=nontrivial, sample=json.loads(key))
        for clause, inp, obs, exp in fails:
            w.fail(clause, inp, obs, exp)
    t_rest = time.time() - w.t0
    n_home = home_collect(w, hbase, hkids, 80 if w.quick else 800)
    if os.environ.get("C19_TIMES"):
        print("other parts done at %.1f s, private-HOME part collected at %.1f s" % (t_rest, time.time() - w.t0), file=sys.stderr)
    w.part("default cache directory under a private HOME: killed population / refresh, then every bundled version by number",
           cases=n_home, bound="population killed before each copy (0..n files copied), inside / after chosen copies; refresh killed at "
           "chosen copies; timestamp absent/recent/old/garbage; lock held by a live process; directory named not at all / "
           "set_cache_directory(spelling) / folder argument(spelling) / both in two different spellings, the spellings including a "
           "symbolic link to the cache directory (xml_folder=<link>; HED_CACHE_DIRECTORY=<link> with xml_folder=<real path>); %d jobs, each loading all bundled versions in rotating "
           "forms + lists + merged libraries" % len(hjobs), exhaustive=False)
    w.part("un-interrupted population", cases=n_pop, bound="4 entry points on an empty / missing temp cache directory", exhaustive=True)
    w.part("loader concurrent with a populating lock holder paused at one file operation (threads in one process)",
           cases=len(jobs) - n_crash, bound="every file operation x {before, after, mid-copy}", exhaustive=True)
    w.part("interrupted population", cases=n_crash,
           bound="every file operation of the population x 3 interruption modes x %d listing orders" % len(orders), exhaustive=True)
    w.part("left-behind cache states", cases=n_states, bound="11 hand-made states", exhaustive=False)
    w.part("CacheLock probes", cases=n_lock, bound="nested/threads/processes, 4 interval settings, 9 timestamp contents x 2 entry points; "
           "+ one directory spelled differently by the two holders: a forked process holds CacheLock(s1) while this process asks "
           "with s2, for all %d x %d ordered pairs of spellings %s (exclusion and the CacheException after the timeout must not "
           "depend on the spelling), and after the holder left the next spelling gets the lock"
           % (len(LOCK_SPELLINGS), len(LOCK_SPELLINGS), list(LOCK_SPELLINGS)),
           exhaustive=False)
    w.not_covered += [
        "true multi-process schedules: only ONE loader against ONE populating lock holder paused at each file operation is explored "
        "(threads of one process; flock excludes between descriptors); two simultaneous populators are only probed for exclusion",
        "the download path (_cache_specific_url / _safe_move_tmp_to_folder / sha comparison) - no network; get_library_data's cache",
        "prerelease sub-directory; in the temp-directory crash part only standard versions are re-loaded (all versions and "
        "libraries are loaded in the private-HOME part)",
        "refresh that brings content different from the bundled files (a version changed upstream)",
        "lock timeouts other than the built-in 1 s; NFS / non-POSIX lock semantics",
    ]
    w.assumptions += [
        "a process kill is modelled as a BaseException raised at the file operation (before/after) or after half of the bytes were written",
        "make_url_request is replaced by an immediate URLError (no network exists)",
        "private-HOME part: the kill is a real process end (os._exit in a forked process at the file operation; the lock file stays, "
        "the flock is dropped by the OS); the refresh runs against a stand-in for the schema repository that serves the "
        "bundled files with their git blob hashes; the reference schemas are built with load_schema from the bundled files",
        "the bundled schema = load_schema() of the installed schema_data file, compared with HedSchema.__eq__",
        "flock-based exclusion between two descriptors also holds inside one process (checked once for portalocker 4.x on this OS)",
    ]


def replay(w: Workload, case: dict):
    inp = case["input"]
    kind = inp.get("kind")
    if kind == "concurrent":
        key, nontrivial, fails = concurrent_job({"k": inp["call_index"], "mode": inp["mode"], "order": inp["listing_order"]})
        w.case(key=key, nontrivial=nontrivial)
        for clause, i2, obs, exp in fails:
            if clause == case["clause"]:
                w.fail(clause, i2, obs, exp)
        return
    if kind == "crash":
        key, nontrivial, fails = crash_job({"k": inp["call_index"], "mode": inp["mode"], "order": inp["listing_order"]})
        w.case(key=key, nontrivial=nontrivial)
        for clause, i2, obs, exp in fails:
            if clause == case["clause"]:
                w.fail(clause, i2, obs, exp)
        return
    if kind == "home":
        base, kids = home_children([inp["job"]], 1, case.get("seed", 0))
        sub = Workload("C19", "quick", 0)
        home_collect(sub, base, kids, 80)
        w.evaluations = sub.evaluations
        for f in sub.failures:
            if f["clause"] == case["clause"] and (f["input"].get("form") == inp.get("form") or "form" not in inp):
                w.fail(f["clause"], f["input"], f["observed"], f["expected"])
        return
    sub = Workload("C19", "quick", 0)
    {"populate": part_population, "state": part_states, "lock": part_lock}[kind](sub)
    w.evaluations = sub.evaluations
    for f in sub.failures:
        if f["clause"] == case["clause"] and all(f["input"].get(k) == inp.get(k) for k in ("how", "state", "probe", "content", "api", "time_threshold", "write_time", "holder_spelling", "asker_spelling")):
            w.fail(f["clause"], f["input"], f["observed"], f["expected"])


if __name__ == "__main__":
    main(run, "C19", replay)
