"""C05 (tier T3, bounded): schemas survive saving and reloading in every format.

Part A  every bundled schema x {xml, mediawiki, tsv} x {save_merged True, False}: save into a temp dir, reload, compare
        with the original (HedSchema.__eq__ AND an independent plain-data fingerprint); the in-memory entry points
        (get_as_*_string / from_string, get_as_dataframes / from_dataframes) agree with the file ones; the reloaded
        schemas of the three formats agree pairwise; the saved XML, read with xml.etree only, lists exactly the entries,
        attributes, values, descriptions, header and texts of the schema object (merged / unmerged file rules).
        score_1.0.0 and testlib_1.0.2 (stand-alone legacy libraries): XML and MediaWiki only.
Part B  generated edits (rt/c05_gen.py): 1-3 ops on the XML text of a compliant bundled schema - add / remove /
        re-attribute nodes (0-3 attributes, multi-valued ones), value-taking '#' children, rooted library nodes, units,
        unit classes, value classes, modifiers, attribute definitions, descriptions over the allowed text class, prologue /
        epilogue - loaded with the real loader; the loaded schema must carry exactly the generated material, have no new
        compliance issue, and then pass all checks of part A.
Part C  narrow probes of description / value / name / rooted-node shapes inside the allowed classes on which the unchanged
        tree loses information (each with its own clause label, so that the general clauses stay green next to them):
        desc.outer_blank, desc.leading_double_quote, desc.nowiki_literal, attr.equals_sign_value, name.tsv_reserved_parent,
        wiki.merged_rooted_below_plain_root; two more shapes are relabelled inside part A/B by a predicate on the input:
        tsv.unmerged_library_unit_in_standard_class and tsv.dataframes_in_memory.
Part D  a schema merged from several libraries refuses to save through every save entry point and writes nothing.
Part E  systematic edits (rt/c05_sys.py): multi-valued attributes in which one value is contained in another (both orders),
        and free text with code points that str.splitlines treats as line boundaries (U+2028, U+2029, U+0085) or that are
        otherwise unusual non-ASCII text, in descriptions of every section, prologue / epilogue and a string attribute
        value; same checks as part B, always through the file AND the in-memory entry points.
Part F  histories of the save target: schema X is saved under a name, then schema Y (different content) is saved under the SAME
        name, and the name is loaded: the result must equal Y (same equality clauses as part A) - whatever the earlier save left
        there.  X / Y: the merged and the unmerged form of each partnered library, a standard schema and a library, standard
        schemas of different generations (sections that are empty in one and filled in the other), and edited copies of standard
        schemas in which whole sections were emptied (rt/c05_hist.py: no unit modifiers / no units and unit classes / no value
        classes); also X == Y (saving twice).  TSV (folder name and <name>.tsv spelling) and, for completeness, the single-file
        formats XML and MediaWiki.
"""
import glob
import multiprocessing
import os
import random
import shutil
import tempfile
import time
from xml.etree import ElementTree as ET

from rt.common import Workload, main, schema
from rt import c05_util as U
from rt import c05_gen as G
from rt import c05_sys as S
from rt import c05_hist as H



def _bundled_dir():
    """schema_data of the hed package that is actually imported (the working tree of /repo in the normal set-up)"""
    import hed.schema
    return os.path.join(os.path.dirname(os.path.abspath(hed.schema.__file__)), "schema_data")

LEGACY = ("score_1.0.0", "testlib_1.0.2")
_TMP_ROOT = None        # set by run() before the pool is forked; everything temporary lives below it and is removed by run()


def _mkdtemp():
    return tempfile.mkdtemp(prefix="c05_", dir=_TMP_ROOT)


def bundled_versions():
    out = []
    for path in sorted(glob.glob(os.path.join(_bundled_dir(), "*.xml"))):
        root = ET.parse(path).getroot()
        lib, ver, ws = root.get("library", ""), root.get("version"), root.get("withStandard", "")
        out.append(((lib + "_" if lib else "") + ver, lib, ws))
    return out


# ------------------------------------------------------------------------------------------------ the round-trip checks

def _reload(s, fmt, merged, tmp, tag):
    """save through the file entry point and load again -> (schema, saved xml text or None)"""
    from hed.schema import load_schema
    if fmt == "xml":
        p = os.path.join(tmp, tag + ".xml")
        s.save_as_xml(p, save_merged=merged)
        with open(p, encoding="utf-8") as f:
            text = f.read()
        return load_schema(p), text
    if fmt == "mediawiki":
        p = os.path.join(tmp, tag + ".mediawiki")
        s.save_as_mediawiki(p, save_merged=merged)
        return load_schema(p), None
    p = os.path.join(tmp, tag + "_tsv")
    s.save_as_dataframes(p, save_merged=merged)
    return load_schema(p), None


def _reload_memory(s, fmt, merged):
    from hed.schema import from_string
    from hed.schema.hed_schema_io import from_dataframes
    if fmt == "xml":
        return from_string(s.get_as_xml_string(save_merged=merged), ".xml")
    if fmt == "mediawiki":
        return from_string(s.get_as_mediawiki_string(save_merged=merged), ".mediawiki")
    return from_dataframes(s.get_as_dataframes(save_merged=merged))


def memory_clause(prefix, fmt):
    # get_as_dataframes() is documented as "a dict of dataframes you can load as a schema"; on the unchanged tree it is not
    # (own narrow label); the string entry points of XML / MediaWiki are checked by the general clause
    return prefix + (".tsv.dataframes_in_memory" if fmt == "tsv" else ".rt.entry_points_agree")


def roundtrip(s, formats, modes, tmp, tag, fails, prefix="C05", memory=True, only=None):
    """all part-A checks for one schema object; appends (clause, detail, observed, expected) to fails.
    only: optional set of clause suffixes to evaluate (narrow probes)"""
    try:
        fp0 = U.fingerprint(s)
    except Exception as e:      # noqa: BLE001
        fails.append((prefix + ".save.never_raises", {}, "fingerprint of the original raised %s: %s" % (type(e).__name__, str(e)[:200]),
                      "schema object is readable"))
        return

    def want(c):
        return only is None or c in only
    for merged in modes:
        loaded = {}
        for fmt in formats:
            where = {"format": fmt, "save_merged": merged}
            try:
                r, xml_text = _reload(s, fmt, merged, tmp, "%s_%s_%s" % (tag, fmt, int(merged)))
            except Exception as e:      # noqa: BLE001
                if want("save.never_raises"):
                    fails.append((prefix + ".save.never_raises", where, "%s: %s" % (type(e).__name__, str(e)[:300]),
                                  "save and reload without an exception"))
                continue
            loaded[fmt] = r
            clause = prefix + ".rt.%s_equal" % {"xml": "xml", "mediawiki": "wiki", "tsv": "tsv"}[fmt]
            if want("rt"):
                try:
                    eq = (r == s) and (s == r)
                    d = U.diff(fp0, U.fingerprint(r))
                except Exception as e:      # noqa: BLE001
                    eq, d = False, ["comparison raised %s: %s" % (type(e).__name__, str(e)[:200])]
                if not eq or d:
                    fails.append((clause, where, {"__eq__": eq, "fingerprint_diff": d}, "reloaded schema equals the original"))
            if fmt == "xml" and want("xml.independent_listing"):
                try:
                    ld = U.listing_diff(U.expected_listing(s, merged), U.xml_listing(xml_text))
                except Exception as e:  # noqa: BLE001
                    ld = ["xml.etree could not read the saved file: %s" % e]
                if ld:
                    fails.append((prefix + ".xml.independent_listing", where, ld, "saved XML lists exactly the schema's entries"))
            if memory and want("rt.entry_points_agree"):
                try:
                    m = _reload_memory(s, fmt, merged)
                    d = U.diff(fp0, U.fingerprint(m))
                    if not (m == s) or d:
                        fails.append((memory_clause(prefix, fmt), where, {"__eq__": m == s, "fingerprint_diff": d},
                                      "string/dataframe entry point reloads the same schema as the file entry point"))
                except Exception as e:  # noqa: BLE001
                    fails.append((memory_clause(prefix, fmt), where, "%s: %s" % (type(e).__name__, str(e)[:300]),
                                  "in-memory save/load works"))
        if want("cross.formats_agree"):
            fmts = sorted(loaded)
            for i, a in enumerate(fmts):
                for b in fmts[i + 1:]:
                    try:
                        eq = loaded[a] == loaded[b]
                        d = U.diff(U.fingerprint(loaded[a]), U.fingerprint(loaded[b]))
                    except Exception as e:      # noqa: BLE001
                        eq, d = False, ["comparison raised %s: %s" % (type(e).__name__, str(e)[:200])]
                    if not eq or d:
                        fails.append((prefix + ".cross.formats_agree", {"formats": [a, b], "save_merged": merged},
                                      {"__eq__": eq, "fingerprint_diff": d}, "formats agree"))


def formats_for(version):
    return ("xml", "mediawiki") if version in LEGACY else ("xml", "mediawiki", "tsv")


# ------------------------------------------------------------------------------------------------ part B worker

_inv = {}
_base_xml = {}
_base_issues = {}


def _issue_key(i):
    return (i["code"], str(i.get("ec_section")), i.get("ec_schema_tag"), i.get("ec_attribute"), i["message"])


def _base(version, form):
    key = (version, form)
    if key not in _base_xml:
        s = schema(version)
        if version not in _inv:
            _inv[version] = G.Inv(s)
            _base_issues[version] = [_issue_key(i) for i in s.check_compliance()]
        if form == "merged":
            # the shipped file itself (partnered libraries ship in merged form) - no writer of /repo involved
            lib, _, ver = version.rpartition("_")
            with open(os.path.join(_bundled_dir(), "HED_%s_%s.xml" % (lib, ver) if lib else "HED%s.xml" % ver), encoding="utf-8") as f:
                _base_xml[key] = f.read()
        else:
            _base_xml[key] = s.get_as_xml_string(save_merged=False)     # unmerged form exists only as writer output
    return _base_xml[key], _inv[version]


def check_specs(e, specs):
    """the loaded schema carries exactly the generated material"""
    from hed.schema.hed_schema_constants import HedSectionKey as K
    keys = {"units": K.Units, "unitClasses": K.UnitClasses, "unitModifiers": K.UnitModifiers, "valueClasses": K.ValueClasses,
            "attributes": K.Attributes, "properties": K.Properties}
    # later specs about the same entry supersede earlier ones
    last = {}
    for sp in specs:
        last[(sp["kind"] if sp["kind"] not in ("removed_tag",) else "tag", sp.get("short") or sp.get("name") or sp.get("which"))] = sp
    out = []
    for sp in last.values():
        kind = sp["kind"]
        if kind == "text":
            got = e.prologue if sp["which"] == "prologue" else e.epilogue
            if (got or "").strip() != sp["text"].strip():
                out.append("%s is %r, generated %r" % (sp["which"], got, sp["text"]))
        elif kind == "removed_tag":
            if e.tags.get(sp["short"]) is not None:
                out.append("removed node %s still present" % sp["short"])
        elif kind == "removed":
            if e[keys[sp["section"]]].get(sp["name"]) is not None:
                out.append("removed %s %s still present" % (sp["section"], sp["name"]))
        elif kind == "tag":
            if sp.get("placeholder_of"):
                par = e.tags.get(sp["placeholder_of"])
                ent = par.takes_value_child_entry if par is not None else None
            else:
                ent = e.tags.get(sp["short"])
            if ent is None:
                out.append("node %s missing" % sp["short"])
                continue
            if not sp.get("placeholder_of") and ent.short_tag_name != sp["short"]:
                out.append("node %s has short name %s" % (sp["short"], ent.short_tag_name))
            if not sp.get("skip_parent"):
                pname = ent.parent.short_tag_name if ent.parent else None
                if pname != sp["parent"]:
                    out.append("node %s has parent %s, generated under %s" % (sp["short"], pname, sp["parent"]))
            if U.norm_attrs(ent.attributes) != U.norm_attrs(sp["attrs"]):
                out.append("node %s attributes %r, generated %r" % (sp["short"], U.norm_attrs(ent.attributes), U.norm_attrs(sp["attrs"])))
            if (ent.description or None) != sp["desc"]:
                out.append("node %s description %r, generated %r" % (sp["short"], ent.description, sp["desc"]))
        else:
            ent = e[keys[kind]].get(sp["name"])
            if ent is None:
                out.append("%s %s missing" % (kind, sp["name"]))
                continue
            if U.norm_attrs(ent.attributes) != U.norm_attrs(sp["attrs"]):
                out.append("%s %s attributes %r, generated %r" % (kind, sp["name"], U.norm_attrs(ent.attributes), U.norm_attrs(sp["attrs"])))
            if (ent.description or None) != sp["desc"]:
                out.append("%s %s description %r, generated %r" % (kind, sp["name"], ent.description, sp["desc"]))
            if kind == "units" and sp.get("unit_class") and (ent.unit_class_entry is None or ent.unit_class_entry.name != sp["unit_class"]):
                out.append("unit %s is in class %s, generated in %s" % (sp["name"], ent.unit_class_entry and ent.unit_class_entry.name, sp["unit_class"]))
    return out


def _load_edited(version, xml):
    """-> (schema or None, new compliance issue keys, failure tuple or None)"""
    from hed.schema import from_string
    try:
        e = from_string(xml, ".xml")
    except Exception as ex:      # noqa: BLE001
        return None, [], ("C05.edit.compliant", {}, "edited XML does not load: %s: %s" % (type(ex).__name__, str(ex)[:300]),
                          "generated edit is a loadable schema")
    try:
        new = [_issue_key(i) for i in e.check_compliance()]
    except Exception as ex:      # noqa: BLE001
        return None, [], ("C05.save.never_raises", {}, "check_compliance of the edited schema raised %s: %s" % (type(ex).__name__, str(ex)[:300]),
                          "edited schema can be checked")
    for k in _base_issues[version]:
        if k in new:
            new.remove(k)
    return e, new, None


def run_edit_case(version, form, case_seed, tmp):
    """-> (fails, ops, n_specs)"""
    base_xml, inv = _base(version, form)
    xml, specs, ops = G.make_edit(base_xml, inv, form, case_seed)
    e, new, fail = _load_edited(version, xml)
    if fail:
        return [fail], ops, len(specs)
    if new:
        return [("C05.edit.compliant", {}, [(k[0], k[2], k[3], k[4][:150]) for k in new][:4],
                 "edit stays inside what the schema rules allow (no new compliance issue)")], ops, len(specs)
    partnered = inv.partnered
    modes = (True, False) if partnered else ((True,) if case_seed % 2 else (False,))
    return _check_edited(e, specs, inv, form, modes, case_seed % 5 == 0, "e%d" % case_seed, tmp), ops, len(specs)


def _check_edited(e, specs, inv, form, modes, memory, tag, tmp):
    fails = []
    try:
        bad = check_specs(e, specs)
    except Exception as ex:      # noqa: BLE001
        bad = ["reading the loaded schema raised %s: %s" % (type(ex).__name__, str(ex)[:200])]
    if bad:
        fails.append(("C05.edit.applied", {}, bad[:4], "loaded schema carries exactly the generated nodes/attributes/descriptions"))
    partnered = inv.partnered
    rt_fails = []
    roundtrip(e, ("xml", "mediawiki", "tsv"), modes, tmp, tag, rt_fails, memory=memory)
    # input shape with a known loss on the unchanged tree: a library unit added to a unit class of the standard schema,
    # saved unmerged as TSV (predicate on the generated input only)
    lib_unit_in_std_class = partnered and any(sp["kind"] == "units" and sp.get("unit_class") in inv.std_unit_classes for sp in specs)
    # second known shape: library loaded from its unmerged file with a node rooted below a standard node whose top-level
    # tree has no extensionAllowed (Event, Agent), saved merged as MediaWiki
    rooted_plain = partnered and form == "unmerged" and any(
        sp["kind"] == "tag" and isinstance(sp["attrs"].get("rooted"), str) and
        inv.base_tag_long.get(sp["attrs"]["rooted"], "").split("/")[0] in inv.plain_roots for sp in specs)
    for clause, where, observed, expected in rt_fails:
        tsv_unmerged = where.get("save_merged") is False and (where.get("format") == "tsv" or "tsv" in where.get("formats", []))
        wiki_merged = where.get("save_merged") is True and (where.get("format") == "mediawiki" or "mediawiki" in where.get("formats", []))
        if lib_unit_in_std_class and tsv_unmerged and clause in ("C05.rt.tsv_equal", "C05.cross.formats_agree",
                                                                   "C05.tsv.dataframes_in_memory"):
            clause = "C05.tsv.unmerged_library_unit_in_standard_class"
        elif rooted_plain and wiki_merged and clause in ("C05.rt.wiki_equal", "C05.cross.formats_agree", "C05.rt.entry_points_agree"):
            clause = "C05.wiki.merged_rooted_below_plain_root"
        fails.append((clause, where, observed, expected))
    return fails


# ------------------------------------------------------------------------------------------------ part E worker

def _shape_of_issue(key, specs):
    """which generated shape does a compliance issue belong to (by the entry it names; prologue / epilogue by section)"""
    code, section, name, attribute, message = key
    name = name or ""
    out = set()
    for sp in specs:
        if sp["kind"] == "text":
            if sp["which"].casefold() in (message or "").casefold() or sp["which"].casefold() in section.casefold():
                out.add(sp["shape"])
        elif sp["kind"] == "tag":
            if name == sp["short"] or name.endswith("/" + sp["short"]):
                out.add(sp["shape"])
        elif name == sp.get("name"):
            out.add(sp["shape"])
    return out


def run_sys_case(version, form, family, quick, tmp):
    """-> (fails, ops, n_shapes applied, shapes dropped as not allowed by this schema generation)"""
    base_xml, inv = _base(version, form)
    drop = set()
    for attempt in (0, 1, 2):
        xml, specs, ops, applied = S.build(base_xml, inv, form, family, quick, drop=drop)
        e, new, fail = _load_edited(version, xml)
        if fail:
            return [fail], ops, len(applied), sorted(drop)
        if not new:
            break
        more = set()
        for k in new:
            more |= _shape_of_issue(k, specs)
        more = {m for m in more if ".setup" not in m}
        if not more or attempt == 2:
            return [("C05.edit.compliant", {}, [(k[0], k[2], k[3], k[4][:150]) for k in new][:4],
                     "edit stays inside what the schema rules allow (no new compliance issue)")], ops, len(applied), sorted(drop)
        drop |= more
    modes = (True, False) if inv.partnered else (True,)
    return _check_edited(e, specs, inv, form, modes, True, "s_" + family, tmp), ops, len(applied), sorted(drop)


def _work_sys(item):
    version, form, family, quick = item
    tmp = _mkdtemp()
    t = time.time()
    try:
        try:
            fails, ops, n, dropped = run_sys_case(version, form, family, quick, tmp)
        except Exception:      # noqa: BLE001 - fault of the generator itself
            import traceback
            fails, ops, n, dropped = [("C05.edit.compliant", {}, "generator error: " + traceback.format_exc()[-400:], "case runs")], [], 0, []
    finally:
        shutil.rmtree(tmp, ignore_errors=True)
    return version, form, family, fails, ops, n, dropped, time.time() - t


def _work(chunk):
    tmp = _mkdtemp()
    out = []
    try:
        for version, form, case_seed in chunk:
            t = time.time()
            try:
                fails, ops, n = run_edit_case(version, form, case_seed, tmp)
            except Exception as ex:      # noqa: BLE001 - fault of the generator itself
                import traceback
                fails, ops, n = [("C05.edit.compliant", {}, "generator error: " + traceback.format_exc()[-400:], "case runs")], [], 0
            out.append((version, form, case_seed, fails, ops, n, time.time() - t))
            for f in os.listdir(tmp):
                p = os.path.join(tmp, f)
                shutil.rmtree(p) if os.path.isdir(p) else os.remove(p)
    finally:
        shutil.rmtree(tmp, ignore_errors=True)
    return out


def _work_probe(item):
    version, probe = item
    tmp = _mkdtemp()
    try:
        try:
            fails, skipped = run_probe(version, probe, tmp)
        except Exception as ex:      # noqa: BLE001
            fails, skipped = [("", {}, "%s: %s" % (type(ex).__name__, str(ex)[:300]), "probe runs")], None
    finally:
        shutil.rmtree(tmp, ignore_errors=True)
    return version, probe, fails, skipped


def _work_bundled(version):
    tmp = _mkdtemp()
    fails = []
    try:
        s = schema(version)
        roundtrip(s, formats_for(version), (True, False), tmp, "b", fails)
    except Exception as e:      # noqa: BLE001
        fails.append(("C05.save.never_raises", {}, "%s: %s" % (type(e).__name__, str(e)[:300]), "bundled schema loads and round-trips"))
    finally:
        shutil.rmtree(tmp, ignore_errors=True)
    return version, fails


# ------------------------------------------------------------------------------------------------ part F: save over an earlier save

_hist_cache = {}
_hist_base_issues = {}


def _hist_schema(src):
    """src = ["bundled", version, save_merged] | ["emptied", version, which]  ->  (schema object, save_merged, skip reason or None)"""
    from hed.schema import from_string
    from hed.schema.hed_schema_constants import HedSectionKey as K
    key = tuple(src)
    if key not in _hist_cache:
        kind, version, arg = src
        s = schema(version)
        if kind == "bundled":
            _hist_cache[key] = (s, bool(arg), None)
        else:
            if version not in _hist_base_issues:
                _hist_base_issues[version] = [_issue_key(i) for i in s.check_compliance()]
            e = from_string(H.emptied(s.get_as_xml_string(save_merged=True), arg), ".xml")
            new = [k for k in (_issue_key(i) for i in e.check_compliance()) if k not in _hist_base_issues[version]]
            skip = None
            if new:
                skip = "not inside the schema rules of this generation: %s" % [(k[0], k[4][:80]) for k in new][:2]
            elif any(len(e[getattr(K, sec)]) for sec in H.expected_empty(arg)):
                skip = "APPLY: sections %s not empty after the edit" % H.expected_empty(arg)
            _hist_cache[key] = (e, True, skip)
    return _hist_cache[key]


def _hist_target(fmt, style, tmp):
    if fmt == "xml":
        return os.path.join(tmp, "out", "HED_target.xml")
    if fmt == "mediawiki":
        return os.path.join(tmp, "out", "HED_target.mediawiki")
    return os.path.join(tmp, "out", "HED_target.tsv" if style == "file" else "HED_target")


def _hist_save(s, fmt, merged, target):
    if fmt == "xml":
        os.makedirs(os.path.dirname(target), exist_ok=True)
        s.save_as_xml(target, save_merged=merged)
    elif fmt == "mediawiki":
        os.makedirs(os.path.dirname(target), exist_ok=True)
        s.save_as_mediawiki(target, save_merged=merged)
    else:
        s.save_as_dataframes(target, save_merged=merged)


def run_history_case(fmt, xsrc, ysrc, style, tmp):
    """save X under a name, save Y under the same name, load the name: equals Y.  -> (fails, skip reason or None)"""
    from hed.schema import load_schema
    x, xm, xskip = _hist_schema(xsrc)
    y, ym, yskip = _hist_schema(ysrc)
    for sk in (xskip, yskip):
        if sk:
            if sk.startswith("APPLY"):
                return [("C05.edit.applied", {}, sk, "emptied sections are empty in the loaded edit")], None
            return [], sk
    where = {"format": fmt, "save_merged": ym}
    target = _hist_target(fmt, style, tmp)
    try:
        _hist_save(x, fmt, xm, target)
        _hist_save(y, fmt, ym, target)
        r = load_schema(target)
    except Exception as e:      # noqa: BLE001
        return [("C05.save.never_raises", where, "%s: %s" % (type(e).__name__, str(e)[:300]),
                 "save over an earlier save and reload without an exception")], None
    clause = "C05.rt.%s_equal" % {"xml": "xml", "mediawiki": "wiki", "tsv": "tsv"}[fmt]
    try:
        eq = (r == y) and (y == r)
        d = U.diff(U.fingerprint(y), U.fingerprint(r))
    except Exception as e:      # noqa: BLE001
        eq, d = False, ["comparison raised %s: %s" % (type(e).__name__, str(e)[:200])]
    if not eq or d:
        return [(clause, where, {"__eq__": eq, "fingerprint_diff": d},
                 "the name holds the LAST save: reloaded schema equals the schema saved last")], None
    return [], None


def _work_hist(item):
    fmt, xsrc, ysrc, style = item
    tmp = _mkdtemp()
    t = time.time()
    try:
        try:
            fails, skipped = run_history_case(fmt, xsrc, ysrc, style, tmp)
        except Exception:      # noqa: BLE001 - fault of the workload itself
            import traceback
            fails, skipped = [("C05.edit.compliant", {}, "workload error: " + traceback.format_exc()[-400:], "case runs")], None
    finally:
        shutil.rmtree(tmp, ignore_errors=True)
    return item, fails, skipped, time.time() - t


def history_work(compliant, quick):
    """[(format, X source, Y source, name style)]"""
    std = [v for v, lib, ws in compliant if not lib]
    part = [(v, ws) for v, lib, ws in compliant if lib and ws and ws in std]
    pairs = []          # (X, Y) structured
    for v, ws in part:
        pairs.append((["bundled", v, True], ["bundled", v, False]))         # merged form, then unmerged form, same name
        pairs.append((["bundled", v, False], ["bundled", v, True]))
        pairs.append((["bundled", ws, True], ["bundled", v, False]))        # the standard schema, then a library
        pairs.append((["bundled", v, False], ["bundled", ws, True]))
    for a, b in zip(std, std[1:] + std[:1]):                                # standard generations (8.3.0 fills sections 8.2.0 leaves empty)
        pairs.append((["bundled", a, True], ["bundled", b, True]))
        pairs.append((["bundled", b, True], ["bundled", a, True]))
    for k in range(len(part)):                                              # a library, then another library
        pairs.append((["bundled", part[k][0], False], ["bundled", part[(k + 1) % len(part)][0], False]))
    single = [p for p in pairs]                                             # the single-file formats: bundled forms only
    bases = [v for v in std if v in ("8.3.0", "8.0.0")] or std[-1:]
    if not quick:
        bases = std
    for v in bases:                                                         # an edited copy with sections emptied
        for which in H.EMPTYINGS:
            pairs.append((["bundled", v, True], ["emptied", v, which]))
            pairs.append((["emptied", v, which], ["bundled", v, True]))
        pairs.append((["emptied", v, "no_units"], ["emptied", v, "no_value_classes"]))
        pairs.append((["emptied", v, "no_value_classes"], ["emptied", v, "no_units"]))
    if not quick:                                                           # every ordered pair of bundled forms
        forms = [["bundled", v, True] for v, lib, ws in compliant] + [["bundled", v, False] for v, ws in part]
        pairs += [(a, b) for a in forms for b in forms if a != b]
    twice = [["bundled", v, True] for v, lib, ws in compliant] + [["bundled", v, False] for v, ws in part] + \
            [["emptied", v, which] for v in bases for which in ("no_units", "no_units_no_value_classes")]
    if quick:
        twice = twice[::2]
    seen, out = set(), []

    def add(fmt, x, y, style):
        key = (fmt, tuple(x), tuple(y), style)
        if key not in seen:
            seen.add(key)
            out.append((fmt, x, y, style))
    for k, (x, y) in enumerate(pairs):
        if quick:
            add("tsv", x, y, ("folder", "file")[k % 2])
        else:
            add("tsv", x, y, "folder")
            add("tsv", x, y, "file")
    for k, y in enumerate(twice):
        add("tsv", y, y, ("folder", "file")[k % 2])
    for fmt in ("xml", "mediawiki"):
        sel = single[::3] if quick else single
        for x, y in sel:
            add(fmt, x, y, "file")
        for y in (twice[::4] if quick else twice):
            if y[0] == "bundled":
                add(fmt, y, y, "file")
    # heaviest first (the merged score libraries)
    out.sort(key=lambda it: -sum(("score" in src[1]) + (src[2] is True) for src in (it[1], it[2])))
    return out


# ------------------------------------------------------------------------------------------------ part C: narrow probes

PROBES = [
    # (label suffix, kind, payload)          all payloads lie inside the allowed classes (zero compliance issues)
    ("desc.outer_blank", "desc", " leading blank"),
    ("desc.outer_blank", "desc", "trailing blank "),
    ("desc.outer_blank", "desc", " "),
    ("desc.leading_double_quote", "desc", '"Quoted" word first'),
    ("desc.leading_double_quote", "desc", '"'),
    ("desc.nowiki_literal", "desc", "the <nowiki> markup"),
    ("desc.nowiki_literal", "desc", "closing </nowiki> tag"),
    ("attr.equals_sign_value", "allowedCharacter", "=,letters"),
    ("attr.equals_sign_value", "allowedCharacter", "digits,="),
    ("name.tsv_reserved_parent", "node", "HedTag"),
    ("wiki.merged_rooted_below_plain_root", "rooted", "Sensory-event"),      # partnered libraries, loaded from the unmerged form
    ("wiki.merged_rooted_below_plain_root", "rooted", "Agent"),
]


def run_probe(version, probe, tmp):
    from hed.schema import from_string
    label, kind, payload = probe
    s = schema(version)
    if kind == "rooted":
        if not s.with_standard:
            return None, "stand-alone schema: no rooted nodes"
        root = ET.fromstring(s.get_as_xml_string(save_merged=False))
        n = ET.SubElement(root.find("schema"), "node")
        ET.SubElement(n, "name").text = "Zq-probe-rooted"
        a = ET.SubElement(n, "attribute")
        ET.SubElement(a, "name").text = "rooted"
        ET.SubElement(a, "value").text = payload
        c = ET.SubElement(n, "node")
        ET.SubElement(c, "name").text = "Zq-probe-child"
        e = from_string(ET.tostring(root, encoding="unicode"), ".xml")
        base = [_issue_key(i) for i in s.check_compliance()]
        new = [k for k in (_issue_key(i) for i in e.check_compliance()) if k not in base]
        if new:
            return None, [(k[0], k[4][:100]) for k in new]
        fails = []
        roundtrip(e, ("xml", "mediawiki", "tsv"), (True, False), tmp, "p", fails, memory=False,
                  only={"rt", "save.never_raises", "cross.formats_agree"})
        return fails, None
    root = ET.fromstring(s.get_as_xml_string(save_merged=True))
    sch = root.find("schema")
    if kind == "desc":
        host = [n for n in sch.findall("node")][0]
        n = ET.SubElement(host, "node")
        ET.SubElement(n, "name").text = "Zq-probe-node"
        ET.SubElement(n, "description").text = payload
        if s.with_standard:
            a = ET.SubElement(n, "attribute")
            ET.SubElement(a, "name").text = "inLibrary"
            ET.SubElement(a, "value").text = s.library
    elif kind == "allowedCharacter":
        vcs = root.find("valueClassDefinitions")
        vc = ET.SubElement(vcs, "valueClassDefinition")
        ET.SubElement(vc, "name").text = "zqProbeClass"
        a = ET.SubElement(vc, "attribute")
        ET.SubElement(a, "name").text = "allowedCharacter"
        for v in payload.split(","):
            ET.SubElement(a, "value").text = v
        if s.with_standard:
            a = ET.SubElement(vc, "attribute")
            ET.SubElement(a, "name").text = "inLibrary"
            ET.SubElement(a, "value").text = s.library
    else:
        n = ET.Element("node")
        ET.SubElement(n, "name").text = payload
        if s.with_standard:
            a = ET.SubElement(n, "attribute")
            ET.SubElement(a, "name").text = "inLibrary"
            ET.SubElement(a, "value").text = s.library
        sch.insert(0, n)
    e = from_string(ET.tostring(root, encoding="unicode"), ".xml")
    base = [_issue_key(i) for i in s.check_compliance()]
    new = [k for k in (_issue_key(i) for i in e.check_compliance()) if k not in base]
    if new:
        return None, [(k[0], k[4][:100]) for k in new]      # not inside the allowed classes for this schema generation: skip
    fails = []
    roundtrip(e, ("xml", "mediawiki", "tsv"), (True,), tmp, "p", fails, memory=False, only={"rt", "save.never_raises", "cross.formats_agree"})
    return fails, None


# ------------------------------------------------------------------------------------------------ part D

def multi_library_refusal(w, allb, tmp):
    from hed.schema import load_schema_version
    from hed.errors.exceptions import HedFileError
    partnered = [(v, ws) for v, lib, ws in allb if lib and ws]
    n = 0
    skipped = []
    for i, (a, wa) in enumerate(partnered):
        for b, wb in partnered[i + 1:]:
            if wa != wb or a.split("_")[0] == b.split("_")[0]:
                continue
            for spec in ([a, b], [b, a], "%s,%s" % (a, b)):
                inp = {"load_schema_version": spec}
                try:
                    m = load_schema_version(spec)
                    can = m.can_save()
                except HedFileError as e:
                    skipped.append("%s: %s" % (spec, e.code))       # the two libraries cannot be merged at all (e.g. clashing tags)
                    continue
                except Exception as e:      # noqa: BLE001
                    w.fail("C05.multi.refuses_save", inp, "%s: %s" % (type(e).__name__, str(e)[:200]), "loads as a merged schema")
                    continue
                n += 1
                w.case(("multi", str(spec)), sample=inp)
                w.check(can is False, "C05.multi.refuses_save", inp, "can_save() -> %r" % can, False)
                targets = {
                    "save_as_xml": lambda p, mg: m.save_as_xml(p, save_merged=mg),
                    "save_as_mediawiki": lambda p, mg: m.save_as_mediawiki(p, save_merged=mg),
                    "save_as_dataframes": lambda p, mg: m.save_as_dataframes(p, save_merged=mg),
                    "get_as_xml_string": lambda p, mg: m.get_as_xml_string(save_merged=mg),
                    "get_as_mediawiki_string": lambda p, mg: m.get_as_mediawiki_string(save_merged=mg),
                    "get_as_dataframes": lambda p, mg: m.get_as_dataframes(save_merged=mg),
                }
                for name, fn in targets.items():
                    for mg in (True, False):
                        p = os.path.join(tmp, "multi_%s_%d%s" % (name, int(mg), {"save_as_xml": ".xml", "save_as_mediawiki": ".mediawiki"}.get(name, "")))
                        obs = "returned normally"
                        try:
                            fn(p, mg)
                        except HedFileError as e:
                            obs = "HedFileError " + str(e.code)
                        except Exception as e:      # noqa: BLE001
                            obs = "%s: %s" % (type(e).__name__, str(e)[:200])
                        wrote = os.path.exists(p)
                        if wrote:
                            shutil.rmtree(p) if os.path.isdir(p) else os.remove(p)
                        w.check(obs == "HedFileError SCHEMA_LIBRARY_INVALID" and not wrote, "C05.multi.refuses_save",
                                dict(inp, entry_point=name, save_merged=mg), {"outcome": obs, "file_written": wrote},
                                {"outcome": "HedFileError SCHEMA_LIBRARY_INVALID", "file_written": False})
    w.check(n > 0, "C05.multi.refuses_save", {"pairs": [p[0] for p in partnered], "not_mergeable": skipped},
            "no multi-library merge could be built", "at least one pair of bundled partnered libraries merges into one namespace")
    # control: every single schema may be saved
    for v, lib, ws in allb:
        try:
            can = schema(v).can_save()
        except Exception as e:      # noqa: BLE001
            can = "%s: %s" % (type(e).__name__, e)
        w.check(can is True, "C05.multi.refuses_save", {"load_schema_version": v}, "can_save() -> %r" % (can,), True)
    return n


# ------------------------------------------------------------------------------------------------ driver

def run(w: Workload):
    global _TMP_ROOT
    _TMP_ROOT = tempfile.mkdtemp(prefix="c05root_")
    try:
        _run(w)
    finally:
        shutil.rmtree(_TMP_ROOT, ignore_errors=True)
        _TMP_ROOT = None


def _run(w: Workload):
    w.rule = ("A: all bundled schemas x 3 formats x {merged, unmerged} (legacy stand-alone libraries: xml/wiki). "
              "B: (compliant bundled schema, file form, case seed) -> 1-3 generated edit ops; distinct by the triple. "
              "E: (compliant bundled schema, file form, family of systematic shapes). F: (format, schema saved earlier, schema saved last under the same name, name spelling). C: fixed probes x the 8.3-generation schemas. D: all pairs of partnered libraries with equal withStandard, "
              "3 spellings of the version list x 6 save entry points x {merged, unmerged}")
    allb = bundled_versions()
    versions = [v for v, _, _ in allb]
    nproc = min(14, max(1, (os.cpu_count() or 2) - 2))
    ctx = multiprocessing.get_context("fork")
    loadable = []
    for v, lib, ws in allb:
        try:
            schema(v)            # load before forking: workers inherit the cache
            loadable.append((v, lib, ws))
        except Exception as e:      # noqa: BLE001
            w.fail("C05.save.never_raises", {"schema": v, "part": "A"}, "load_schema_version raised %s: %s" % (type(e).__name__, str(e)[:300]),
                   "bundled schema loads")
    allb = loadable
    versions = [v for v, _, _ in allb]
    compliant = [(v, lib, ws) for v, lib, ws in allb if v not in LEGACY]
    # ---- part B work list
    n_edits = int(os.environ.get("C05_N_EDITS", 0)) or (150 if w.quick else 3000)    # env override: debugging only
    work = []
    for k in range(n_edits):
        v, lib, ws = compliant[k % len(compliant)]
        form = "merged" if not ws else ("unmerged" if (k // len(compliant)) % 3 != 2 else "merged")
        work.append((v, form, w.rng.randrange(1, 2 ** 31)))
    by = {}
    for item in work:
        by.setdefault(item[:2], []).append(item)
    chunks = []
    for key in sorted(by):
        size = 4 if w.quick else 12
        chunks += [by[key][i:i + size] for i in range(0, len(by[key]), size)]
    probes = [(v, probe) for v, _, _ in compliant for probe in PROBES]
    # ---- part E work list: systematic edits (rt/c05_sys.py)
    sys_work = []
    for k, (v, lib, ws) in enumerate(compliant):
        for j, family in enumerate(("multi", "text")):
            if not ws:
                forms = ("merged",)
            elif w.quick:
                forms = (("unmerged", "merged")[(k + j) % 2],)
            else:
                forms = ("unmerged", "merged")
            sys_work += [(v, form, family, w.quick) for form in forms]
    hist_work = history_work(compliant, w.quick)
    with ctx.Pool(nproc) as pool:
        res_e = pool.map_async(_work_sys, sys_work, chunksize=1)     # the longest single items first
        res_f = pool.map_async(_work_hist, hist_work, chunksize=1)
        res_a = pool.map_async(_work_bundled, versions, chunksize=1)
        res_b = pool.map_async(_work, chunks, chunksize=1)
        res_c = pool.map_async(_work_probe, probes, chunksize=2)
        res_a, res_b, res_c, res_e, res_f = res_a.get(), res_b.get(), res_c.get(), res_e.get(), res_f.get()
    # ---- part A
    n_a = 0
    for version, fails in res_a:
        for fmt in formats_for(version):
            for merged in (True, False):
                n_a += 1
                w.case(("A", version, fmt, merged), sample={"schema": version, "format": fmt, "save_merged": merged})
        for clause, where, observed, expected in fails:
            w.fail(clause, dict(where, schema=version, part="A"), observed, expected)
    w.part("A: bundled schemas", cases=n_a, exhaustive=True,
           bound="all %d bundled schemas x {xml, mediawiki, tsv} x {save_merged True, False}; score_1.0.0 and testlib_1.0.2 "
                 "xml/mediawiki only; file and in-memory entry points; pairwise cross-format; independent XML listing" % len(versions))
    # ---- part B
    slow = 0.0
    n_ops = 0
    for chunk in res_b:
        for version, form, seed, fails, ops, n_specs, dt in chunk:
            slow = max(slow, dt)
            n_ops += len(ops)
            w.case(("B", version, form, seed), nontrivial=bool(ops), sample={"schema": version, "form": form, "case_seed": seed, "ops": ops[:3]})
            for clause, where, observed, expected in fails:
                w.fail(clause, dict(where, schema=version, form=form, case_seed=seed, ops=ops, part="B"), observed, expected)
    w.part("B: generated edits", cases=len(work), exhaustive=False, edit_ops=n_ops, slowest_case_s=round(slow, 2),
           bound="%d edited schemas (1-3 ops each) over the 9 compliant bundled schemas; partnered libraries edited in their "
                 "unmerged (2/3) and merged (1/3) file form and round-tripped merged and unmerged; others in one save mode" % n_edits)
    # ---- part E
    n_shapes, slow_e, dropped_e = 0, 0.0, {}
    for version, form, family, fails, ops, n, dropped, dt in res_e:
        n_shapes += n
        slow_e = max(slow_e, dt)
        if dropped:
            dropped_e["%s %s" % (version, family)] = len(dropped)
        w.case(("E", version, form, family), nontrivial=n > 0, sample={"schema": version, "form": form, "family": family, "shapes": n,
                                                                      "ops": ops[:3]})
        for clause, where, observed, expected in fails:
            w.fail(clause, dict(where, schema=version, form=form, family=family, part="E"), observed, expected)
    w.part("E: systematic edits (contained values of multi-valued attributes; line-boundary and other non-ASCII text)",
           cases=len(sys_work), exhaustive=True, shapes_applied=n_shapes, slowest_case_s=round(slow_e, 2),
           shapes_not_allowed_by_the_schema_generation=dropped_e,
           bound="the 9 compliant bundled schemas x {multi, text} (partnered libraries: %s file form); multi = suggestedTag / relatedTag "
                 "over %d pairs per relation (prefix, suffix, infix, caseless) of existing tags with one contained in the other x 5 "
                 "orders, 12 allowedCharacter lists, valueClass / unitClass lists over new classes with nested names; text = %d "
                 "code points x 3 placements x 8 sites%s, prologue and epilogue; every edited schema is saved and reloaded through "
                 "the file AND the string / dataframe entry points of all formats, merged and unmerged"
                 % ("alternating" if w.quick else "both", 2 if w.quick else 6, len(S.LINE_BOUNDARIES + S.OTHER_NONASCII),
                    " (quick: all on node descriptions and attribute values, a quarter of the other sites)" if w.quick else ""))
    # ---- part F
    n_f, slow_f, skipped_f, per_fmt = 0, 0.0, {}, {}
    for (fmt, xsrc, ysrc, style), fails, skipped, dt in res_f:
        slow_f = max(slow_f, dt)
        inp = {"part": "F", "format": fmt, "earlier_save": xsrc, "last_save": ysrc, "name_style": style}
        if skipped:
            skipped_f["%s / %s" % (xsrc, ysrc)] = skipped
            continue
        n_f += 1
        per_fmt[fmt] = per_fmt.get(fmt, 0) + 1
        w.case(("F", fmt, tuple(xsrc), tuple(ysrc), style), nontrivial=True, sample=inp)
        for clause, where, observed, expected in fails:
            w.fail(clause, dict(where, **inp), observed, expected)
    w.part("F: a save over an earlier save under the same name", cases=n_f, exhaustive=not w.quick, per_format=per_fmt,
           slowest_case_s=round(slow_f, 2), skipped_not_compliant=skipped_f,
           bound="(earlier save X, last save Y) over: merged <-> unmerged form of every partnered compliant library, its standard "
                 "partner <-> the unmerged library, neighbouring standard generations both ways, library -> next library, %s x 4 emptied "
                 "edits (no modifiers / no units / no value classes / neither) both ways and against each other%s; X == Y (saving "
                 "twice) for %s; TSV under a folder name and a <name>.tsv name (%s), XML / MediaWiki on %s"
                 % ("standard schemas 8.3.0 and 8.0.0" if w.quick else "every standard schema",
                    "" if w.quick else ", and every ordered pair of the bundled forms (merged / unmerged)",
                    "every second form" if w.quick else "every form", "alternating" if w.quick else "both",
                    "every third bundled pair" if w.quick else "the bundled pairs"))
    # ---- part C
    tmp = _mkdtemp()
    try:
        n_c = 0
        per_probe = {}
        for version, probe, fails, skipped in res_c:
            per_probe.setdefault("%s %r" % (probe[0], probe[2]), 0)
            if skipped is not None:
                continue
            n_c += 1
            per_probe["%s %r" % (probe[0], probe[2])] += 1
            w.case(("C", version, probe[0], probe[2]), sample={"schema": version, "probe": probe[0], "payload": probe[2]})
            if fails:
                w.fail("C05." + probe[0], {"schema": version, "probe": list(probe), "part": "C"},
                       [(c, wh, ob) for c, wh, ob, _ in fails][:4], "round trip in every format keeps the text")
        w.part("C: narrow probes", cases=n_c, exhaustive=True, schemas_per_probe=per_probe,
               bound="%d fixed payloads inside the allowed classes x the schemas that accept them without a compliance issue "
                     "(a payload that a schema generation does not allow is skipped there)" % len(PROBES))
        # ---- part D
        n_d = multi_library_refusal(w, allb, tmp)
        w.part("D: multi-library merge refuses to save", cases=n_d, exhaustive=True,
               bound="all pairs of bundled partnered libraries of different library name with equal withStandard, 3 spellings, "
                     "6 save entry points x 2 modes; control: every single schema can_save()")
    finally:
        shutil.rmtree(tmp, ignore_errors=True)
    w.assumptions += [
        "HedSchema.__eq__ is the property's notion of 'equal'; it is doubled by rt/c05_util.fingerprint (names, attribute "
        "value sets, descriptions, unit membership, inherited attributes, header, stripped prologue/epilogue)",
        "file rules for merged / unmerged partnered files as written in c05_util.expected_listing (HED schema format spec)",
        "xml.etree.ElementTree reads XML correctly; pandas/csv and ElementTree writers are part of what is exercised",
        "generated edits are 'inside the allowed classes' iff check_compliance reports no issue beyond the base schema's (C14)",
    ]
    w.not_covered += [
        "edits of score_1.0.0 / testlib_1.0.2 and their TSV form (carve-out of the property)",
        "OWL / ontology output, schema comparison tooling, URL loading",
        "edits that change a standard-schema entry inside a partnered library file",
        "descriptions or names outside the allowed character classes; attribute values containing ',' or '=' other than the probe",
        "the base text of the 'unmerged' file form of a partnered library is produced by the XML writer of /repo (no such file ships)",
        "byte-level stability of the saved text (only reload equality and the XML listing are checked)",
        "save histories longer than two saves, an earlier save written by another tool or with extra files (prefix / external-"
        "annotation tables), and whether files of the earlier save that the reader never opens are left behind",
    ]


def replay(w: Workload, case: dict):
    inp = case["input"]
    tmp = _mkdtemp()
    try:
        _replay(w, case, inp, tmp)
    except Exception as e:      # noqa: BLE001
        w.fail(case.get("clause", "C05.save.never_raises"), inp, "replay raised %s: %s" % (type(e).__name__, str(e)[:300]), "replays")
    finally:
        shutil.rmtree(tmp, ignore_errors=True)


def _replay(w, case, inp, tmp):
    if True:
        if inp.get("part") == "B":
            fails, ops, _ = run_edit_case(inp["schema"], inp["form"], inp["case_seed"], tmp)
            for clause, where, observed, expected in fails:
                w.fail(clause, dict(where, **{k: inp[k] for k in ("schema", "form", "case_seed")}, ops=ops, part="B"), observed, expected)
        elif inp.get("part") == "E":
            fails, ops, _, _ = run_sys_case(inp["schema"], inp["form"], inp["family"], True, tmp)
            if not fails:
                fails, ops, _, _ = run_sys_case(inp["schema"], inp["form"], inp["family"], False, tmp)
            for clause, where, observed, expected in fails:
                w.fail(clause, dict(where, **{k: inp[k] for k in ("schema", "form", "family")}, part="E"), observed, expected)
        elif inp.get("part") == "F":
            fails, _ = run_history_case(inp["format"], inp["earlier_save"], inp["last_save"], inp["name_style"], tmp)
            for clause, where, observed, expected in fails:
                w.fail(clause, dict(where, **{k: inp[k] for k in ("part", "format", "earlier_save", "last_save", "name_style")}),
                       observed, expected)
        elif inp.get("part") == "A":
            fails = []
            roundtrip(schema(inp["schema"]), formats_for(inp["schema"]), (True, False), tmp, "b", fails)
            for clause, where, observed, expected in fails:
                w.fail(clause, dict(where, schema=inp["schema"], part="A"), observed, expected)
        elif inp.get("part") == "C":
            fails, skipped = run_probe(inp["schema"], tuple(inp["probe"]), tmp)
            if fails:
                w.fail("C05." + inp["probe"][0], inp, [(c, wh, ob) for c, wh, ob, _ in fails][:4], "round trip keeps the text")
        else:
            multi_library_refusal(w, bundled_versions(), tmp)


if __name__ == "__main__":
    main(run, "C05", replay)
