"""C09 helper (also used by rt/c08.py): definition contents with the placeholder tag at a chosen DEPTH of the content group.

The property says a definition "has exactly one '#' on a value-taking tag if and only if its name ends in '/#'" - wherever
in its content that tag stands.  The layouts below put a slot X (and for the two-'#' faults a second slot Y) at depth 1, 2
and 3 of the content group, alone, next to sibling tags, next to sibling groups and inside one of several sibling groups.
Depth 1 = direct child of the content group.  Every group holds distinct tags, so that a filled layout is a valid
annotation whenever the filler is.
"""

# (depth of X, layout)
LAYOUTS1 = [
    (1, "(X)"),
    (1, "(X, Green)"),
    (1, "(Green, X)"),
    (1, "(X, (Green, Square))"),                    # next to a sibling group
    (1, "((Green, Square), X, (Blue, Circle))"),    # between sibling groups
    (2, "(Green, (X))"),
    (2, "(Green, (X, Square))"),
    (2, "((Square, X), Green)"),
    (2, "((X, Square), (Blue, Circle))"),           # inside the first of two sibling groups
    (2, "((Blue, Circle), (Square, X))"),           # inside the second
    (3, "(Green, (Square, (X)))"),
    (3, "(((X, Blue)), Green)"),
    (3, "((Circle), (Square, (X, Blue)))"),
    (3, "((Circle, (Blue)), (Square, (Triangle, X)))"),
]

# ((depth of X, depth of Y), layout)
LAYOUTS2 = [
    ((1, 1), "(X, Y)"),
    ((1, 2), "(X, (Y, Square))"),
    ((1, 3), "(X, (Square, (Y)))"),
    ((2, 2), "((X), (Y))"),
    ((2, 3), "((X, Circle), (Square, (Y)))"),
    ((3, 1), "((Square, (X)), Y)"),
    ((3, 3), "(Green, (Square, (X, Y)))"),
]

# value-taking tags that may carry the '#': (tag text with '#', a valid value to plug in for '#')
GOOD_FILLERS = [("Label/#", "abc"), ("Speed/# mph", "3"), ("Distance/#", "4 m"), ("Age/#", "12")]

# single-slot fillers that break the rule for a name ending in '/#':  (text, number of '#', every '#' alone on a value tag)
BAD_FILLERS = [
    ("Label/#, Speed/# mph", 2, True),     # two '#' side by side
    ("Label/##", 2, False),                # two '#' on one tag
    ("Red/#", 1, False),                   # '#' on a tag that takes no value
    ("Item/#", 1, False),
    ("Label/xyz", 0, True),                # no '#' at all
]

# second-slot fillers (X holds a good filler): (text, number of '#' it adds, on a value-taking tag)
SECOND_FILLERS = [("Speed/# mph", 1, True), ("Red/#", 1, False), ("Speed/3 mph", 0, True)]


def fill(layout, x, y=None):
    out = layout.replace("X", "\x00").replace("Y", "\x01")
    out = out.replace("\x00", x)
    if y is not None:
        out = out.replace("\x01", y)
    return out


def single_slot_contents():
    """-> (content text, depth, layout, number of '#', all '#' alone on value-taking tags, value to plug or None)"""
    for depth, layout in LAYOUTS1:
        for k, (x, v) in enumerate(GOOD_FILLERS):
            yield fill(layout, x), depth, layout, 1, True, v
        for x, nhash, on_value in BAD_FILLERS:
            yield fill(layout, x), depth, layout, nhash, on_value, None


def two_slot_contents():
    for depths, layout in LAYOUTS2:
        for x, v in GOOD_FILLERS[:2]:
            for y, add, on_value in SECOND_FILLERS:
                if x.split("/")[0] == y.split("/")[0]:
                    continue          # the same tag twice in one group would be a different fault (repeated tag)
                yield fill(layout, x, y), depths, layout, 1 + add, on_value, (v if add == 0 else None)


def depth_of_hash(content_text):
    """depths (1 = direct child of the outermost group) of all '#' characters of a content text - own scan"""
    depth = 0
    out = []
    for ch in content_text:
        if ch == "(":
            depth += 1
        elif ch == ")":
            depth -= 1
        elif ch == "#":
            out.append(depth)
    return out
