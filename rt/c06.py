"""C06 (tier T3, bounded): event-file rows assemble into exactly the annotation the sidecar prescribes.

Oracle = assemble_spec(), written from the property statement on *parse trees* (it never uses a regular expression to
remove a reference, never looks at hed.models).  The real code is TabularInput(df, Sidecar).assemble()/series_a.

Parts
  rows     every generated sidecar x ONE stacked table holding every row type (full product of the cells of the host
           column and of the referenced columns; by-stander columns cycle)           -> row semantics
  tables   representative sidecars x all tables with <= 3 rows (quick: <= 2 rows + a seeded sample of 3-row tables)
           in three file column orders                                               -> table-level behaviour
  ref      df_util.replace_ref on every well-formed template (<= 8 tokens, quick 6) with the documented absent
           marker 'n/a' and with a present value, in compact and spaced spelling
  empty    tables given as DataFrames with '' cells (the property says empty cells are skipped like n/a)
  index    tables given as DataFrames with a non-default row index
  na-words sidecars whose category KEYS are missing-value look-alikes (nan, NaN, null, None, NA and n/a itself) x DataFrame
           tables whose cells hold exactly those texts: a cell that is neither 'n/a' nor empty selects the entry stored under
           its text (also when the column is spliced through a reference, and as the text of a value column); a cell that IS
           'n/a' stays absent even when the sidecar has an entry keyed 'n/a' (own narrow clause C06.cell.na_key_never_selected)
  no-categories  categorical columns with an EMPTY categories object ("HED": {}) and columns whose cells are all unknown keys:
           alone in the sidecar, next to other columns, referenced in curly braces; such a column selects no entry for any cell,
           so it contributes nothing, a reference to it disappears, and the cell text never appears in the annotation
  unmapped tables in which NO column is annotated: no sidecar at all / an empty sidecar / a sidecar all of whose annotated columns are
           absent from the table (with 0-2 curly-brace references in its entries, incl. {HED}) / a sidecar with only ignored
           (Description / Levels / Units, no HED) columns, present in the table or not / both; no HED column.  By the statement a row's
           annotation is made of HED-column cells, selected categorical entries and filled value templates only -- here nothing, so
           every row assembles to the empty annotation, dataframe_a lists no column, and no raw cell text (1.0, 0.5, go, Red,
           '(Green, Big)') ever shows up.  Then the same tables with exactly ONE mapped column (HED column, a categorical or a
           value column) placed first / in the middle / last among the unmapped ones: the annotation is that column's contribution.
"""
import copy
import io
import itertools
import json
import multiprocessing
import re

from rt.common import Workload, main

NA = "n/a"
REF_RE = re.compile(r"\{([A-Za-z0-9_\-]+)\}")
WORKERS = 14

L_CAT = "C06.cell.categorical"
L_VAL = "C06.cell.value"
L_HED = "C06.cell.hed_column"
L_SPLICE = "C06.ref.splice_in_place"
L_ABSENT = "C06.ref.absent_cell_disappears"
L_D3 = "C06.ref.absent_categorical_cell"           # D3
L_TWICE = "C06.ref.same_column_twice_absent"       # new: '{c}, {c}' with an n/a cell leaves a dangling comma / '()'
L_LISTED = "C06.ref.not_listed_separately"
L_UNION = "C06.row.union_of_columns"
L_WELL = "C06.row.delimiter_wellformed"
L_ROWS = "C06.rows.one_per_row_in_order"
L_REPEAT = "C06.repeat.same_answer"
L_FR_VALUES = "C06.frame.table_values"
L_FR_DTYPES = "C06.frame.table_dtypes"             # D4
L_FR_CALLER = "C06.frame.caller_dataframe"
L_FR_SIDECAR = "C06.frame.sidecar"
L_RAISES = "C06.assemble.raises"
L_REPLACE = "C06.ref.replace_ref_tree"
L_EMPTY_PLAIN = "C06.empty.plain_cell_skipped"
L_EMPTY_VALUE = "C06.empty.value_cell_skipped"
L_EMPTY_REF = "C06.empty.referenced_cell_disappears"
L_INDEX = "C06.rows.nondefault_index"
L_NAKEY = "C06.cell.na_key_never_selected"         # narrow: an n/a cell next to a sidecar entry keyed 'n/a' must stay absent
L_NUMERIC = "C06.ref.numeric_column_name"          # new: '{7}' is read as a regex quantifier by replace_ref, the n/a reference stays


# ----------------------------------------------------------------------------------------------- the specification
def parse_strict(text):
    """annotation text -> tree (list of str | list); None when the text is not delimiter-well-formed
    (unbalanced or crossing parentheses, an empty item between/before/after commas, an empty group, 'A(B)')."""
    n = len(text)
    pos = 0

    def ws():
        nonlocal pos
        while pos < n and text[pos] == " ":
            pos += 1

    def items(depth):
        nonlocal pos
        out = []
        while True:
            ws()
            if pos < n and text[pos] == "(":
                pos += 1
                sub = items(depth + 1)
                if not sub:
                    return None
                pos += 1  # the ')'
                out.append(sub)
            else:
                st = pos
                while pos < n and text[pos] not in ",()":
                    pos += 1
                tag = text[st:pos].strip()
                if not tag:
                    return None
                out.append(tag)
            ws()
            if pos >= n:
                return out if depth == 0 else None
            ch = text[pos]
            if ch == ",":
                pos += 1
                continue
            if ch == ")":
                return out if depth > 0 else None
            return None

    if not text.strip():
        return []
    return items(0)


def ser(tree):
    return ", ".join("(" + ser(x) + ")" if isinstance(x, list) else x for x in tree)


def splice(tree, env):
    """replace each leaf '{c}' (c in env) by the items of env[c]; when env[c] is None (absent) the leaf is removed and
    every group that only surrounded it goes with it"""
    out = []
    for node in tree:
        if isinstance(node, list):
            sub = splice(node, env)
            if sub:
                out.append(sub)
        else:
            m = REF_RE.fullmatch(node)
            if m and m.group(1) in env:
                v = env[m.group(1)]
                if v:
                    out.extend(copy.deepcopy(v))
            else:
                out.append(node)
    return out


def kind_of(name, sidecar):
    if name == "HED":
        return "hed"
    e = sidecar.get(name)
    if not isinstance(e, dict) or "HED" not in e:
        return "ign"
    h = e["HED"]
    if isinstance(h, dict):
        return "cat"
    if isinstance(h, str) and "#" in h:
        return "val"
    return "ign"


def sidecar_strings(name, sidecar):
    h = sidecar[name]["HED"]
    return list(h.values()) if isinstance(h, dict) else [h]


def assemble_spec(sidecar, columns, rows, absent=(NA, "")):
    """the property statement, per row: ({column: tree} for the columns listed separately, labels, union tree)"""
    kinds = {c: kind_of(c, sidecar) for c in columns}
    bearing = [c for c in columns if kinds[c] != "ign"]
    referenced = set()
    for c in sidecar:
        if kind_of(c, sidecar) in ("cat", "val"):
            for s in sidecar_strings(c, sidecar):
                referenced.update(REF_RE.findall(s))
    referenced &= set(bearing)
    out = []
    for row in rows:
        cell = dict(zip(columns, row))
        raw = {}
        for c in bearing:
            x = cell[c]
            if x in absent:
                raw[c] = None
            elif kinds[c] == "hed":
                raw[c] = x
            elif kinds[c] == "cat":
                raw[c] = sidecar[c]["HED"].get(x)
            else:
                raw[c] = sidecar[c]["HED"].replace("#", x)
        env = {c: (parse_strict(raw[c]) if raw[c] is not None else None) for c in referenced}
        cols, labels = {}, {}
        for c in bearing:
            if c in referenced:
                continue
            if raw[c] is None:
                cols[c] = []
                labels[c] = {"cat": L_CAT, "val": L_VAL, "hed": L_HED}[kinds[c]]
                continue
            used = [r for r in REF_RE.findall(raw[c]) if r in referenced]
            cols[c] = splice(parse_strict(raw[c]), env)
            if not used:
                labels[c] = {"cat": L_CAT, "val": L_VAL, "hed": L_HED}[kinds[c]]
            elif any(env[r] is None and cell[r] == "" for r in used):
                labels[c] = L_EMPTY_REF
            elif any(env[r] is None and used.count(r) > 1 for r in used):
                labels[c] = L_TWICE
            elif any(env[r] is None and kinds[r] == "cat" for r in used):
                labels[c] = L_D3
            elif any(env[r] is None for r in used):
                labels[c] = L_ABSENT
            else:
                labels[c] = L_SPLICE
        for c in bearing:  # an absent categorical cell whose text is also a KEY of the sidecar entry: narrow label
            if kinds[c] == "cat" and cell[c] in absent and cell[c] in sidecar[c]["HED"]:
                if c in referenced:
                    for h in labels:
                        if raw[h] is not None and c in REF_RE.findall(raw[h]):
                            labels[h] = L_NAKEY
                else:
                    labels[c] = L_NAKEY
        for c in bearing:  # empty-cell cases get their own labels (part 'empty' only)
            if c not in referenced and cell[c] == "" and kinds[c] == "val":
                labels[c] = L_EMPTY_VALUE
            elif c not in referenced and cell[c] == "" and labels[c] in (L_CAT, L_HED):
                labels[c] = L_EMPTY_PLAIN
        union = sorted(ser([item]) for c in cols for item in cols[c])
        out.append({"cols": cols, "labels": labels, "union": union})
    return out, sorted(c for c in bearing if c not in referenced)


# ----------------------------------------------------------------------------------------------- running one case
def _obs_tree(text):
    if text in (NA, ""):
        return []
    return parse_strict(text)


def check_case(sidecar, columns, rows, index=None, light=False):
    """run the real code on one (sidecar, table); returns (list of (clause, ok, observed, expected), n_checks)"""
    import pandas as pd
    from hed.models.sidecar import Sidecar
    from hed.models.tabular_input import TabularInput

    res = []
    add = lambda clause, ok, obs=None, exp=None: res.append((clause, bool(ok), obs, exp))
    no_sidecar = sidecar is None            # the table is given without a sidecar
    sidecar = {} if no_sidecar else sidecar
    sc_text = json.dumps(sidecar)
    caller_df = pd.DataFrame([list(r) for r in rows], columns=list(columns), dtype=str, index=index)
    caller_before = caller_df.copy(deep=True)
    try:
        sc = None if no_sidecar else Sidecar(io.StringIO(sc_text))
        t = TabularInput(caller_df, sidecar=sc)
        before_df = t.dataframe.copy(deep=True)
        before_dtypes = [str(d) for d in t.dataframe.dtypes]
        before_dict = None if no_sidecar else copy.deepcopy(sc.loaded_dict)
        s1 = t.series_a
        a1 = t.dataframe_a
        s2 = t.combine_dataframe(a1) if light else t.series_a
        after_df = t.dataframe
    except Exception as e:  # an observation, not a crash of the workload
        add(L_INDEX if index is not None else L_RAISES, False, f"{type(e).__name__}: {e}"[:300], "no exception")
        return res
    add(L_INDEX if index is not None else L_RAISES, True)
    exp_rows, exp_columns = assemble_spec(sidecar, columns, rows)
    idx_label = L_INDEX if index is not None else L_ROWS
    add(idx_label, len(s1) == len(rows) and list(s1.index) == list(before_df.index)
        and list(a1.index) == list(before_df.index),
        {"len": len(s1), "index": [str(i) for i in s1.index]}, {"len": len(rows), "index": [str(i) for i in before_df.index]})
    add(L_LISTED, sorted(map(str, a1.columns)) == exp_columns, sorted(map(str, a1.columns)), exp_columns)
    if len(s1) == len(rows):
        for k, exp in enumerate(exp_rows):
            row_labels = set(exp["labels"].values())
            special = [l for l in (L_NAKEY, L_EMPTY_REF, L_EMPTY_VALUE, L_TWICE, L_D3) if l in row_labels]
            for c, tree in exp["cols"].items():
                if c not in a1.columns:
                    continue
                o = a1[c].iloc[k]
                o = o if isinstance(o, str) else repr(o)
                lab = exp["labels"][c]
                if index is not None:
                    lab = L_INDEX
                add(lab, _obs_tree(o) == tree, {"row": k, "column": c, "text": o}, {"text": ser(tree)})
            o = s1.iloc[k]
            o = o if isinstance(o, str) else repr(o)
            ot = parse_strict(o)
            lab_u = L_INDEX if index is not None else (special[0] if special else L_UNION)
            lab_w = L_INDEX if index is not None else (special[0] if special else L_WELL)
            add(lab_w, ot is not None, {"row": k, "text": o}, "delimiter-well-formed text")
            add(lab_u, ot is not None and sorted(ser([x]) for x in ot) == exp["union"],
                {"row": k, "text": o}, {"items": exp["union"]})
    if index is None and any(r.isdigit() for c in sidecar if kind_of(c, sidecar) in ("cat", "val")
                             for t in sidecar_strings(c, sidecar) for r in REF_RE.findall(t)):
        # sidecars referencing a column whose name is all digits: absent-reference checks get their own narrow label
        res = [((L_NUMERIC if cl in (L_ABSENT, L_D3, L_TWICE, L_UNION, L_WELL) else cl), ok, o, e) for cl, ok, o, e in res]
    same = list(s1) == list(s2)
    if same and not light:
        sc_b = None if no_sidecar else Sidecar(io.StringIO(sc_text))
        t_b = TabularInput(caller_before.copy(deep=True), sidecar=sc_b)
        s3 = t_b.series_a
        same = list(s3) == list(s1)
        obs = {"first": list(s1), "fresh_object": list(s3)}
    else:
        obs = {"first": list(s1), "second": list(s2)}
    add(L_REPEAT, same, obs, "equal answers")
    add(L_FR_VALUES, after_df is not None and list(after_df.columns) == list(before_df.columns)
        and list(after_df.index) == list(before_df.index)
        and after_df.astype(object).values.tolist() == before_df.astype(object).values.tolist(),
        after_df.astype(object).values.tolist(), before_df.astype(object).values.tolist())
    after_dtypes = [str(d) for d in after_df.dtypes]
    add(L_FR_DTYPES, after_dtypes == before_dtypes, dict(zip(map(str, after_df.columns), after_dtypes)),
        dict(zip(map(str, before_df.columns), before_dtypes)))
    add(L_FR_CALLER, caller_df.equals(caller_before) and [str(d) for d in caller_df.dtypes] ==
        [str(d) for d in caller_before.dtypes] and list(caller_df.index) == list(caller_before.index),
        caller_df.astype(object).values.tolist(), caller_before.astype(object).values.tolist())
    if not no_sidecar:
        add(L_FR_SIDECAR, sc.loaded_dict == before_dict and json.dumps(sc.loaded_dict) == sc_text,
            json.dumps(sc.loaded_dict), sc_text)
    return res


# ----------------------------------------------------------------------------------------------- generators
TAGS = ["Circle", "Square", "Triangle", "Oval", "Cross", "Star", "Ellipse", "Arrow"]
ATOMS = "ARS"


def templates(max_tokens, refs=(0, 1, 2)):
    """all delimiter-well-formed token strings over {A , ( ) {r} {s}} with <= 2 references; the first reference is
    {r}; the second is {s} or {r} again"""
    out = []
    for n in range(1, max_tokens + 1):
        for seq in itertools.product("A,()RS", repeat=n):
            r, s = seq.count("R"), seq.count("S")
            if s > 1 or r > 2 or r + s > 2 or (s and not r) or (r + s) not in refs:
                continue
            if s and seq.index("S") < seq.index("R"):
                continue
            if any(seq[i] in ATOMS and seq[i + 1] in ATOMS for i in range(n - 1)):
                continue
            text = "".join({"A": "A", "R": "{r}", "S": "{s}"}.get(c, c) for c in seq)
            if parse_strict(text) is not None:
                out.append((n, text))
    return out


def concretize(template, host, targets, spaced=True):
    k = 0
    text = ""
    for ch in template:
        if ch == "A":
            text += TAGS[k % len(TAGS)]
            k += 1
        elif ch == "," and spaced:
            text += ", "
        else:
            text += ch
    text = text.replace("{r}", "{%s}" % targets[0]) if targets else text
    if len(targets) > 1:
        text = text.replace("{s}", "{%s}" % targets[1])
    if host == "val":
        text = text.replace("Circle", "Label/#", 1) if "Circle" in text else "Label/#, " + text
    return text


def make_sidecar(host, template, targets, variant=0):
    sc = {"cat": {"Description": "a categorical column", "Levels": {"a": "level a", "b": "level b"},
                  "HED": {"a": "Purple", "b": "Blue"}},
          "kat": {"HED": {"p": "Red", "q": "(Green, Big)"}},
          "val": {"HED": "Label/#"},
          "wal": {"Description": "a value column", "HED": "Item/#"},
          "ign": {"Description": "no annotation here, not even {kat} or #", "Levels": {"x": "an x"}}}
    text = concretize(template, host, targets, spaced=(variant % 2 == 0))
    if host == "cat":
        sc["cat"]["HED"]["a"] = text
    else:
        sc["val"]["HED"] = text
    return sc


def paren_templates():
    """every combination of 0-2 opening parentheses directly before and 0-2 closing parentheses directly after a
    reference, with/without a neighbour on the left and on the right, at top level and nested one level deeper (as first or
    as last member of an outer group); where a group gets a sibling, also the variant whose sibling is a second reference"""
    out = []
    for o in range(3):
        for c in range(3):
            core = "{r}"
            for level in range(1, max(o, c) + 1):  # innermost group first
                if level <= o and level <= c:
                    core = "(" + core + ")"
                elif level <= o:
                    core = "(" + core + ",A)"       # opened directly before the reference, closed after a sibling
                else:
                    core = "(A," + core + ")"       # closed directly after the reference, opened before a sibling
            for left in ("", "A,"):
                for right in ("", ",A"):
                    flat = left + core + right
                    for text in (flat, "(A," + flat + ")", "(" + flat + ",A)", "(A,(" + flat + "))"):
                        out.append(text)
                        if ",A" in core or "A," in core:
                            k = core.index("A")
                            out.append(text.replace(core, core[:k] + "{s}" + core[k + 1:]))
                        elif right:
                            out.append(text.replace(flat, left + core + ",{s}"))
    uniq = []
    for t in out:
        if t not in uniq and parse_strict(t) is not None:
            uniq.append(t)
    return uniq


# column names of the documented reference class [a-z_\-0-9]+ (case-insensitive): hyphens, digits, underscores, mixed case
NUMERIC_RENAME = {"kat": "7", "wal": "12"}
RENAMES = [{},
           {"kat": "response-hand", "wal": "stim-file"},
           {"kat": "Resp_Hand-2", "wal": "STIM_file_07"},
           {"kat": "k-9", "wal": "_w-", "cat": "trial-type", "val": "resp-time"},
           {"kat": "7up", "wal": "-x_", "cat": "Trial_Type", "val": "RT"}]


def apply_rename(sidecar, rename):
    if not rename or sidecar is None:
        return sidecar
    out = {}
    for name, entry in sidecar.items():
        e = copy.deepcopy(entry)
        h = e.get("HED")
        fix = lambda t: REF_RE.sub(lambda m: "{%s}" % rename.get(m.group(1), m.group(1)), t)
        if isinstance(h, dict):
            e["HED"] = {k: fix(v) for k, v in h.items()}
        elif isinstance(h, str):
            e["HED"] = fix(h)
        out[rename.get(name, name)] = e
    return out


CELLS = {"cat": ["a", "b", NA, "zz"], "kat": ["p", "q", NA, "zz"], "val": ["v1", NA], "wal": ["7", NA],
         "HED": ["Gray", "(White, Small)", NA], "ign": ["x", "y"], "onset": ["1.5"]}
ORDERS = [["onset", "cat", "kat", "val", "wal", "ign", "HED"],
          ["HED", "ign", "wal", "val", "kat", "cat", "onset"],
          ["val", "onset", "HED", "cat", "wal", "kat", "ign"]]


def row_types(host, targets, shift=0):
    """full product over the cells of host + referenced columns; the other columns cycle through their cells"""
    vary = [host] + [c for c in dict.fromkeys(targets)]
    others = [c for c in ORDERS[0] if c not in vary]
    rows = []
    for k, combo in enumerate(itertools.product(*[CELLS[c] for c in vary])):
        d = dict(zip(vary, combo))
        for j, c in enumerate(others):
            d[c] = CELLS[c][(k + j + shift) % len(CELLS[c])]
        rows.append(d)
    return rows


def _as_rows(dict_rows, order):
    return [[d[c] for c in order] for d in dict_rows]


# ----------------------------------------------------------------------------------------------- worker
def _job(job):
    import random
    kind = job["kind"]
    rename = NUMERIC_RENAME if job.get("rename") == "numeric" else RENAMES[job.get("rename", 0)]
    sc = apply_rename(job["sidecar"], rename)
    out = {"n": 0, "fails": [], "checks": {}, "keys": [], "sample": None}
    per = {}

    def run_table(columns, rows, index=None, light=False, key=None):
        columns = [rename.get(c, c) for c in columns]
        res = check_case(sc, columns, rows, index=index, light=light)
        out["n"] += 1
        out["keys"].append(key)
        inp = {"sidecar": sc, "columns": columns, "rows": rows, "index": index}
        if out["sample"] is None:
            out["sample"] = {"sidecar_entry": job["text"], "renamed": rename, "columns": columns, "rows": rows[:3]}
        for clause, ok, obs, exp in res:
            out["checks"][clause] = out["checks"].get(clause, 0) + 1
            if not ok:
                per[clause] = per.get(clause, 0) + 1
                if per[clause] <= 2:
                    out["fails"].append((clause, inp, obs, exp))
                else:
                    out["fails"].append((clause, None, None, None))

    if kind == "rows":
        types = row_types(job["host"], job["targets"], shift=job["id"])
        rng = random.Random(job["seed"])
        rng.shuffle(types)
        order = ORDERS[job["id"] % 3]
        run_table(order, _as_rows(types, order), key=(job["id"], "stack"))
    elif kind == "tables":
        types = row_types(job["host"], job["targets"], shift=job["id"])
        rng = random.Random(job["seed"])
        n = len(types)
        tables = [(i,) for i in range(n)]
        if job.get("max2") is None or n * n <= job["max2"]:
            tables += list(itertools.product(range(n), repeat=2))
            out["exhaustive2"] = True
        else:
            seen = set()
            while len(seen) < job["max2"]:
                seen.add((rng.randrange(n), rng.randrange(n)))
            tables += sorted(seen)
            out["exhaustive2"] = False
        triples = n ** 3
        if job["max3"] is None or triples <= job["max3"]:
            tables += list(itertools.product(range(n), repeat=3))
            out["exhaustive3"] = True
        else:
            seen = set()
            while len(seen) < job["max3"]:
                seen.add((rng.randrange(n), rng.randrange(n), rng.randrange(n)))
            tables += sorted(seen)
            out["exhaustive3"] = False
        stride, offset = job.get("stride", 1), job.get("offset", 0)
        for ti, tb in enumerate(tables):
            if ti % stride != offset:
                continue
            order = ORDERS[(ti + job["id"]) % 3]
            run_table(order, _as_rows([types[i] for i in tb], order), light=(ti % 7 != 0), key=(job["id"], tb))
    elif kind == "given":
        for ti, (columns, rows, index) in enumerate(job["tables"]):
            run_table(columns, rows, index=index, key=(job["id"], ti))
    return out


def _par(jobs, workers=WORKERS):
    if len(jobs) <= 1:
        return [_job(j) for j in jobs]
    ctx = multiprocessing.get_context("fork")
    with ctx.Pool(min(workers, len(jobs))) as pool:
        return pool.map(_job, jobs, chunksize=1)


def _absorb(w, results, counters):
    n = 0
    for r in results:
        n += r["n"]
        for k in r["keys"]:
            w.case(key=k, nontrivial=True, sample=r["sample"])
        for clause, c in r["checks"].items():
            counters[clause] = counters.get(clause, 0) + c
        for clause, inp, obs, exp in r["fails"]:
            if inp is None:  # counted only (the job already delivered two full records for this clause)
                w._per_clause[clause] = w._per_clause.get(clause, 0) + 1
            else:
                w.fail(clause, inp, obs, exp)
    return n


# ----------------------------------------------------------------------------------------------- parts
def _target_choices(nrefs, template, full):
    if nrefs == 0:
        return [()]
    if nrefs == 1:
        return [("kat",), ("wal",), ("HED",)]
    if "{s}" not in template:  # {r} twice
        return [("kat",), ("HED",)] if not full else [("kat",), ("wal",), ("HED",)]
    pairs = [p for p in itertools.permutations(["kat", "wal", "HED"], 2)]
    return pairs if full else None  # None: rotate


def sidecar_jobs(kind, max_tokens, full_pairs, seed, max3=None, max2=None, hosts=("cat", "val")):
    jobs = []
    pairs = [p for p in itertools.permutations(["kat", "wal", "HED"], 2)]
    rot = 0
    for ntok, tpl in templates(max_tokens):
        nrefs = len(REF_RE.findall(tpl))
        for host in hosts:
            choices = _target_choices(nrefs, tpl, full_pairs)
            if choices is None:
                choices = [pairs[rot % 6], pairs[(rot + 3) % 6]]
                rot += 1
            for targets in choices:
                jid = len(jobs)
                sc = make_sidecar(host, tpl, targets, variant=jid)
                text = sc[host]["HED"]["a"] if host == "cat" else sc[host]["HED"]
                jobs.append({"kind": kind, "id": jid, "host": host, "targets": list(targets), "sidecar": sc,
                             "text": text, "seed": seed * 100003 + jid, "max3": max3, "max2": max2, "rename": jid % len(RENAMES)})
    return jobs


HAND = ["(({r}),A)", "(A,(({r}),{s}))", "({r}),A", "(A,{r})", "({r},A)", "A,({r}),A", "(A,({r}))", "({r},({s}))", "({r}),({s})",
        "(({r}))"]


def run(w: Workload):
    w.rule = ("sidecar = fixed frame of 5 columns (2 categorical, 2 value, 1 ignored) + HED column in the table; one entry "
              "(categorical entry 'a' of cat, or the value template of val) is every delimiter-well-formed token string over "
              "{tag , ( ) {r} {s}} with 0-2 references bound to a categorical / value / HED column; a case = one (sidecar, "
              "table, column order); tables enumerate the cells {categories, n/a, unknown key} of the host and referenced "
              "columns; distinct = distinct (sidecar id, row-type tuple)")
    counters = {}
    quick = w.quick

    # part tables: small tables, all of them
    max2, max3 = (100, 25) if quick else (None, 4096)
    tjobs = [j for j in sidecar_jobs("tables", 3, full_pairs=False, seed=w.seed, max3=max3, max2=max2)]
    extra = []
    for tpl in HAND:
        for host in ("cat", "val"):
            targets = ("kat", "HED") if "{s}" in tpl else (("kat",) if host == "cat" else ("HED",))
            jid = 10000 + len(extra)
            sc = make_sidecar(host, tpl, targets, variant=jid)
            extra.append({"kind": "tables", "id": jid, "host": host, "targets": list(targets), "sidecar": sc,
                          "text": sc[host]["HED"]["a"] if host == "cat" else sc[host]["HED"],
                          "seed": w.seed * 100003 + jid, "max3": max3, "max2": max2, "rename": (jid + 1) % len(RENAMES)})
    if quick:
        extra = extra[::2]
    tjobs += extra
    split = []  # big sidecars are spread over several jobs (every stride-th table) for load balance
    for j in tjobs:
        n = len(row_types(j["host"], j["targets"]))
        if not quick and n > 16:
            j["max3"] = 1500
        total = n + (n * n if max2 is None else min(n * n, max2)) + min(n ** 3, j["max3"])
        stride = max(1, -(-total // 500))
        split += [dict(j, stride=stride, offset=o) for o in range(stride)]
    results = _par(split)
    merged = {}
    for j, r in zip(split, results):
        m = merged.setdefault(j["id"], {"exhaustive2": True, "exhaustive3": True})
        m["exhaustive2"] &= bool(r.get("exhaustive2"))
        m["exhaustive3"] &= bool(r.get("exhaustive3"))
    n = _absorb(w, results, counters)
    ex3 = all(m["exhaustive3"] and m["exhaustive2"] for m in merged.values())
    w.part("tables", cases=n, bound="templates <= 3 tokens + 10 hand-picked nested shapes; all 1-row tables; 2-row tables: " +
           ("all" if not quick else "all when <= 100 per sidecar, else a seeded sample of 100") + "; 3-row tables: " +
           ("all for sidecars with <= 16 row types (<= 4096 tables), else a seeded sample of 1500" if not quick else "seeded sample of 25 per sidecar") +
           "; 3 file column orders rotated", exhaustive=ex3, sidecars=len(tjobs),
           sidecars_fully_enumerated=sum(1 for m in merged.values() if m["exhaustive3"] and m["exhaustive2"]))

    # part rows: every template, one stacked table of all row types
    jobs = sidecar_jobs("rows", 5 if quick else 7, full_pairs=not quick, seed=w.seed)
    n = _absorb(w, _par(jobs), counters)
    w.part("rows", cases=n, bound=f"all well-formed templates <= {5 if quick else 7} tokens x host in (categorical entry, value "
           f"template) x reference targets (kat, wal, HED; pairs {'rotated' if quick else 'all ordered'}); per sidecar one "
           "table listing every combination of host/referenced cells", exhaustive=True, sidecars=len(jobs))

    # part parens: 0-2 '(' directly before x 0-2 ')' directly after a reference, assembled rows
    pjobs = []
    pairs2 = [("kat", "wal"), ("HED", "kat"), ("wal", "HED"), ("kat", "HED")]
    singles = [("kat",), ("HED",), ("wal",)]
    for k, tpl in enumerate(paren_templates()):
        for host in ("cat", "val"):
            jid = 30000 + len(pjobs)
            targets = pairs2[k % 4] if "{s}" in tpl else singles[k % 3] if host == "val" else ("kat",)
            sc = make_sidecar(host, tpl, targets, variant=jid)
            pjobs.append({"kind": "rows", "id": jid, "host": host, "targets": list(targets), "sidecar": sc,
                          "text": sc[host]["HED"]["a"] if host == "cat" else sc[host]["HED"],
                          "seed": w.seed * 100003 + jid, "rename": jid % len(RENAMES)})
    n = _absorb(w, _par(pjobs), counters)
    w.part("parens", cases=n, bound="every combination of 0-2 '(' directly before and 0-2 ')' directly after a reference x "
           "neighbour left/right yes/no x (top level, first / last / nested member of an outer group) x sibling tag or second "
           "reference; host categorical entry and value template; per sidecar one table listing every combination of "
           "host/referenced cells (n/a and unknown key included); column names rotate through 5 spellings of [a-z_\\-0-9]+",
           exhaustive=True, sidecars=len(pjobs), templates=len(paren_templates()))

    # part numeric: referenced columns named '7' and '12'
    njobs = []
    for tpl, targets in [("{r},A", ("kat",)), ("({r}),A", ("kat",)), ("A,({r},{s})", ("kat", "wal")), ("(({r}),A)", ("wal",)),
                         ("A,{r}", ("wal",)), ("({r},{s})", ("wal", "kat"))]:
        for host in ("cat", "val"):
            jid = 40000 + len(njobs)
            sc = make_sidecar(host, tpl, targets, variant=jid)
            njobs.append({"kind": "rows", "id": jid, "host": host, "targets": list(targets), "sidecar": sc,
                          "text": sc[host]["HED"]["a"] if host == "cat" else sc[host]["HED"],
                          "seed": w.seed * 100003 + jid, "rename": "numeric"})
    n = _absorb(w, _par(njobs), counters)
    w.part("numeric-names", cases=n, bound="6 templates x 2 hosts with the referenced columns named '7' and '12'; one table of "
           "all row types each", exhaustive=False)

    # part ref: replace_ref directly, tree oracle
    n = _part_replace_ref(w, 6 if quick else 8, counters)
    w.part("ref", cases=n, bound=f"all well-formed templates <= {6 if quick else 8} tokens with 1-2 references, compact and "
           "spaced spelling, plus the parenthesis-combination templates of part 'parens'; each reference absent ('n/a') or "
           "present; reference names with hyphens, digits, underscores, mixed case", exhaustive=True)

    # part empty / index
    n = _absorb(w, _par(_special_jobs()), counters)
    w.part("empty+index", cases=n, bound="9 sidecars x 1-2 row DataFrames with '' cells; same with row index (5, 3, 9)",
           exhaustive=False)
    # part na-words: category keys / cell texts that look like missing values
    najobs = _na_word_jobs(quick)
    n = _absorb(w, _par(najobs), counters)
    w.part("na-words", cases=n, bound="key word in (nan, NaN, null, None, NA, n/a, all six) as an extra category of the host "
           "column 'cat' and of the referenced column 'kat' x 5 entry shapes (no reference, {kat} at top level / in its own "
           "group / next to a tag in a group, value template referencing {kat}); per sidecar one stacked DataFrame with the full "
           "product of host cells (a, word, n/a, '', unknown) x kat cells (p, word, n/a, unknown) x value cells (v1, word), and "
           "every single-row and every all-rows-equal two-row table of the word rows", exhaustive=True, sidecars=len(najobs))
    # part no-categories: categorical columns with an empty categories object / only unknown keys in the table
    ncjobs = _no_category_jobs(quick)
    n = _absorb(w, _par(ncjobs), counters)
    w.part("no-categories", cases=n, bound="a column entry \"HED\": {} (with / without Description and Levels) as the only sidecar "
           "column, next to the 5 columns of the frame, referenced in curly braces from 8 categorical entries and 4 value templates "
           "(alone, grouped, twice, together with a second reference), and the frame's own categorical columns emptied (host, "
           "referenced, both); columns with categories whose cells are all unknown keys; cells (first, second, n/a, '', 7, Red); "
           "per sidecar one stacked DataFrame with the full product of the varied cells, single-row and equal-row tables, one "
           "table with a non-default index", exhaustive=True, sidecars=len(ncjobs))
    # part unmapped: tables without any annotated column, and with exactly one
    umjobs = _unmapped_jobs(quick)
    n = _absorb(w, _par(umjobs), counters)
    w.part("unmapped", cases=n, bound="tables of 3 and 6 columns none of which is annotated (cells 1.0, 0.5, go, Red, '(Green, Big)', 7, n/a, "
           "'') x {no sidecar, empty sidecar, 3 sidecars of ignored columns only (present / absent / description holding '{kat}' and "
           "'#'), the 5-column frame sidecar with all its annotated columns absent from the table x 8 entry shapes with 0-2 references "
           "(incl. {HED}), the same plus ignored columns present}: one stacked table, every single-row table, an equal-row table, a "
           "non-default index; and the 6-column table plus exactly one mapped column (HED column / categorical / value column, "
           "sidecar of that column only or the whole frame) at the first / a middle / the last file position",
           exhaustive=True, sidecars=len(umjobs))
    w.bounded[-1]["checks_per_clause"] = counters
    w.exhaustive = False
    w.not_covered += ["reading the table from a .tsv/.xlsx file (tables are passed as DataFrames of strings)",
                      "SpreadsheetInput (tag_columns / column_prefix_dictionary) assembly",
                      "order of the column contributions inside the row annotation (the statement says 'union')",
                      "references embedded inside a tag ('Label/{col}'), references inside referenced columns (invalid sidecars)",
                      "tables with more than 3 rows except the stacked row-type table; cell texts other than the listed ones",
                      "several merged sidecar files; definitions"]
    w.assumptions += ["pandas DataFrame construction/astype(str)/equals behave as documented",
                      "parse_strict is the reading of 'delimiter-well-formed': balanced non-empty groups, no empty comma item"]


def _part_replace_ref(w, max_tokens, counters):
    from hed.models.df_util import replace_ref
    n = 0
    names_variants = [("r", "s"), ("response-hand", "stim-file"), ("Resp_Hand-2", "7up")]
    for tpl in ("A,{r}", "({r}),A", "(A,{r},{s})"):
        text = concretize(tpl, "cat", ("7", "12"))
        names = list(dict.fromkeys(REF_RE.findall(text)))
        for combo in itertools.product([None, "Red"], repeat=len(names)):
            env = dict(zip(names, combo))
            w.case(key=("ref", text, combo), nontrivial=True)
            n += 1
            expected = splice(parse_strict(text), {k: (parse_strict(v) if v else None) for k, v in env.items()})
            try:
                cur = text
                for name in names:
                    cur = replace_ref(cur, "{%s}" % name, env[name] if env[name] else NA)
                ok = _obs_tree(cur) == expected
            except Exception as e:
                cur, ok = f"{type(e).__name__}: {e}", False
            counters[L_NUMERIC] = counters.get(L_NUMERIC, 0) + 1
            w.check(ok, L_NUMERIC, input={"text": text, "values": env}, observed=cur, expected=ser(expected))
    tpls = [t for _n, t in templates(max_tokens, refs=(1, 2))]
    tpls += [t for t in paren_templates() if t not in tpls]
    for ti, tpl in enumerate(tpls):
        for spaced in (False, True):
            text = concretize(tpl, "cat", names_variants[ti % 3], spaced=spaced)
            names = list(dict.fromkeys(REF_RE.findall(text)))
            for combo in itertools.product([None, "Red", "(Green, Big)"], repeat=len(names)):
                env = dict(zip(names, combo))
                w.case(key=("ref", text, combo), nontrivial=True, sample={"text": text, "values": env})
                n += 1
                expected = splice(parse_strict(text), {k: (parse_strict(v) if v else None) for k, v in env.items()})
                try:
                    cur = text
                    for name in names:
                        cur = replace_ref(cur, "{%s}" % name, env[name] if env[name] else NA)
                    ok = _obs_tree(cur) == expected
                except Exception as e:
                    cur, ok = f"{type(e).__name__}: {e}", False
                found = REF_RE.findall(text)
                lab = L_TWICE if any(env[k] is None and found.count(k) > 1 for k in env) else L_REPLACE
                counters[lab] = counters.get(lab, 0) + 1
                w.check(ok, lab, input={"text": text, "values": env}, observed=cur, expected=ser(expected))
    return n


def _special_jobs():
    jobs = []
    shapes = [("cat", "A", ()), ("cat", "{r},A", ("HED",)), ("cat", "({r}),A", ("HED",)), ("cat", "A,{r}", ("wal",)),
              ("val", "A,{r}", ("HED",)), ("val", "A", ()), ("cat", "({r},{s})", ("HED", "wal")),
              ("cat", "A,{r}", ("kat",)), ("val", "({r})", ("kat",))]
    for k, (host, tpl, targets) in enumerate(shapes):
        sc = make_sidecar(host, tpl, targets)
        order = ORDERS[k % 3]
        tables = []
        base = {"onset": "1.5", "cat": "a", "kat": "p", "val": "v1", "wal": "7", "ign": "x", "HED": "Gray"}
        # '' cells
        for col in ("cat", "kat", "val", "wal", "HED", "ign"):
            r1 = dict(base)
            r1[col] = ""
            tables.append((order, _as_rows([r1], order), None))
            tables.append((order, _as_rows([base, r1], order), None))
        # non-default index
        r2 = dict(base, cat="b", kat="q", HED=NA)
        r3 = dict(base, cat=NA, val=NA, HED="(White, Small)")
        tables.append((order, _as_rows([base, r2, r3], order), [5, 3, 9]))
        tables.append((order, _as_rows([r3, base], order), [1, 0]))
        jobs.append({"kind": "given", "id": 20000 + k, "sidecar": sc, "tables": tables, "rename": k % len(RENAMES),
                     "text": sc[host]["HED"]["a"] if host == "cat" else sc[host]["HED"]})
    return jobs


def _no_category_jobs(quick):
    """categorical columns WITHOUT categories ("HED": {}) and columns whose cells are all unknown keys: alone, next to the
    other columns of the frame, and referenced in curly braces.  By the statement a categorical cell contributes the entry it
    selects - an empty categories object selects nothing for every cell text, so the column contributes nothing, a reference
    to it disappears, and the cell text never shows up in the annotation."""
    jobs = []
    blk_cells = ["first", "second", NA, "", "7", "Red"]         # 'Red' / '7': texts that would be valid tags / values if copied

    def add(sc, tables, text, rename=0):
        k = len(jobs)
        jobs.append({"kind": "given", "id": 60000 + k, "sidecar": sc, "tables": tables, "rename": rename, "text": text})

    def tables_for(order, base, vary):
        """one stacked table with the full product of the varied cells, every single-row table and every two-row table whose
        rows are equal (the whole column then holds one text)"""
        names = list(vary)
        stacked = [dict(base, **dict(zip(names, combo))) for combo in itertools.product(*[vary[n_] for n_ in names])]
        tables = [(order, _as_rows(stacked, order), None)]
        singles = stacked if not quick else stacked[::2]
        for row in singles:
            tables.append((order, _as_rows([row], order), None))
        for row in singles[::3]:
            tables.append((order, _as_rows([row, row], order), None))
        tables.append((order, _as_rows(stacked[:3], order), [4, 2, 9]))
        return tables

    # 1. the column is the only annotated column of the sidecar (and the only column of the sidecar)
    for extra in ({}, {"Description": "a block column, not annotated yet"}, {"Levels": {"first": "the first block"}}):
        sc = {"blk": dict(extra, HED={})}
        for order in (["onset", "blk"], ["blk", "onset"], ["onset", "blk", "other"]):
            base = {"onset": "1.5", "blk": "first", "other": "x"}
            add(sc, tables_for(order, base, {"blk": blk_cells}), "(no categories)")
    # 2. next to the other columns of the frame; 3. referenced from a categorical entry / a value template
    shapes = [("cat", "A", ()), ("val", "A", ()),
              ("cat", "A,{r}", ("blk",)), ("cat", "({r}),A", ("blk",)), ("cat", "(A,{r})", ("blk",)), ("cat", "{r}", ("blk",)),
              ("cat", "({r})", ("blk",)), ("cat", "A,({r},{s})", ("blk", "kat")), ("cat", "(A,({r})),{s}", ("blk", "HED")),
              ("cat", "{r},{r}", ("blk",)),
              ("val", "A,{r}", ("blk",)), ("val", "A,({r})", ("blk",)), ("val", "(A,{r},{s})", ("blk", "wal")),
              ("val", "A,({s},({r}))", ("blk", "kat"))]
    for si, (host, tpl, targets) in enumerate(shapes):
        for vi, blk_entry in enumerate(({"HED": {}}, {"Description": "not annotated yet", "Levels": {"first": "block 1"}, "HED": {}})):
            if quick and (si + vi) % 2 and targets:
                continue
            sc = make_sidecar(host, tpl, targets, variant=si + vi)
            sc["blk"] = blk_entry
            order = [ORDERS[(si + vi) % 3][:3] + ["blk"] + ORDERS[(si + vi) % 3][3:], ["blk"] + ORDERS[si % 3], ORDERS[si % 3] + ["blk"]][(si + vi) % 3]
            base = {"onset": "1.5", "cat": "a", "kat": "p", "val": "v1", "wal": "7", "ign": "x", "HED": "Gray", "blk": "first"}
            vary = {"blk": blk_cells, host: CELLS[host][:3] if host == "cat" else CELLS[host]}
            for t in targets:
                if t != "blk":
                    vary[t] = CELLS[t][:3]
            add(sc, tables_for(order, base, vary), sc[host]["HED"]["a"] if host == "cat" else sc[host]["HED"], rename=(si + vi) % len(RENAMES))
    # 4. the columns of the frame themselves without categories: the referenced column 'kat', the host column 'cat', both
    for si, (host, tpl, targets, emptied) in enumerate([
            ("cat", "A,{r}", ("kat",), ("kat",)), ("cat", "({r}),A", ("kat",), ("kat",)), ("val", "A,({r})", ("kat",), ("kat",)),
            ("val", "A,{r}", ("cat",), ("cat",)), ("val", "(A,({r}),{s})", ("cat", "kat"), ("cat", "kat")), ("val", "A", (), ("cat", "kat")),
            ("val", "({r},{s})", ("kat", "HED"), ("kat",))]):
        sc = make_sidecar(host, tpl, targets, variant=si)
        for c in emptied:
            sc[c]["HED"] = {}
        order = ORDERS[si % 3]
        base = {"onset": "1.5", "cat": "a", "kat": "p", "val": "v1", "wal": "7", "ign": "x", "HED": "Gray"}
        vary = {c: CELLS[c] for c in dict.fromkeys(list(emptied) + [host] + list(targets))}
        add(sc, tables_for(order, base, vary), sc[host]["HED"]["a"] if host == "cat" and sc["cat"]["HED"] else json.dumps(sc[host]["HED"]),
            rename=si % len(RENAMES))
    # 5. columns WITH categories whose cells are all unknown keys (the whole column selects nothing)
    for si, (host, tpl, targets) in enumerate([("cat", "A,{r}", ("kat",)), ("cat", "({r}),A", ("kat",)), ("val", "A,({r})", ("kat",)),
                                               ("cat", "A", ()), ("val", "(A,{r}),{s}", ("kat", "cat"))]):
        sc = make_sidecar(host, tpl, targets, variant=si)
        order = ORDERS[(si + 1) % 3]
        base = {"onset": "1.5", "cat": "a", "kat": "p", "val": "v1", "wal": "7", "ign": "x", "HED": "Gray"}
        unknown = ["zz", "P", "Red", "7"]
        tables = []
        for kat_cells in itertools.product(unknown, repeat=2):
            for cat_cells in (("a", "b"), ("zz", "A"), ("yy", "yy")):
                rows = [dict(base, kat=kc, cat=cc, HED=CELLS["HED"][n_ % 3]) for n_, (kc, cc) in enumerate(zip(kat_cells, cat_cells))]
                tables.append((order, _as_rows(rows, order), None))
                tables.append((order, _as_rows(rows[:1], order), None))
        if quick:
            tables = tables[si % 2::2]
        add(sc, tables, sc[host]["HED"]["a"] if host == "cat" else sc[host]["HED"], rename=si % len(RENAMES))
    return jobs


def _unmapped_jobs(quick):
    """tables in which NO column is annotated (and tables with exactly one annotated column among many that are not).  The statement
    lists what an assembled annotation is made of: the HED-column cell, selected categorical entries, filled value templates.  A
    column the sidecar does not annotate (absent from the sidecar, or present without a HED entry) contributes nothing, whatever
    its cells hold; with no annotated column at all every row assembles to the empty annotation."""
    jobs = []

    def add(sc, tables, text, rename=0):
        k = len(jobs)
        jobs.append({"kind": "given", "id": 70000 + k, "sidecar": sc, "tables": tables, "rename": rename, "text": text})

    raw = ["1.0", "0.5", "go", "Red", "(Green, Big)", "7", NA, ""]      # what unannotated columns hold: numbers, words, tag look-alikes

    def plain_rows(order, n_rows, shift=0):
        return [{c: raw[(r * 3 + j + shift) % len(raw)] if c != "onset" else "%d.5" % r for j, c in enumerate(order)} for r in range(n_rows)]

    def tables_of(order, rows):
        tables = [(order, _as_rows(rows, order), None)]
        for row in (rows if not quick else rows[::3]):
            tables.append((order, _as_rows([row], order), None))
        tables.append((order, _as_rows([rows[1], rows[1]], order), None))
        tables.append((order, _as_rows(rows[:3], order), [4, 2, 9]))
        return tables

    small = ["onset", "duration", "resp"]
    wide = ["onset", "duration", "trial_type", "response_time", "stim_file", "ign"]
    ignored_only = [
        {"ign": {"Description": "no annotation here, not even {kat} or #", "Levels": {"x": "an x", "go": "a go"}}},
        {"duration": {"Description": "how long", "Units": "s"}, "resp": {"Description": "the response", "Levels": {"go": "go", "Red": "red"}},
         "trial_type": {"LongName": "type of trial", "Levels": {"go": "go trial"}}},
        {"absent_column": {"Description": "not in the table"}},
    ]
    frame_shapes = [("cat", "A", ()), ("val", "A", ()), ("cat", "A,{r}", ("kat",)), ("cat", "({r}),A", ("HED",)), ("val", "A,({r})", ("kat",)),
                    ("val", "(A,{r},{s})", ("HED", "wal")), ("cat", "{r},{r}", ("kat",)), ("cat", "A,({r},{s})", ("wal", "kat"))]
    # 1. nothing mapped
    for oi, order in enumerate((small, wide, list(reversed(wide)))):
        rows = plain_rows(order, 8, shift=oi)
        add(None, tables_of(order, rows), "(no sidecar)")
        add({}, tables_of(order, rows), "(empty sidecar)")
        for sc in ignored_only:
            add(sc, tables_of(order, rows), "(ignored columns only)")
        for si, (host, tpl, targets) in enumerate(frame_shapes):
            if quick and (si + oi) % 2 and oi:
                continue
            sc = make_sidecar(host, tpl, targets, variant=si)
            text = sc[host]["HED"]["a"] if host == "cat" else sc[host]["HED"]
            add(sc, tables_of(order, rows), text, rename=(si + oi) % len(RENAMES))
            if "ign" in order:       # further ignored columns that the table does have
                sc = dict(sc)
                del sc["ign"]
                add(dict(sc, **ignored_only[1]), tables_of(order, rows), text, rename=(si + oi + 1) % len(RENAMES))
    # 2. exactly one mapped column among the unmapped ones
    only = {"cat": {"cat": {"HED": {"a": "Purple", "b": "(Blue, Big)"}}}, "val": {"val": {"Description": "a value column", "HED": "Label/#"}},
            "HED": {}}
    for mi, mapped in enumerate(("HED", "cat", "val")):
        for pos in (0, 3, len(wide)):
            order = wide[:pos] + [mapped] + wide[pos:]
            rows = plain_rows(order, 8, shift=mi + pos)
            for r, row in enumerate(rows):
                row[mapped] = CELLS[mapped][r % len(CELLS[mapped])]
            add(only[mapped] if mapped != "HED" else None, tables_of(order, rows), "(one mapped column: %s)" % mapped)
            if mapped == "HED":
                add(dict(ignored_only[1]), tables_of(order, rows), "(one mapped column: HED, ignored columns)")
                add({"cat": only["cat"]["cat"]}, tables_of(order, rows), "(one mapped column: HED, sidecar column absent)")
            else:
                sc = make_sidecar("cat", "A", (), variant=mi)            # the whole frame, only `mapped` is in the table
                add(sc, tables_of(order, rows), "(one mapped column: %s, frame sidecar)" % mapped, rename=(mi + pos) % 3)
    return jobs


NA_WORDS = ["nan", "NaN", "null", "None", "NA", NA]


def _na_word_jobs(quick):
    """sidecars with a category keyed by a missing-value look-alike, tables (as DataFrames of str) holding those texts"""
    jobs = []
    shapes = [("cat", "A", ()), ("cat", "A,{r}", ("kat",)), ("cat", "({r}),A", ("kat",)), ("cat", "(A,{r})", ("kat",)),
              ("val", "A,({r})", ("kat",))]
    word_sets = [[x] for x in NA_WORDS] + [list(NA_WORDS)]
    for wi, words in enumerate(word_sets):
        for si, (host, tpl, targets) in enumerate(shapes):
            k = len(jobs)
            sc = make_sidecar(host, tpl, targets, variant=k)
            for j, word in enumerate(words):
                sc["cat"]["HED"][word] = TAGS[(3 + j) % len(TAGS)] if j % 2 == 0 else "(%s, Big)" % TAGS[(3 + j) % len(TAGS)]
                sc["kat"]["HED"][word] = "(%s, Small)" % TAGS[(5 + j) % len(TAGS)] if j % 2 == 0 else TAGS[(5 + j) % len(TAGS)]
            order = ORDERS[k % 3]
            base = {"onset": "1.5", "cat": "a", "kat": "p", "val": "v1", "wal": "7", "ign": "x", "HED": "Gray"}
            cat_cells = ["a"] + words + ([NA] if NA not in words else []) + ["", "zz"]
            kat_cells = ["p"] + words + ([NA] if NA not in words else []) + ["zz"]
            val_cells = ["v1"] + [x for x in words if x != NA][:2]
            stacked, word_rows = [], []
            for n_, (c, kk, v) in enumerate(itertools.product(cat_cells, kat_cells, val_cells)):
                row = dict(base, cat=c, kat=kk, val=v, HED=CELLS["HED"][n_ % 3], ign=words[n_ % len(words)])
                stacked.append(row)
                if (c in words or kk in words) and v == val_cells[(n_ // len(val_cells)) % len(val_cells)]:
                    word_rows.append(row)
            tables = [(order, _as_rows(stacked, order), None)]
            if quick:
                word_rows = word_rows[(k % 2)::2]
            for row in word_rows:
                tables.append((order, _as_rows([row], order), None))         # the whole column holds only the word
                tables.append((order, _as_rows([row, row], order), None))
            jobs.append({"kind": "given", "id": 50000 + k, "sidecar": sc, "tables": tables, "rename": k % len(RENAMES),
                         "text": sc[host]["HED"]["a"] if host == "cat" else sc[host]["HED"]})
    return jobs


def replay(w: Workload, case: dict):
    inp = case["input"]
    clause = case["clause"]
    if clause == L_REPLACE or (clause in (L_TWICE, L_NUMERIC) and "text" in inp):
        from hed.models.df_util import replace_ref
        text, env = inp["text"], inp["values"]
        expected = splice(parse_strict(text), {k: (parse_strict(v) if v else None) for k, v in env.items()})
        cur = text
        try:
            for name in env:
                cur = replace_ref(cur, "{%s}" % name, env[name] if env[name] else NA)
            ok = _obs_tree(cur) == expected
        except Exception as e:
            cur, ok = f"{type(e).__name__}: {e}", False
        w.case(key="replay")
        w.check(ok, clause, inp, cur, ser(expected))
        return
    w.case(key="replay")
    for cl, ok, obs, exp in check_case(inp["sidecar"], inp["columns"], inp["rows"], index=inp.get("index")):
        if cl == clause and not ok:
            w.fail(cl, inp, obs, exp)


if __name__ == "__main__":
    main(run, "C06", replay)
