"""C04 -- Validation outcome does not depend on how an annotation is written (bounded runtime stand-in, tier T3).

Relational oracle: sorted error codes of x  ==  sorted error codes of rewrite(x), for

  spelling : every tag name respelled (short form, each partial path, full path; as is / lower / upper / swapped case),
  spacing  : blanks added before / after commas and parentheses and at both ends,
  order    : the members of every group and of the top level permuted.

Parts
  small : EVERY unordered tree over the three tags Red, Blue, Green with <= n leaves and nesting depth <= 4 (this contains
          every placement of a repeated tag or group).  All orderings of the tree must give the same error codes, and --
          independent oracle from the property text -- TAG_EXPRESSION_REPEATED is reported iff some sibling list holds two
          members that are equal up to member order (and nothing else is reported).  Then respellings and blank patterns
          of two orderings.
  rich  : sampled annotations from the C01 grammar (plain / extended / valued tags, Def, Def-expand, Onset..., Duration...,
          Event-context; valid ones and ones with an injected fault: unknown tag, forbidden extension, bad unit/value,
          missing child, misplaced group tag, repeated tag or group), each with spelling, spacing, order and combined rewrites.
  delims: annotations with broken delimiters (doubled / leading / trailing comma, missing comma, '()', unbalanced
          parentheses) under blank rewrites.
  dups  : every small group G written twice in every pair of member orders among further siblings, at every sibling position
          and three nesting depths: TAG_EXPRESSION_REPEATED must be reported (absolute), and as for the identical copies.
  vcase : two copies of a valued / extended tag whose values differ in letter case only, under respelling of the tag name.
  temporal: every pair (thorough: and every triple; quick: a sample of the triples) of temporal groups out of a pool of valid and
          faulty Onset / Offset / Inset groups (with / without inner group, Def or Def-expand), Duration / Delay groups and delayed
          onsets '(Delay/1 s, Onset, Def/X)', with declared definitions, alone and next to an ordinary tag or group: EVERY
          permutation of the top-level members, each with the members of all groups as written and reversed, plus random
          shuffles and one combined rewrite, must give the same multiset of error codes.
  nest  : sibling groups that hold the SAME tags in DIFFERENT nesting.  Pools: every group (up to member order) whose leaves are
          exactly {Red, Blue} with nesting depth <= 3, resp. {Red, Blue, Green} with depth <= 2 (thorough: deeper pools too) - e.g.
          (Red,(Blue,Green)), (Red,(Blue),(Green)), ((Red),(Blue)), ((Red,Blue)), groups made only of sub-groups.  3 or 4 siblings
          out of one pool (with repetition: two copies next to a differently nested look-alike, and no copies at all), at top
          level, inside a group next to a tag, as the only members of a group, and two levels down; every permutation of the
          siblings x several written member orders of each sibling (the copies in every pair of their member orders).
          Absolute: TAG_EXPRESSION_REPEATED iff two siblings are equal up to member order at every level (canonical form
          computed from the text); relational: the same codes for every writing.
"""
import itertools
import random

from rt.common import Workload, main, schema
from rt.c01_schema import SchemaModel
from rt.c01 import (Env, Vocab, pick_defs, forests, special_groups, EXT_WORD, UNKNOWN_WORD, DEF_PLAIN,
                    DEF_VALUE, tokenize, d2_model_count, blank_variant, N_BLANK_PATTERNS)

CL_FORM = "C04.spelling.path_form"
CL_CASE = "C04.spelling.letter_case"
CL_VCASE = "C04.spelling.value_case_duplicates"              # narrow: 'Label/abc, Label/ABC' vs long form of one copy
CL_SPACE = "C04.spacing.blanks"
CL_ORDER = "C04.order.siblings"
CL_ORDER_D2 = "C04.order.duplicate_groups_nonadjacent"        # narrow: defect D2
CL_ORDER_D8 = "C04.order.def_expand_members"                  # narrow: defect D8 seen through C04
CL_ORDER_TEMPORAL = "C04.order.temporal_groups"
CL_REPEAT = "C04.repeat.reported_iff_equal_siblings"
CL_COMBINED = "C04.combined.all_rewrites"
CL_TOTAL = "C04.total.no_exception"

REPEATED = "TAG_EXPRESSION_REPEATED"


# =====================================================================================================
# annotation model: leaf = Leaf(node or None, rest, raw); group = list
# =====================================================================================================
class Leaf:
    __slots__ = ("node", "rest", "raw")

    def __init__(self, node, rest="", raw=None):
        self.node = node          # rt.c01_schema.Node, or None for text that is not a schema tag (cannot be respelled)
        self.rest = rest          # '/value', '/Extension', ... kept verbatim
        self.raw = raw

    def key(self):
        return (self.node.name.casefold() if self.node else self.raw) + self.rest

    def text(self, style=None):
        if self.node is None:
            return self.raw
        if style is None:
            return self.node.name + self.rest
        form, case = style
        forms = self.node.forms()
        name = forms[form % len(forms)]
        name = {0: name, 1: name.lower(), 2: name.upper(), 3: name.swapcase()}[case]
        return name + self.rest


def canon(item):
    if isinstance(item, Leaf):
        return item.key()
    return "(" + ",".join(sorted(canon(x) for x in item)) + ")"


def canon_top(tree):
    return ",".join(sorted(canon(x) for x in tree))


def short_text(item):
    return item.text() if isinstance(item, Leaf) else "(" + ",".join(short_text(x) for x in item) + ")"


def render(tree, styles=None, blanks=None):
    """styles: callable(leaf index) -> style or None; blanks: callable(boundary index) -> (before, after) blank strings
    for the delimiter; boundary indices count delimiters from the left, -1 / -2 are the two ends of the string"""
    li = [0]
    di = [0]

    def delim(ch):
        if blanks is None:
            return ch
        b, a = blanks(di[0])
        di[0] += 1
        return b + ch + a

    def rec(items):
        parts = []
        for k, x in enumerate(items):
            if k:
                parts.append(delim(","))
            if isinstance(x, Leaf):
                parts.append(x.text(styles(li[0]) if styles else None))
                li[0] += 1
            else:
                parts.append(delim("("))
                parts.append(rec(x))
                parts.append(delim(")"))
        return "".join(parts)
    body = rec(tree)
    if blanks is not None:
        body = blanks(-1)[0] + body + blanks(-2)[1]
    return body


def count_leaves(tree):
    return sum(1 if isinstance(x, Leaf) else count_leaves(x) for x in tree)


def depth(tree):
    return max([0] + [1 + depth(x) for x in tree if isinstance(x, list)])


def orderings(tree, cap=None, rng=None):
    """all distinct sibling orderings of the tree (as trees); capped by sampling when cap is given"""
    def rec(items):
        child_opts = [[x] if isinstance(x, Leaf) else rec(x) for x in items]
        out, seen = [], set()
        for perm in itertools.permutations(range(len(items))):
            for combo in itertools.product(*[child_opts[i] for i in perm]):
                t = list(combo)
                k = short_text(t)
                if k not in seen:
                    seen.add(k)
                    out.append(t)
        return out
    res = rec(tree)
    if cap and len(res) > cap:
        first = res[0]
        res = [first] + rng.sample(res[1:], cap - 1)
    return res


def clone(tree):
    return [clone(x) if isinstance(x, list) else x for x in tree]


def vcase_copy(item):
    """the same tag / group with every lettered value or extension (no unit, not a Def name) in swapped letter case"""
    if isinstance(item, list):
        return [vcase_copy(x) for x in item]
    if item.node is None or item.node.name in ("Def", "Def-expand") or item.node.unit_classes or not item.rest[1:2].isalpha():
        return item
    return Leaf(item.node, item.rest.swapcase())


def shuffled(tree, rng):
    out = [shuffled(x, rng) if isinstance(x, list) else x for x in tree]
    rng.shuffle(out)
    return out


def has_equal_siblings(tree):
    """independent oracle for 'repeated tag or group': some sibling list has two members equal up to member order"""
    keys = [canon(x) for x in tree]
    if len(set(keys)) < len(keys):
        return True
    return any(has_equal_siblings(x) for x in tree if isinstance(x, list))


def d2_count(tree):
    """model of defect D2 (see rt.c01.d2_model_count): repeats found when siblings are ordered by their written text.
    Only used to choose the label of a comparison, never its expected result."""
    return d2_model_count(tree, text_of=lambda leaf: leaf.text())


def d8_count(tree):
    """model of defect D8 (label only): number of Def-expand groups that are not written exactly as 'tag first, then the
    content group, every list with its tags in text order before its groups' -- the one writing the stored, sorted copy of
    the definition compares equal to."""
    def wr(x):
        return "(" + ",".join(wr(y) for y in x) + ")" if isinstance(x, list) else x.text()

    def stored(items):
        tags = sorted((x for x in items if isinstance(x, Leaf)), key=lambda y: y.text())
        groups = sorted((x for x in items if isinstance(x, list)), key=wr)
        return tags + [stored(g) for g in groups]
    n = 0
    for x in tree:
        if isinstance(x, list):
            if any(isinstance(y, Leaf) and y.node is not None and y.node.name == "Def-expand" for y in x):
                n += wr(x) != wr(stored(x))
            n += d8_count(x)
    return n


# =====================================================================================================
class Runner:
    def __init__(self, w, env, defs):
        self.w = w
        self.env = env
        self.defs = defs
        self.n = 0
        self.counts = {}
        self.cache = {}

    def observe(self, text, ph):
        key = (text, ph)
        if key not in self.cache:
            if len(self.cache) > 200000:
                self.cache.clear()
            errs, exc = self.env.observe(text, ph)
            self.cache[key] = (errs, exc)
            if exc is not None:
                self.w.fail(CL_TOTAL, self.inp(text, None, ph, "-"), observed=exc, expected="no exception")
        return self.cache[key][0]

    def inp(self, base, rewritten, ph, kind):
        return {"schema": self.env.version, "base": base, "rewritten": rewritten, "allow_placeholders": ph, "rewrite": kind,
                "definitions": self.defs["strings"]}

    def same(self, base, rewritten, clause, kind, ph=False):
        """the relational check of the property"""
        if base == rewritten:
            return True
        self.n += 1
        self.counts[clause] = self.counts.get(clause, 0) + 1
        self.w.case(key=(self.env.version, base, rewritten, ph), nontrivial=True,
                    sample={"base": base, "rewritten": rewritten, "rewrite": kind, "clause": clause})
        a, b = self.observe(base, ph), self.observe(rewritten, ph)
        if a is None or b is None:
            return False
        if a != b and clause in (CL_ORDER, CL_ORDER_TEMPORAL, CL_COMBINED) and "Def-expand/" in base and kind != "fixed witness":
            # symptom of defect D8: the two writings differ only in how many DEF_EXPAND_INVALID they get
            strip = lambda c: [x for x in c if x != "DEF_EXPAND_INVALID"]
            if strip(a) == strip(b):
                self.counts[clause] -= 1
                clause = CL_ORDER_D8
                self.counts[clause] = self.counts.get(clause, 0) + 1
        return self.w.check(a == b, clause, self.inp(base, rewritten, ph, kind), observed={"base": a, "rewritten": b},
                            expected="equal multisets of error codes")


def order_clause(t1, t2):
    if d2_count(t1) != d2_count(t2):        # the defect model predicts a difference between the two writings
        return CL_ORDER_D2
    if d8_count(t1) != d8_count(t2):
        return CL_ORDER_D8
    return CL_ORDER


# ---- rewrites ---------------------------------------------------------------------------------------
def style_patterns(nleaves, rng, k):
    """k respelling patterns: leaf index -> (form index, case mode); first ones are uniform, the rest mixed"""
    out = [lambda i: (-1, 0),                   # form index is taken modulo the number of forms: -1 = full path
           lambda i: (1, 0), lambda i: (2, 0)]
    for _ in range(max(0, k - len(out))):
        table = [(rng.randrange(0, 8), 0) for _ in range(nleaves)]
        out.append(lambda i, t=table: t[i])
    return out[:k]


def case_patterns(nleaves, rng, k):
    out = [lambda i: (0, 1), lambda i: (0, 2), lambda i: (-1, 3)]
    for _ in range(max(0, k - len(out))):
        table = [(rng.randrange(0, 8), rng.randrange(0, 4)) for _ in range(nleaves)]
        out.append(lambda i, t=table: t[i])
    return out[:k]


def blank_patterns(rng, k):
    out = [lambda d: ("", " "), lambda d: (" ", ""), lambda d: (" ", " "), lambda d: ("  ", "   ")]
    for _ in range(max(0, k - len(out))):
        seed = rng.randrange(1 << 30)
        out.append(lambda d, s=seed: (" " * ((s >> ((d * 2) % 28)) & 1), " " * ((s >> ((d * 2 + 1) % 28)) & 1)))
    return out[:k]


def blank_text_variants(text, rng, k):
    """blank rewrites of a raw text (used for strings with broken delimiters): blanks around every , ( )"""
    toks = tokenize(text)
    outs = []
    for pat in blank_patterns(rng, k):
        parts = []
        d = 0
        for t, _ in toks:
            if t in "(),":
                b, a = pat(d)
                d += 1
                parts.append(b + t + a)
            else:
                parts.append(t)
        outs.append("".join(parts))
    return outs


# =====================================================================================================
# part small
# =====================================================================================================
def small_trees(model, max_leaves, max_depth, alphabet):
    """one representative of every unordered tree over the alphabet (<= max_leaves leaves, depth <= max_depth)"""
    nodes = [model.node(a) for a in alphabet]
    seen = {}
    for k in range(1, max_leaves + 1):
        for sh in forests(k, max_depth):
            for lab in itertools.product(range(len(nodes)), repeat=k):
                it = iter(lab)

                def fill(items):
                    return [Leaf(nodes[next(it)]) if x is None else fill(x[1:]) for x in items]
                t = fill(sh)
                key = canon_top(t)
                if key not in seen:
                    seen[key] = t
    return [seen[k] for k in sorted(seen)]


def part_small(w, run, model, trees, label):
    rng = w.rng
    quick = w.quick
    before = run.n
    for ti, tree in enumerate(trees):
        cap = 12 if quick else None
        ords = orderings(tree, cap, rng)
        base_t = ords[0]
        base = render(base_t)
        dup = has_equal_siblings(tree)
        # absolute oracle from the property text
        for o in ords:
            txt = render(o)
            errs = run.observe(txt, False)
            run.n += 1
            cl = CL_ORDER_D2 if (dup and not d2_count(o)) else CL_REPEAT
            run.counts[cl] = run.counts.get(cl, 0) + 1
            w.case(key=(run.env.version, txt, "abs"), nontrivial=True, sample={"text": txt, "repeated": dup, "clause": cl})
            if errs is not None:
                ok = (REPEATED in errs and set(errs) == {REPEATED}) if dup else errs == []
                w.check(ok, cl, run.inp(txt, None, False, "none (absolute)"), observed=errs,
                        expected=[REPEATED, "..."] if dup else [])
        # order: every ordering against the first
        for o in ords[1:]:
            run.same(base, render(o), order_clause(base_t, o), "order")
        # spelling and spacing on two orderings
        nl = count_leaves(tree)
        few = quick or nl > 3
        for o in (ords[0], ords[-1]):
            b = render(o)
            for pat in style_patterns(nl, rng, 3 if few else 5):
                run.same(b, render(o, styles=pat), CL_FORM, "path form")
            for pat in case_patterns(nl, rng, 3 if few else 5):
                run.same(b, render(o, styles=pat), CL_CASE, "letter case")
            for pat in blank_patterns(rng, 4 if few else 6):
                run.same(b, render(o, blanks=pat), CL_SPACE, "blanks")
            if ti % 3 == 0:
                sp, cp, bp = style_patterns(nl, rng, 4)[-1], case_patterns(nl, rng, 4)[-1], blank_patterns(rng, 5)[-1]
                o2 = shuffled(o, rng)
                cl = CL_COMBINED if order_clause(o, o2) == CL_ORDER else order_clause(o, o2)
                run.same(b, render(o2, styles=lambda i: (sp(i)[0], cp(i)[1]), blanks=bp), cl, "order+spelling+blanks")
    return run.n - before


# =====================================================================================================
# part dups: "a repeated tag or group is reported no matter where the two copies sit or how their own members are ordered"
# =====================================================================================================
def part_dups(w, run, model, chunk, nchunks):
    rng = w.rng
    quick = w.quick
    before = run.n
    groups = [t[0] for t in small_trees(model, 3, 2, ("Red", "Blue", "Green")) if len(t) == 1 and isinstance(t[0], list)]
    groups += [[Leaf(model.node("Red"))], ]
    seps_all = [[], [[Leaf(model.node("Green"))]], [[Leaf(model.node("Item"))]], [[Leaf(model.node("Ellipse"))]],
                [Leaf(model.node("Green"))], [[Leaf(model.node("Blue"))], [Leaf(model.node("Square"))]],
                [[Leaf(model.node("Green")), Leaf(model.node("Blue"))]]]
    wraps = [lambda x: x, lambda x: [x], lambda x: [Leaf(model.node("Circle")), [[x]]]]
    for gi, g in enumerate(groups):
        if gi % nchunks != chunk:
            continue
        ords = [o[0] for o in orderings([g])]
        if quick and len(ords) > 4:
            ords = [ords[0]] + rng.sample(ords[1:], 3)
        canonical = None
        for g1, g2 in itertools.combinations_with_replacement(ords, 2):
            for seps in seps_all:
                if any(canon(x) == canon(g) for x in seps):
                    continue
                members = [g1, g2] + seps
                perms = list(itertools.permutations(range(len(members))))
                if quick and len(perms) > 4:
                    perms = rng.sample(perms, 4)
                for perm in perms:
                    sibs = [members[i] for i in perm]
                    for wi, wrap in enumerate(wraps):
                        if quick and (gi + wi + len(seps)) % 2:
                            continue
                        tree = wrap(sibs) if wi else sibs
                        txt = render(tree)
                        if canonical is None:
                            canonical = render([ords[0], ords[0]])
                        cl = CL_REPEAT if d2_count(tree) else CL_ORDER_D2
                        errs = run.observe(txt, False)
                        run.n += 1
                        run.counts[cl] = run.counts.get(cl, 0) + 1
                        w.case(key=(run.env.version, txt, "dups"), nontrivial=True, sample={"text": txt, "clause": cl})
                        if errs is not None:
                            w.check(REPEATED in errs and set(errs) == {REPEATED}, cl,
                                    run.inp(txt, None, False, "none (absolute)"), observed=errs, expected=[REPEATED, "..."])
                        # relational: against the same siblings with the second copy written like the first
                        base_tree = wrap([members[i] if i != 1 else g1 for i in perm]) if wi else \
                            [members[i] if i != 1 else g1 for i in perm]
                        run.same(render(base_tree), txt, order_clause(base_tree, tree), "member order of one copy")
    return run.n - before


# =====================================================================================================
# part rich
# =====================================================================================================
def leaf_of(model, text):
    """Leaf for 'Name/rest' where Name is a schema tag in short form"""
    name, slash, rest = text.partition("/")
    if name.casefold() in model.all_names:
        return Leaf(model.node(name), slash + rest)
    return Leaf(None, raw=text)


def to_leaves(model, item):
    return leaf_of(model, item) if isinstance(item, str) else [to_leaves(model, x) for x in item]


def rich_atoms(model, vocab, defs, rng, quick):
    pool_plain = [n for n in vocab.plain_nodes if not n.takes_value and n.name not in defs["plain"]
                  and n.name not in (defs["value_other"], "Green", "Triangle")]
    pool_val = [n for n in vocab.plain_nodes if n.takes_value and n.value_classes and n.name not in ("Duration", "Delay")]
    good = [Leaf(n) for n in rng.sample(pool_plain, 14 if quick else 40)]
    good += [Leaf(n, "/" + EXT_WORD) for n in rng.sample([x for x in pool_plain if x.ext_allowed], 4)]
    for n in rng.sample(pool_val, 6 if quick else 14):
        us = vocab.good_units(n)
        good.append(Leaf(n, "/" + vocab.good_values(n)[0] + ((" " + us[rng.randrange(len(us))]) if us else "")))
    good.append(Leaf(model.node("Def"), "/" + DEF_PLAIN))
    good.append(Leaf(model.node("Def"), "/" + DEF_VALUE + "/3"))
    seen, out = set(), []
    for g in good:                    # one atom per schema node (two for Def: the two declared names)
        key = g.node.name + (g.rest if g.node.name == "Def" else "")
        if key not in seen:
            seen.add(key)
            out.append(g)
    good = out
    noext = [n for n in model.nodes if model.usable(n) and not n.ext_allowed and not n.takes_value
             and n.name not in vocab.special]
    valn = [n for n in pool_val if n.unit_classes and n.value_classes == ["numericClass"]]
    vn = valn[rng.randrange(len(valn))]
    bad = [Leaf(None, raw=UNKNOWN_WORD),
           Leaf(noext[rng.randrange(len(noext))], "/" + EXT_WORD),
           Leaf(pool_plain[0], "/" + pool_plain[1].name),
           Leaf(model.node("Def")),
           Leaf(vn, "/3 " + vocab.bad_units(vn)[0]),
           Leaf(vn, "/abc " + vocab.good_units(vn)[0]),
           Leaf(vn, "/# " + vocab.good_units(vn)[0]),
           Leaf(model.node("Def"), "/Cundeclared"),
           Leaf(model.node("Def"), "/" + DEF_VALUE),
           Leaf(model.node("Onset")),
           Leaf(model.node("Event-context")),
           Leaf(model.node("Def-expand"), "/" + DEF_PLAIN)]
    return good, bad


def part_rich(w, run, model, vocab, defs):
    rng = w.rng
    quick = w.quick
    before = run.n
    good, bad = rich_atoms(model, vocab, defs, rng, quick)
    specials = [(k, to_leaves(model, g), top) for k, g, top in special_groups(model, defs)]
    nbase = 260 if quick else 1200
    for bi in range(nbase):
        n = rng.randint(1, 5)
        d = rng.randint(0, 4)
        shapes = forests(n, d)
        sh = shapes[rng.randrange(len(shapes))]
        leaves = rng.sample(good, n)
        it = iter(leaves)

        def fill(items):
            return [next(it) if x is None else fill(x[1:]) for x in items]
        tree = fill(sh)
        kind = bi % 4
        if kind in (1, 3):                       # a special construct at top level (or anywhere for Def-expand)
            k, g, top = specials[rng.randrange(len(specials))]
            tree.insert(rng.randrange(len(tree) + 1), clone(g))
        if kind in (2, 3):                       # one injected fault
            f = rng.randrange(4)
            lists = _lists(tree)
            lst = lists[rng.randrange(len(lists))]
            if f == 0:
                lst.insert(rng.randrange(len(lst) + 1), bad[rng.randrange(len(bad))])
            elif f == 1 and lst:
                x = lst[rng.randrange(len(lst))]
                copy = shuffled(x, rng) if isinstance(x, list) else x
                if rng.random() < 0.5:
                    copy = vcase_copy(copy)      # lettered values / extensions of the copy in swapped case
                lst.insert(rng.randrange(len(lst) + 1), copy)
            elif f == 2:
                lst.insert(rng.randrange(len(lst) + 1), [])          # '()'
                if rng.random() < 0.4:
                    lst.insert(rng.randrange(len(lst) + 1), [])      # ... twice: two empty groups are equal siblings too
            else:
                k, g, top = specials[rng.randrange(len(specials))]
                lst.insert(rng.randrange(len(lst) + 1), [clone(g)] if rng.random() < 0.5 else clone(g))   # nested too deep / second one
        base = render(tree)
        nl = count_leaves(tree)
        ph = bool(bi % 5 == 0)
        for pat in style_patterns(nl, rng, 5):
            run.same(base, render(tree, styles=pat), CL_FORM, "path form", ph)
        for pat in case_patterns(nl, rng, 5):
            run.same(base, render(tree, styles=pat), CL_CASE, "letter case", ph)
        for pat in blank_patterns(rng, 6):
            run.same(base, render(tree, blanks=pat), CL_SPACE, "blanks", ph)
        for _ in range(6):
            t2 = shuffled(tree, rng)
            run.same(base, render(t2), order_clause(tree, t2), "order", ph)
        for _ in range(3):
            t2 = shuffled(tree, rng)
            sp, cp, bp = style_patterns(nl, rng, 4)[-1], case_patterns(nl, rng, 4)[-1], blank_patterns(rng, 5)[-1]
            cl = order_clause(tree, t2)
            run.same(base, render(t2, styles=lambda i: (sp(i)[0], cp(i)[1]), blanks=bp),
                     CL_COMBINED if cl == CL_ORDER else cl, "order+spelling+blanks", ph)
    return run.n - before


def _lists(tree):
    out = [tree]
    for x in tree:
        if isinstance(x, list):
            out += _lists(x)
    return out


# =====================================================================================================
# part delims, part vcase
# =====================================================================================================
def part_delims(w, run, model, trees):
    rng = w.rng
    before = run.n
    step = max(1, len(trees) // (150 if w.quick else 1200))
    for tree in trees[::step]:
        text = render(tree)
        toks = tokenize(text)
        muts = ["," + text, text + ",", "()," + text, text + ",()"]
        for t, pos in toks:
            if t == ",":
                muts += [text[:pos] + ",," + text[pos + 1:], text[:pos] + text[pos + 1:], text[:pos] + ",()" + text[pos:],
                         text[:pos] + "),(" + text[pos + 1:]]
            elif t == "(":
                muts += [text[:pos] + text[pos + 1:], text[:pos + 1] + "," + text[pos + 1:], text[:pos] + "((" + text[pos + 1:]]
            elif t == ")":
                muts += [text[:pos] + text[pos + 1:], text[:pos] + "," + text[pos:]]
        for m in muts:
            variants = [blank_variant(m, k) for k in range(N_BLANK_PATTERNS)]
            if not w.quick:
                variants += blank_text_variants(m, rng, 6)[4:]
            for v in dict.fromkeys(variants):
                run.same(m, v, CL_SPACE, "blanks (broken delimiters)")
    return run.n - before


def part_witness(w, run, model, defs):
    """minimal pairs for the narrow clauses and their passing neighbours"""
    before = run.n
    a, b = defs["plain"]
    pairs = [("(Red,Blue),(Green),(Red,Blue)", "(Red,Blue),(Green),(Blue,Red)", CL_ORDER_D2),
             ("((Red),(Red,Green)),((Red),(Red,Green))", "((Red),(Red,Green)),((Red),(Green,Red))", CL_ORDER_D2),
             ("(Red,Blue),(Red,Blue)", "(Red,Blue),(Blue,Red)", CL_ORDER),
             ("(Red,Blue),Green,(Red,Blue)", "(Blue,Red),Green,(Red,Blue)", CL_ORDER),
             ("(Blue,Red),(Green),(Blue,Red)", "(Green),(Blue,Red),(Blue,Red)", CL_ORDER),
             ("(Def-expand/%s,(%s,%s))" % (DEF_PLAIN, a, b), "(Def-expand/%s,(%s,%s))" % (DEF_PLAIN, b, a), CL_ORDER_D8),
             ("(Def-expand/%s,(%s,%s))" % (DEF_PLAIN, a, b), "((%s,%s),Def-expand/%s)" % (a, b, DEF_PLAIN), CL_ORDER_D8),
             ("Label/abc,Label/ABC", "Label/abc,Informational-property/Label/ABC", CL_VCASE),
             ("Label/abc,Label/abc", "Label/abc,Informational-property/Label/abc", CL_FORM),
             ("Red,Red", "Red , Red", CL_SPACE), ("Red,Red", "red,RED", CL_CASE),
             ("Red,(),()", " Red , ( ) , ( ) ", CL_SPACE), ("Red,,Blue", "Red, ,Blue", CL_SPACE),
             ("(Red,,Blue),Square", "(Red, ,Blue), Square", CL_SPACE), (",Red", " ,Red", CL_SPACE),
             ("(Red,(,Blue,Square))", "(Red, ( ,Blue, Square))", CL_SPACE), ("Red(Blue)", "Red (Blue)", CL_SPACE),
             ("Label/ABC,Label/abc,Label/Abd", "Label/ABC,Label/Abd,Label/abc", CL_ORDER),
             ("(Label/Run,Label/run,Label/Stop,Red)", "(Label/Run, Label/Stop, Red, Label/run)", CL_ORDER), ("(Red,()),Blue,()", "(),Blue,((),Red)", CL_ORDER)]
    for base, rew, cl in pairs:
        run.same(base, rew, cl, "fixed witness")
    return run.n - before


def absolute(w, run, text, clause, repeated):
    """independent oracle of the property text: a repeat is reported iff two siblings are equal (nothing else is)"""
    errs = run.observe(text, False)
    run.n += 1
    run.counts[clause] = run.counts.get(clause, 0) + 1
    w.case(key=(run.env.version, text, "abs"), nontrivial=True, sample={"text": text, "repeated": repeated, "clause": clause})
    if errs is not None:
        ok = (REPEATED in errs and set(errs) == {REPEATED}) if repeated else errs == []
        w.check(ok, clause, run.inp(text, None, False, "none (absolute)"), observed=errs,
                expected=[REPEATED, "..."] if repeated else [])


# (copy 1, a different value, copy 2): in code-point order the middle value lies between the copies, ignoring case it does not
VALUE_CASE_TRIPLES = (("ABC", "Abd", "abc"), ("Run", "Stop", "run"))


def part_vcase(w, run, model, vocab):
    rng = w.rng
    before = run.n
    cands = [n for n in vocab.plain_nodes if len(n.path) > 1 and not n.unit_classes and
             ((n.takes_value and (not n.value_classes or n.value_classes[0] in ("nameClass", "textClass")))
              or (not n.takes_value and n.ext_allowed))]
    sq, ci = Leaf(model.node("Square")), Leaf(model.node("Circle"))
    for n in rng.sample(cands, min(len(cands), 10 if w.quick else 60)):
        a, b = Leaf(n, "/abc"), Leaf(n, "/ABC")
        for tree in ([a, b], [[a, sq, b]], [a, sq, b]):
            base = render(tree)
            for pat in (lambda i: (-1 if i == 0 else 0, 0), lambda i: (-1 if i else 0, 0), lambda i: (-1, 0), lambda i: (1, 0)):
                run.same(base, render(tree, styles=pat), CL_VCASE, "path form of one copy; values differ in case only")
        # ... with a sibling that sorts between the two copies in code-point order: every order, several layouts
        pre = "/" if n.takes_value else "/Qx"
        for v1, mid, v2 in VALUE_CASE_TRIPLES:
            a, m, b = Leaf(n, pre + v1), Leaf(n, pre + mid), Leaf(n, pre + v2)
            layouts = ([a, m, b], [[a, m, b]], [[a, m, sq, b]], [sq, [[a, m, [ci], b]]], [[sq, a], [m, sq], [sq, b]],
                       [a, b], [[a, sq, b], m])
            for tree in layouts:
                ords = orderings(tree, 8 if w.quick else None, rng)
                base = render(ords[0])
                for o in ords:
                    txt = render(o)
                    absolute(w, run, txt, CL_REPEAT, True)
                    run.same(base, txt, CL_ORDER, "order (copies differ in value case)")
                    run.same(txt, render(o, styles=lambda i: (-1 if i % 2 else 1, i % 3)), CL_VCASE,
                             "path form and name case (copies differ in value case)")
                    run.same(txt, render(o, blanks=lambda d: (" ", " ")), CL_SPACE, "blanks (copies differ in value case)")
    return run.n - before


# =====================================================================================================
# part temporal: the temporal group checks (Onset / Offset / Inset / Duration / Delay) do not depend on sibling order
# =====================================================================================================
DEF_SECOND = "Cdefsecond"
TEMPORAL_EXTRA_DEFS = ["(Definition/%s,(Square))" % DEF_SECOND]


def temporal_pool(model, defs):
    """(name, faulty?, group as nested lists of short-form texts).  'faulty' only documents the intent of the entry: the check
    is relational, the verdict itself is whatever the validator says."""
    a, b = defs["plain"]
    p, q, v = "Def/" + DEF_PLAIN, "Def/" + DEF_SECOND, "Def/" + DEF_VALUE
    pool = [
        ("onset", False, ["Onset", p]),
        ("onset+group", False, [q, "Onset", ["Red", "Square"]]),
        ("onset value def", False, ["Onset", v + "/3"]),
        ("onset def-expand", False, ["Onset", ["Def-expand/" + DEF_PLAIN, [a, b]], ["Ellipse"]]),
        ("offset", False, [p, "Offset"]),
        ("offset second def", False, ["Offset", q]),
        ("inset+group", False, ["Inset", p, ["Green"]]),
        ("inset", False, ["Inset", q]),
        ("duration", False, ["Duration/2 s", ["Blue"]]),
        ("delay", False, ["Delay/1 s", ["Circle"]]),
        ("delay+duration", False, ["Delay/1 s", "Duration/2 s", ["Triangle"]]),
        ("delayed onset", False, ["Delay/1 s", "Onset", p]),
        ("delayed onset+group", False, ["Delay/1 s", "Onset", q, ["Ellipse"]]),
        ("delayed offset", False, ["Delay/2 s", "Offset", p]),
        ("delayed inset", False, ["Delay/2 s", "Inset", q, ["Item"]]),
        ("onset no def", True, ["Onset"]),
        ("onset two defs", True, ["Onset", p, q]),
        ("onset two groups", True, ["Onset", p, ["Red"], ["Blue"]]),
        ("onset extra tag", True, ["Onset", q, "Red"]),
        ("onset undeclared def", True, ["Onset", "Def/Cundeclared"]),
        ("onset def needs value", True, ["Onset", v]),
        ("offset with group", True, ["Offset", p, ["Red"]]),
        ("offset undeclared def", True, ["Offset", "Def/Cundeclared"]),
        ("inset extra tag", True, ["Inset", p, ["Green"], "Red"]),
        ("duration extra tag", True, ["Duration/2 s", "Blue", ["Green"]]),
        ("duration no group", True, ["Duration/2 s"]),
        ("duration two groups", True, ["Duration/2 s", ["Red"], ["Green"]]),
        ("delay extra tag only", True, ["Delay/1 s", "Red"]),
        ("delayed onset no def", True, ["Delay/1 s", "Onset"]),
        ("delayed onset two groups", True, ["Delay/1 s", "Onset", p, ["Red"], ["Blue"]]),
        ("duration with onset", True, ["Duration/2 s", "Onset", p]),
        ("onset and offset", True, ["Onset", "Offset", q, ["Red"]]),
        # Delay next to a top-level-only tag that is NOT a timing tag, and repeated timing tags: the verdict must not depend on which
        # of the two is written first
        ("delay with event-context", True, ["Delay/1 s", "Event-context", ["Red"]]),
        ("event-context with delay", True, ["Event-context", "Delay/1 s", ["Red"]]),
        ("duration with event-context", True, ["Event-context", "Duration/2 s", ["Blue"]]),
        ("two delays", True, ["Delay/1 s", "Delay/2 s", "Onset", p]),
        ("two durations with delay", True, ["Delay/1 s", "Duration/2 s", "Duration/3 s", ["Red"]]),
    ]
    names = model.all_names
    keep = []
    for name, faulty, g in pool:
        flat = []

        def walk(x):
            for y in x:
                walk(y) if isinstance(y, list) else flat.append(y.split("/")[0])
        walk(g)
        if all(t.casefold() in names for t in flat):
            keep.append((name, faulty, to_leaves(model, g)))
    return keep


def reversed_inside(item):
    """the same item with the members of every group in reverse order"""
    return [reversed_inside(x) if isinstance(x, list) else x for x in reversed(item)] if isinstance(item, list) else item


def part_temporal(w, run, model, defs, chunk, nchunks):
    rng = w.rng
    before = run.n
    pool = temporal_pool(model, defs)
    extras = [None, Leaf(model.node("Square")), [Leaf(model.node("Item")), Leaf(model.node("Ellipse"))]]
    combos = list(itertools.combinations(range(len(pool)), 2))
    triples = list(itertools.combinations_with_replacement(range(len(pool)), 3))
    if w.quick:
        triples = random.Random("%s/temporal-triples" % w.seed).sample(triples, 420)
    combos += triples
    n_combos = 0
    for ci, combo in enumerate(combos):
        if ci % nchunks != chunk:
            continue
        n_combos += 1
        for ei, extra in enumerate(extras):
            if len(combo) == 3 and ei != ci % 3:
                continue                    # triples: one of the three surroundings, rotating
            members = [clone(pool[i][2]) for i in combo] + ([extra] if extra is not None else [])
            base = render(members)
            kind = "order of temporal groups: " + " | ".join(pool[i][0] for i in combo)
            variants = []
            for perm in itertools.permutations(range(len(members))):
                t = [members[i] for i in perm]
                variants.append(t)
                variants.append([reversed_inside(x) if isinstance(x, list) else x for x in t])
            for _ in range(2):
                variants.append(shuffled(members, rng))
            for t in variants:
                # the labels of the two defects seen at design time are kept only where their models apply
                cl = CL_ORDER_D2 if d2_count(members) != d2_count(t) else CL_ORDER_TEMPORAL
                run.same(base, render(t), cl, kind)
            t2 = shuffled(members, rng)
            nl = count_leaves(members)
            sp, cp, bp = style_patterns(nl, rng, 4)[-1], case_patterns(nl, rng, 4)[-1], blank_patterns(rng, 5)[-1]
            cl = order_clause(members, t2)
            run.same(base, render(t2, styles=lambda i: (sp(i)[0], cp(i)[1]), blanks=bp),
                     CL_COMBINED if cl == CL_ORDER else cl, "order+spelling+blanks; " + kind)
    return run.n - before, len(pool), n_combos


# =====================================================================================================
# part nest: same tags, different nesting
# =====================================================================================================
def nest_pool(model, alphabet, max_depth):
    """one representative of every group (up to member order) whose leaves are exactly the tags of `alphabet` (each once),
    nesting depth <= max_depth (the group itself counts)"""
    nodes = [model.node(a) for a in alphabet]
    k = len(nodes)
    seen = {}
    for sh in forests(k, max_depth):
        if len(sh) != 1 or sh[0] is None:
            continue
        for lab in itertools.permutations(range(k)):
            it = iter(lab)

            def fill(items):
                return [Leaf(nodes[next(it)]) if x is None else fill(x[1:]) for x in items]
            t = fill(sh)
            seen.setdefault(canon_top(t), t[0])
    return [seen[key] for key in sorted(seen)]


def nest_jobs(model, quick, seed):
    """-> (pools, jobs); a job = (pool index, tuple of member indices into the pool (a multiset), wrap index).  The list is the
    same in every chunk (own seeded generator)."""
    rng = random.Random("%s/nest-jobs" % seed)
    specs = [(("Red", "Blue"), 3), (("Red", "Blue", "Green"), 2)]
    if not quick:
        specs += [(("Red", "Blue"), 4), (("Red", "Blue", "Green"), 3)]
    pools = [("{%s} depth <= %d" % (",".join(a), d), nest_pool(model, a, d)) for a, d in specs]
    jobs = []
    for pi, (_, pool) in enumerate(pools):
        n = len(pool)
        big = n > 20
        idx = range(n)
        twice = [(g, g, h) for g in idx for h in idx if g != h]            # two copies and a look-alike
        thrice = [(g, g, g) for g in idx]
        distinct = list(itertools.combinations(idx, 3))                    # no copies: nothing may be reported
        if big:
            twice = rng.sample(twice, 600)
            distinct = rng.sample(distinct, 400)
        elif quick:
            distinct = rng.sample(distinct, min(len(distinct), 70))
        four = []
        for _ in range(24 if quick else 250):
            kind = rng.randrange(4)
            g, h, i, j = (rng.randrange(n) for _ in range(4))
            four.append(tuple(sorted({0: (g, g, h, i), 1: (g, g, h, h), 2: (g, h, i, j), 3: (g, g, g, h)}[kind])))
        for m in twice + thrice + distinct + sorted(set(four)):
            jobs.append((pi, tuple(m), len(jobs) % 4))
    return pools, jobs


def nest_wrap(model, sibs, wi, k):
    if wi == 0:
        return list(sibs)                                          # top level
    if wi == 1:
        inner = list(sibs)
        inner.insert(k % (len(inner) + 1), Leaf(model.node("Square")))
        return [inner]                                             # inside a group, next to a tag
    if wi == 2:
        return [list(sibs)]                                        # a group made only of these sub-groups
    return [Leaf(model.node("Circle")), [[Leaf(model.node("Ellipse")), list(sibs)]]]     # two levels further down


def part_nest(w, run, model, chunk, nchunks):
    rng = w.rng
    quick = w.quick
    before = run.n
    pools, jobs = nest_jobs(model, quick, w.seed)
    ord_cache = {}

    def written(pi, gi):
        if (pi, gi) not in ord_cache:
            ord_cache[(pi, gi)] = [o[0] for o in orderings([pools[pi][1][gi]])]
        return ord_cache[(pi, gi)]

    n_jobs = 0
    mine = [(ji, job) for ji, job in enumerate(jobs) if ji % nchunks == chunk]
    mine.sort(key=lambda x: (x[1][2], x[0]))             # top-level sets first: the shortest failure records come first
    for ji, (pi, members, wi) in mine:
        n_jobs += 1
        opts = [written(pi, gi) for gi in members]
        # writings: which written member order each sibling gets
        copies = [k for k in range(1, len(members)) if members[k] == members[k - 1]]
        writings = [[0] * len(members)]
        if not (quick and copies):
            writings.append([len(o) - 1 for o in opts])
        for k in copies:                       # the two copies in pairs of their member orders, the others as listed / at random
            no = len(opts[k])
            pairs = [(a, b) for a in range(no) for b in range(no) if a != b]
            if len(pairs) > (2 if quick else 12):
                pairs = [(0, no - 1)] + rng.sample(pairs, (2 if quick else 12) - 1)
            for a, b in pairs:
                wr = [rng.randrange(len(o)) if rng.random() < 0.5 else 0 for o in opts]
                wr[k - 1], wr[k] = a, b
                writings.append(wr)
        for _ in range(1 if quick else 3):
            writings.append([rng.randrange(len(o)) for o in opts])
        perms = list(itertools.permutations(range(len(members))))
        if len(perms) > 6 and quick:
            perms = [perms[0]] + rng.sample(perms[1:], 7)
        base_t = None
        base = None
        seen = set()
        for wr in writings:
            sibs0 = [opts[k][wr[k]] for k in range(len(members))]
            for perm in perms:
                tree = nest_wrap(model, [sibs0[k] for k in perm], wi, ji + perm[0])
                txt = render(tree)
                if txt in seen:
                    continue
                seen.add(txt)
                dup = has_equal_siblings(tree)
                absolute(w, run, txt, CL_ORDER_D2 if (dup and not d2_count(tree)) else CL_REPEAT, dup)
                if base is None:
                    base_t, base = tree, txt
                else:
                    run.same(base, txt, order_clause(base_t, tree), "order of siblings with the same tags in different nesting")
    return run.n - before, [(name, len(p)) for name, p in pools], n_jobs


# =====================================================================================================
def _task(args):
    tier, seed, version, part, chunk, nchunks = args
    w = Workload("C04", tier, seed)
    w.rng = random.Random("%s/%s/%s/%s" % (seed, version, part, chunk))
    model = SchemaModel(version)
    defs = pick_defs(model)
    if part == "temporal":
        defs = dict(defs, strings=defs["strings"] + TEMPORAL_EXTRA_DEFS)
    env = Env(version, defs["strings"])
    if env.def_issues:
        w.fail(CL_TOTAL, {"schema": version, "base": "", "rewritten": None, "allow_placeholders": False, "rewrite": "-",
                          "definitions": defs["strings"]}, observed=env.def_issues, expected="definitions are accepted")
    vocab = Vocab(model, w.quick, w.rng)
    run = Runner(w, env, defs)
    info = {}
    if part in ("small", "delims"):
        alphabet = ("Red", "Blue", "Green")
        trees = small_trees(model, 3, 4, alphabet)
        if part == "small" and not w.quick:          # thorough: additionally every tree with 4 leaves and depth <= 3
            known = {canon_top(t) for t in trees}
            trees += [t for t in small_trees(model, 4, 3, alphabet) if canon_top(t) not in known]
        info["trees"] = len(trees)
        if part == "small":
            n = part_small(w, run, model, trees[chunk::nchunks], "small")
        else:
            n = part_delims(w, run, model, trees)
    elif part == "witness":
        n = part_witness(w, run, model, defs)
    elif part == "dups":
        n = part_dups(w, run, model, chunk, nchunks)
    elif part == "rich":
        n = part_rich(w, run, model, vocab, defs)
    elif part == "temporal":
        n, info["pool"], info["combos"] = part_temporal(w, run, model, defs, chunk, nchunks)
    elif part == "nest":
        n, info["nest_pools"], info["combos"] = part_nest(w, run, model, chunk, nchunks)
    else:
        n = part_vcase(w, run, model, vocab)
    return {"version": version, "part": part, "chunk": chunk, "cases": n, "counts": run.counts, "info": info,
            "evaluations": w.evaluations, "distinct": {_h(k) for k in w.distinct}, "failures": w.failures,
            "per_clause": w._per_clause, "samples": w.samples[:2]}


def _h(key):
    import hashlib
    return int.from_bytes(hashlib.blake2b(repr(key).encode("utf-8", "backslashreplace"), digest_size=8).digest(), "big")


def run(w: Workload):
    import multiprocessing
    w.rule = ("small: one case per (unordered tree over {Red,Blue,Green}, ordering) for the absolute check and per (tree, "
              "ordering, rewrite) for the relational check; rich/delims/vcase: one case per (base annotation, rewrite); a case is "
              "non-trivial when the rewritten text differs from the base text (identical texts are skipped)")
    versions = ["8.3.0"] if w.quick else ["8.3.0", "8.0.0"]
    temporal_versions = ["8.3.0"] if w.quick else ["8.3.0", "8.2.0"]
    for v in versions + temporal_versions:
        schema(v)
    tasks = []
    schunks = 6 if w.quick else 13
    tchunks = 3 if w.quick else 8
    nchunks_nest = 5 if w.quick else 10
    for v in temporal_versions:
        tasks += [(w.tier, w.seed, v, "temporal", c, tchunks) for c in range(tchunks)]
    for v in versions:
        tasks += [(w.tier, w.seed, v, "witness", 0, 1)]
        if v == "8.3.0":
            tasks += [(w.tier, w.seed, v, "small", c, schunks) for c in range(schunks)]
            tasks += [(w.tier, w.seed, v, "delims", 0, 1)]
            tasks += [(w.tier, w.seed, v, "dups", c, 3) for c in range(3)]
            tasks += [(w.tier, w.seed, v, "nest", c, nchunks_nest) for c in range(nchunks_nest)]
        tasks += [(w.tier, w.seed, v, "rich", c, 1) for c in range(2 if w.quick else 6)]
        tasks += [(w.tier, w.seed, v, "vcase", 0, 1)]
    ctx = multiprocessing.get_context("fork")
    with ctx.Pool(min(14, len(tasks))) as pool:
        results = pool.map(_task, tasks, chunksize=1)
    order = ["witness", "vcase", "dups", "nest", "small", "delims", "rich", "temporal"]
    allv = versions + [v for v in temporal_versions if v not in versions]
    results.sort(key=lambda r: (allv.index(r["version"]), order.index(r["part"]), r["chunk"]))
    agg = {}
    for r in results:
        w.evaluations += r["evaluations"]
        w.distinct |= r["distinct"]
        for k, n in r["per_clause"].items():
            w._per_clause[k] = w._per_clause.get(k, 0) + n
        for f in r["failures"]:
            if sum(1 for g in w.failures if g["clause"] == f["clause"]) < w.max_failures_per_clause:
                w.failures.append(f)
        w.samples += r["samples"]
        a = agg.setdefault((r["version"], r["part"]), {"cases": 0, "counts": {}, "trees": 0, "pool": 0, "combos": 0, "nest_pools": []})
        a["nest_pools"] = r["info"].get("nest_pools", a["nest_pools"])
        a["cases"] += r["cases"]
        a["pool"] = max(a["pool"], r["info"].get("pool", 0))
        a["combos"] += r["info"].get("combos", 0)
        a["trees"] = max(a["trees"], r["info"].get("trees", 0))
        for k, n in r["counts"].items():
            a["counts"][k] = a["counts"].get(k, 0) + n
    w.samples = w.samples[:8]
    for (version, part), a in agg.items():
        bound = {
            "small": "all %d unordered trees over {Red, Blue, Green} with <= 3 leaves and nesting depth <= 4%s; %s sibling "
                     "orderings of each; 3-5 path-form, 3-5 letter-case and 4-6 blank patterns on two orderings" %
                     (a["trees"], "" if w.quick else " or 4 leaves and depth <= 3", "<= 12 sampled" if w.quick else "all"),
            "delims": "every delimiter fault (doubled/leading/trailing/missing comma, '()', extra/missing/swapped parenthesis) at "
                      "every delimiter of a stride sample of the <= 3-leaf trees; 6-8 blank patterns each (after / before / "
                      "around every delimiter, and blanks ONLY between adjacent delimiters and at the ends)",
            "rich": "%d random annotations (<= 5 atoms + special group, depth <= 4 (+2 inside special groups), a quarter each: "
                    "plain / with special group / with one fault / both); 5 path-form, 5 case, 6 blank, 6 order, 3 combined "
                    "rewrites each; every 5th base with allow_placeholders=True" % ((260 if w.quick else 1200) * (2 if w.quick else 6)),
            "witness": "fixed list of minimal pairs for the narrow clauses and their passing neighbours",
            "temporal": "%d combinations: every pair%s of a pool of %d valid and faulty Onset / Offset / Inset / Duration / Delay groups "
                        "(delayed onsets, Def and Def-expand, 3 declared definitions), pairs alone / next to a tag / next to a group, "
                        "triples in one of these surroundings; every permutation of the top-level members x {groups as written, all "
                        "groups reversed}, 2 random shuffles, 1 combined rewrite" %
                        (a["combos"], " and a sample of 420 triples" if w.quick else " and every triple (with repetition)", a["pool"]),
            "dups": "every group G over {Red, Blue, Green} with <= 3 leaves and depth <= 2, every pair of written member orders of G as "
                    "two sibling copies, 7 sets of further siblings, %s sibling positions, at nesting depth 0, 1 and 3 "
                    "(annotation depth <= 5)" % ("4 sampled" if w.quick else "all"),
            "nest": "%d sets of sibling groups out of the pools %s (every group, up to member order, with exactly these tags and that "
                    "nesting depth): per pool every (two copies + one other group), every (three copies), %s (three different groups) and "
                    "<= %d sets of 4; each set in one of 4 surroundings (top level / in a group next to a tag / only members of a group / two "
                    "levels down), %s permutations of the siblings x written member orders (as listed, last ordering (quick: only without copies), the copies in %s "
                    "pairs of their member orders, %d random): absolute repeat oracle and equality with the first writing" %
                    (a["combos"], a["nest_pools"], "a sample of" if w.quick else "all (big pools: a sample of)", 24 if w.quick else 250,
                     "all (4 siblings: 8)" if w.quick else "all", "2" if w.quick else "<= 12", 1 if w.quick else 3),
            "vcase": "10-60 valued or extended tags: two copies with values 'abc' / 'ABC', 3 layouts, 4 respellings; and the triples "
                     "ABC/Abd/abc, Run/Stop/run (middle value sorts between the copies in code-point order) in 7 layouts, %s "
                     "orderings each: absolute repeat check, order, respelling and blank rewrites" % ("<= 8" if w.quick else "all"),
        }[part]
        w.part("%s[%s]" % (part, version), cases=a["cases"], bound=bound, exhaustive=(part == "small" and not w.quick),
               per_clause=a["counts"])
    w.exhaustive = False
    w.not_covered += [
        "trees beyond the stated bounds of the exhaustive part (larger ones only sampled: <= 5 atoms + one special group)",
        "blanks inside a tag (around '/'), tabs and other white space; letter case of values, units, extension and definition names",
        "library schemas / namespaces; row- and file-level validation",
        "warnings (only error-severity codes are compared)",
    ]
    w.assumptions += [
        "schema XML read independently (rt/c01_schema.py) gives the valid spellings of a tag: every suffix of its path, any letter case",
    ]


def replay(w: Workload, case: dict):
    inp = case["input"]
    env = Env(inp["schema"], inp["definitions"])
    ph = inp["allow_placeholders"]
    a, exa = env.observe(inp["base"], ph)
    if inp.get("rewritten") is None:
        exp = case.get("expected")
        if exa is not None:
            w.fail(CL_TOTAL, inp, observed=exa, expected="no exception")
        elif (exp == [] and a != []) or (exp and (REPEATED not in a or set(a) != {REPEATED})):
            w.fail(case["clause"], inp, observed=a, expected=exp)
        return
    b, exb = env.observe(inp["rewritten"], ph)
    if exa or exb:
        w.fail(CL_TOTAL, inp, observed=exa or exb, expected="no exception")
    elif a != b:
        w.fail(case["clause"], inp, observed={"base": a, "rewritten": b}, expected="equal multisets of error codes")


if __name__ == "__main__":
    main(run, "C04", replay)
