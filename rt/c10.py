"""C10 (tier T3, bounded): Onset/Offset/Inset bookkeeping follows the event history exactly.

Every case is a small events file (DataFrame with 'onset' and 'HED' columns) built from a history of temporal markers,
validated as a TabularInput through the real SpreadsheetValidator / OnsetValidator / df_util time-point construction.
The oracle is the fold `open_scopes` below, written from the property text only.

Parts
  histories : one marker per row, strictly increasing onsets; ALL marker sequences up to a length over
              {Onset, Offset, Inset} x {Aa, aa, Bb, Cc/1, Cc/2} (plain, case variant, second name, valued x2).
  layouts   : marker sequences over {Onset, Offset, Inset} x {Aa, aa} x EVERY layout (each boundary between consecutive
              markers is: same row / next row with equal onset / next row one second later) x (no Delay | one marker
              carrying a Delay of 0, 0.5, 1, 2 or 10 s).
  ties      : 2-3 equal-onset rows (one marker each) in a file that really has to be re-sorted (an unrelated
              Delay-shifted marker lands before them), followed by 0-3 later rows.
  long      : seeded random files of 24-60 rows with many equal onsets,
              several non-colliding Delay shifts, plain tags and n/a rows; definitions come from a sidecar.
  several   : ONE row carrying two or three Delay-shifted markers (equal and different shifts, in and against text
              order, landing before / on / after the next row) followed by a row with one marker or none; every shifted
              marker is its own event at onset + delay.
  spelling  : the tags Def, Onset, Offset, Inset and Delay written in lower, upper and mixed case (HED tags are
              case-insensitive): short histories, the Delay layouts and the 'several' files again, judged by the same
              oracle; a mismatch that disappears with the canonical spelling is reported as C10.*.case_insensitive.
  unicode   : definition names with non-ASCII letters (Straße, Größe, ΟΔΟΣ, İstanbul, Café), used in the spellings the
              name itself yields (declared, upper(), casefold(), lower(): STRASSE/strasse, οδος/οδοσ, i + combining dot ...),
              each family declared once without and once with '/#'; only families whose every spelling the schema's name
              rules accept (asked at run time).  Same enumeration as histories/layouts, same fold: the spellings of a
              family are ONE name in the definition dictionary, in the Def check and in the open-scope table.  Plus seeded
              long files over all families (sidecar definitions).
"""
import io
import itertools
import json
import multiprocessing
import random
import re

from rt.common import Workload, main, schema

KINDS = ["Onset", "Offset", "Inset"]
DEFS = ["(Definition/Aa, (Red))", "(Definition/Bb, (Blue))", "(Definition/Cc/#, (Label/#))"]
NAMES_FULL = ["Aa", "aa", "Bb", "Cc/1", "Cc/2"]
NAMES_SMALL = ["Aa", "aa"]

# definition names with non-ASCII letters whose case variants are not related by str.lower() alone (sharp s, final
# sigma, dotted capital I) and one whose variants are (e acute).  The spellings of one family are derived, not listed:
# the name as declared, its upper(), casefold() and lower() forms - all of them are the same name case-insensitively
# (Unicode caseless matching = equal casefold()).  Which families are usable is asked of the schema at run time
# (usable_unicode_bases): every spelling must be a legal definition name under 8.3.0.
UNI_BASES = ["Straße", "Größe", "ΟΔΟΣ", "İstanbul", "Café"]
UNI_DEFSETS = ("uniA", "uniB")


def uni_variants(base, limit=None):
    out = []
    for v in (base, base.upper(), base.casefold(), base.lower()):
        if v not in out:
            out.append(v)
    assert len({v.casefold() for v in out}) == 1, out
    return out[:limit] if limit else out


def uni_valued(index, defset):
    """family number `index` takes a value in one of the two definition sets and none in the other"""
    return (index % 2 == 1) == (defset == "uniA")


def defset_texts(defset):
    if defset == "ascii":
        return DEFS
    return [f"(Definition/{b}/#, (Label/#))" if uni_valued(i, defset) else f"(Definition/{b}, (Red))"
            for i, b in enumerate(UNI_BASES)]


def defset_of(part):
    return part.split(":", 1)[1] if ":" in part else "ascii"


def usable_unicode_bases():
    """-> (usable, skipped): a family is usable when every derived spelling passes the schema's own name rules as a
    definition name (character classes of the value class of Definition/#); nothing about matching is asked here"""
    if "uni_ok" not in _state:
        from hed.models import HedString
        from hed.validator import HedValidator
        from hed.errors.error_types import ErrorSeverity
        v = HedValidator(schema(), definitions_allowed=True)
        ok, bad = [], []
        for b in UNI_BASES:
            errs = []
            for sp in uni_variants(b):
                for text in (f"(Definition/{sp}, (Red))", f"(Definition/{sp}/#, (Label/#))"):
                    errs += [i for i in v.validate(HedString(text, schema()), allow_placeholders=True)
                             if i.get("severity", 1) == ErrorSeverity.ERROR]
            (bad if errs else ok).append(b)
        _state["uni_ok"] = (ok, bad)
    return _state["uni_ok"]


# ----------------------------------------------------------------------------------------------------------------
# oracle (from the property text)
# ----------------------------------------------------------------------------------------------------------------
def open_scopes(time_points):
    """time_points: list (in time order) of lists of markers (kind, name) in the order they take effect.
    Returns (reports, open_at_end); reports = list of (time point index, what, key) with what in
    'offset' (Offset without open Onset), 'inset' (Inset without open Onset), 'dup:<Kind>' (name already used among the
    markers of this time point; reported once per extra use, the extra use has no further effect)."""
    opened = set()
    reports = []
    for ti, markers in enumerate(time_points):
        used = set()
        for kind, name in markers:
            key = name.casefold()          # definition name including its value, case-insensitive
            if key in used:
                reports.append((ti, "dup:" + kind, key))
                continue
            used.add(key)
            if kind == "Onset":
                opened.add(key)            # opens or restarts
            elif kind == "Offset":
                if key in opened:
                    opened.discard(key)
                else:
                    reports.append((ti, "offset", key))
            else:
                if key not in opened:
                    reports.append((ti, "inset", key))
    return reports, opened                 # whatever is still open at the end is legal: nothing reported


def build_time_points(rows):
    """rows: list of (onset float, [ (kind, name, delay or None), ... ]).
    Returns list of candidate time-point lists (more than one only when a delayed marker lands on a time point that
    also holds a marker of the same name: the property does not fix their relative order) and, per time point, the set of
    file rows that contribute to it."""
    plain = {}      # time -> list of (row, pos, kind, name)
    delayed = []    # (time, row, pos, kind, name)
    for r, (t, markers) in enumerate(rows):
        plain.setdefault(t, [])
        for p, (kind, name, delay) in enumerate(markers):
            if delay is None:
                plain[t].append((r, p, kind, name))
            else:
                delayed.append((t + delay, r, p, kind, name))
    times = sorted(set(plain) | {d[0] for d in delayed})
    rows_of = []
    fixed = []
    floating = []
    for t in times:
        base = plain.get(t, [])
        dl = [d for d in delayed if d[0] == t]
        rs = {r for r, (rt, _) in enumerate(rows) if rt == t} | {d[1] for d in dl}
        rows_of.append(rs)
        fixed.append([(k, n) for (_, _, k, n) in base])
        floating.append([(k, n) for (_, _, _, k, n) in dl])
    # candidates: delayed markers of a time point may be inserted anywhere (keeping their mutual file order)
    per_tp = []
    for fx, fl in zip(fixed, floating):
        if not fl:
            per_tp.append([fx])
            continue
        keys_fx = {n.casefold() for _, n in fx}
        keys_fl = [n.casefold() for _, n in fl]
        collide = any(k in keys_fx for k in keys_fl) or len(set(keys_fl)) < len(keys_fl)
        if not collide:
            per_tp.append([fx + fl])
            continue
        cands = []
        n = len(fx) + len(fl)
        for pos in itertools.combinations(range(n), len(fl)):
            seq = [None] * n
            for i, p in enumerate(pos):
                seq[p] = fl[i]
            it = iter(fx)
            seq = [s if s is not None else next(it) for s in seq]
            if seq not in cands:
                cands.append(seq)
        per_tp.append(cands)
    candidates = [list(c) for c in itertools.product(*per_tp)]
    return candidates, rows_of, times


def _distinct_perms(items):
    """distinct permutations of a list of hashable items"""
    from collections import Counter
    cnt = Counter(items)

    def rec(prefix, left):
        if left == 0:
            yield list(prefix)
            return
        for it in list(cnt):
            if cnt[it]:
                cnt[it] -= 1
                prefix.append(it)
                yield from rec(prefix, left - 1)
                prefix.pop()
                cnt[it] += 1
    yield from rec([], len(items))


def consistent_with_some_row_order(rows, observed, times, rows_of, max_perms=20000, max_states=3000):
    """Would the observed reports (row, what, key) be correct bookkeeping if the rows (and Delay-shifted groups) of each
    time point took effect in SOME order (markers of one row keep their order)?  Names do not interact, so this is
    decided name by name (slight over-approximation: the per-name orders need not come from one common permutation).
    Returns True / False / None (None: too many orders to enumerate).  Only used to give an order-dependence its own
    narrow label instead of blaming the bookkeeping clauses."""
    import math
    from collections import Counter
    tindex = {t: i for i, t in enumerate(times)}
    per_key = {}         # key -> time point index -> list of blocks (tuple of kinds)
    for r, (t, markers) in enumerate(rows):
        blk = {}
        for (k, n, d) in markers:
            if d is None:
                blk.setdefault(n.casefold(), []).append(k)
            else:
                per_key.setdefault(n.casefold(), {}).setdefault(tindex[t + d], []).append((k,))
        for key, kinds in blk.items():
            per_key.setdefault(key, {}).setdefault(tindex[t], []).append(tuple(kinds))
    obs_by_key = {}
    for row, what, key in observed:
        obs_by_key.setdefault(key, []).append((row, what, key))
    if any(k not in per_key for k in obs_by_key):
        return False
    unknown = False
    for key, by_tp in per_key.items():
        obs = obs_by_key.get(key, [])
        states = {(False, ())}          # (open, ((ti, what), ...))
        for ti in sorted(by_tp):
            blocks = by_tp[ti]
            cnt = Counter(blocks)
            nperm = math.factorial(len(blocks))
            for c in cnt.values():
                nperm //= math.factorial(c)
            if nperm > max_perms:
                unknown = True
                states = None
                break
            pool = Counter(w for (row, w, _) in obs if row is not None and (row - 2) in rows_of[ti])
            outcomes = set()
            for order in _distinct_perms(blocks):
                seq = [k for b in order for k in b]
                for start_open in (False, True):
                    o2, r2 = start_open, []
                    for i, kind in enumerate(seq):
                        if i > 0:
                            r2.append("dup:" + kind)
                        elif kind == "Onset":
                            o2 = True
                        elif kind == "Offset":
                            if o2:
                                o2 = False
                            else:
                                r2.append("offset")
                        elif not o2:
                            r2.append("inset")
                    if not (Counter(r2) - pool):        # necessary: these reports were observed at rows of this point
                        outcomes.add((start_open, o2, tuple(sorted(r2))))
            new_states = set()
            for opened, reps in states:
                for start_open, o2, r2 in outcomes:
                    if start_open == opened:
                        new_states.add((o2, reps + tuple((ti, w) for w in r2)))
            states = new_states
            if len(states) > max_states:
                unknown = True
                states = None
                break
            if not states:
                return False
        if states is None:
            continue
        if not any(match_rows([(ti, w, key) for ti, w in reps], obs, rows_of) for _, reps in states):
            return False
    return None if unknown else True


# ----------------------------------------------------------------------------------------------------------------
# building the file and reading the issues
# ----------------------------------------------------------------------------------------------------------------
STYLES = {0: "canonical", 1: "lower", 2: "upper", 3: "mixed"}


def spell(word, style, k=0):
    """a reserved tag name in the letter case of `style`; mixed: alternating case, starting case alternates with k"""
    if style == 1:
        return word.lower()
    if style == 2:
        return word.upper()
    if style == 3:
        return "".join(ch.upper() if (j + k) % 2 else ch.lower() for j, ch in enumerate(word))
    return word


def marker_text(kind, name, delay, variant=0, style=0):
    parts = [f"{spell('Def', style, variant)}/{name}", spell(kind, style, variant)]
    if kind == "Onset" and variant % 3 == 1:
        parts.append("(Green)")             # an Onset may carry one content group
    if delay is not None:
        parts.append(f"{spell('Delay', style, variant)}/{delay:g} s")
    if variant % 2:
        parts.reverse()
    return "(" + ", ".join(parts) + ")"


def rows_to_frame(rows, extras=None, style=0):
    import pandas as pd
    onsets, heds = [], []
    k = 0
    for r, (t, markers) in enumerate(rows):
        cells = []
        for (kind, name, delay) in markers:
            cells.append(marker_text(kind, name, delay, k, style))
            k += 1
        if extras and extras[r]:
            cells.append(extras[r])
        onsets.append(f"{t:g}")
        heds.append(", ".join(cells) if cells else "n/a")
    return pd.DataFrame({"onset": onsets, "HED": heds})


# the messages quote the tags as written in the file (or as re-rendered for a Delay-shifted group): any letter case
_OFF = re.compile(r"^Offset tag '(?i:def)/(.*?)' does not have a matching onset")
_INS = re.compile(r"^Inset tag '(?i:def)/(.*?)' does not have a matching onset")
_DUP = re.compile(r"^'(\w+)' uses name '(.*?)', which was already used at this onset time")


def read_issues(issues):
    out, other = [], []
    for i in issues:
        if i.get("code") != "TEMPORAL_TAG_ERROR":
            continue
        m = i.get("message", "")
        row = i.get("ec_row")
        a = _OFF.match(m)
        if a:
            out.append((row, "offset", a.group(1).casefold()))
            continue
        a = _INS.match(m)
        if a:
            out.append((row, "inset", a.group(1).casefold()))
            continue
        a = _DUP.match(m)
        if a:
            out.append((row, "dup:" + a.group(1).capitalize(), a.group(2).casefold()))
            continue
        other.append((row, m[:120]))
    return out, other


_state = {}


def _defs(defset="ascii"):
    from hed.models import DefinitionDict
    if ("dd", defset) not in _state:
        texts = defset_texts(defset)
        _state["dd", defset] = DefinitionDict(texts, schema())
        _state["sidecar_text", defset] = json.dumps({"defs": {"HED": {f"d{i}": d for i, d in enumerate(texts)}}})
    return _state["dd", defset]


def validate_rows(rows, extras=None, use_sidecar=False, style=0, defset="ascii"):
    from hed.models import TabularInput, Sidecar
    dd = _defs(defset)
    df = rows_to_frame(rows, extras, style)
    if use_sidecar:
        sc = Sidecar(io.StringIO(_state["sidecar_text", defset]))
        return TabularInput(df, sidecar=sc, name="c10").validate(schema())
    return TabularInput(df, name="c10").validate(schema(), extra_def_dicts=dd)


def match_rows(expected, observed, rows_of):
    """is there a one-to-one assignment observed issue -> expected report with equal (what, key) and the reported file row
    (ec_row - 2: one-based + header line) among the rows that contribute to the report's time point?"""
    if len(expected) != len(observed):
        return False
    used = [False] * len(observed)

    def rec(i):
        if i == len(expected):
            return True
        ti, what, key = expected[i]
        for j, (row, w2, k2) in enumerate(observed):
            if not used[j] and w2 == what and k2 == key and row is not None and (row - 2) in rows_of[ti]:
                used[j] = True
                if rec(i + 1):
                    return True
                used[j] = False
        return False
    return rec(0)


def check_case(rows, extras=None, use_sidecar=False, style=0, defset="ascii"):
    """returns (list of (clause, observed, expected), delay-tie ambiguity flag)"""
    fails = []
    try:
        issues = validate_rows(rows, extras, use_sidecar, style, defset)
    except Exception as e:  # noqa
        return [("C10.validate.total", f"{type(e).__name__}: {str(e)[:200]}", "no exception")], False
    observed, other = read_issues(issues)
    if other:
        fails.append(("C10.report.no_other_temporal_issue", other, []))
    candidates, rows_of, times = build_time_points(rows)
    outcomes = [open_scopes(c)[0] for c in candidates]
    obs_multi = sorted((w, k) for _, w, k in observed)
    exp_multis = [sorted((w, k) for _, w, k in o) for o in outcomes]
    ambiguous = len({json.dumps(e) for e in exp_multis}) > 1
    # 1. the file-order oracle (a Delay-shifted marker may fall anywhere inside its time point)
    if any(e == obs_multi and match_rows(o, observed, rows_of) for o, e in zip(outcomes, exp_multis)):
        return fails, ambiguous
    exp = exp_multis[0]
    exp_rows = [(sorted(rows_of[ti]), w, k) for ti, w, k in outcomes[0]]
    # 2. correct bookkeeping for SOME order of the rows that share an onset, but not for the file order?
    verdict = consistent_with_some_row_order(rows, observed, times, rows_of)
    if verdict is not False:
        fails.append(("C10.equal_onset.rows_take_effect_in_file_order", observed, exp_rows))
        return fails, ambiguous
    # 3. say which requirement broke
    if obs_multi not in exp_multis:
        o_un = [x for x in obs_multi if not x[0].startswith("dup")]
        e_un = [x for x in exp if not x[0].startswith("dup")]
        if o_un != e_un and not ambiguous:
            clause = "C10.unmatched.iff_no_open_onset"
        elif [x for x in obs_multi if x[0].startswith("dup")] != [x for x in exp if x[0].startswith("dup")] \
                and not ambiguous:
            clause = "C10.same_name.once_per_extra_use"
        else:
            clause = "C10.delay_tie.some_order"
        fails.append((clause, obs_multi, exp_multis if ambiguous else exp))
    else:
        fails.append(("C10.report.row_within_time_point", observed, exp_rows))
    return fails, ambiguous


L_CASE_DELAY = "C10.delay.case_insensitive"
L_CASE_MARKER = "C10.marker.case_insensitive"
L_SEVERAL = "C10.delay.several_groups_in_one_row"


def has_delay(rows):
    return any(d is not None for _, ms in rows for (_, _, d) in ms)


def several_delays_in_a_row(rows):
    return any(sum(d is not None for (_, _, d) in ms) > 1 for _, ms in rows)


def one_delay_per_row(rows, extras=None):
    """the same history with every further Delay-shifted marker of a row moved to a row of its own (same onset, directly
    after): same time points, same order of effect"""
    out, ex = [], []
    for r, (t, markers) in enumerate(rows):
        first, more, seen = [], [], False
        for m in markers:
            if m[2] is not None and seen:
                more.append(m)
            else:
                first.append(m)
                seen = seen or m[2] is not None
        out.append((t, first))
        ex.append(extras[r] if extras else "")
        for m in more:
            out.append((t, [m]))
            ex.append("")
    return out, (ex if extras else None)


def judge(rows, extras=None, use_sidecar=False, style=0, defset="ascii"):
    """check_case + attribution of a mismatch to the narrow requirement it depends on: the letter case of the reserved
    tags (the canonical spelling of the same file is judged correct) or several Delay groups sharing a row (the same
    history with one Delay group per row is judged correct)"""
    fails, amb = check_case(rows, extras, use_sidecar, style, defset)
    if not fails:
        return fails, amb
    if style and not check_case(rows, extras, use_sidecar, 0, defset)[0]:
        label = L_CASE_DELAY if has_delay(rows) else L_CASE_MARKER
        return [(label, obs, {"expected": exp, "clause": cl, "note": "no mismatch with the canonical spelling"})
                for cl, obs, exp in fails], amb
    if several_delays_in_a_row(rows):
        rows2, extras2 = one_delay_per_row(rows, extras)
        if not check_case(rows2, extras2, use_sidecar, style, defset)[0]:
            return [(L_SEVERAL, obs, {"expected": exp, "clause": cl, "note": "no mismatch with one Delay group per row"})
                    for cl, obs, exp in fails], amb
    return fails, amb


# ----------------------------------------------------------------------------------------------------------------
# enumeration
# ----------------------------------------------------------------------------------------------------------------
def seqs(names, maxlen, minlen=1):
    alpha = [(k, n) for k in KINDS for n in names]
    for n in range(minlen, maxlen + 1):
        yield from itertools.product(alpha, repeat=n)


def rows_from(markers, layout, delay):
    """layout: tuple of len(markers)-1 items in {0: same row, 1: new row equal onset, 2: new row one second later};
    delay: None or (marker index, seconds)"""
    rows = []
    t = 0.0
    cur = []
    for i, (kind, name) in enumerate(markers):
        if i > 0 and layout[i - 1] != 0:
            rows.append((t, cur))
            cur = []
            if layout[i - 1] == 2:
                t += 1.0
        d = delay[1] if delay is not None and delay[0] == i else None
        cur.append((kind, name, d))
    rows.append((t, cur))
    return rows


def gen_cases(quick):
    """yield (part, rows, style)"""
    for part, rows in gen_canonical(quick):
        yield (part, rows, 0)
    yield from gen_several(quick)
    yield from gen_spelling(quick)
    yield from gen_unicode(quick)


def gen_unicode(quick):
    """histories whose definition names are the spellings of ONE non-ASCII family (declared form, upper, casefold, lower):
    the same enumeration as 'histories'/'layouts' (no Delay), judged by the same fold - the spellings of a family are one
    name, exactly as 'Aa'/'aa' are.  Each family is declared once without and once with a value ('/#') - two definition
    sets, part name 'unicode:<set>'.  Then two families side by side."""
    usable, _ = usable_unicode_bases()
    fams = []
    for fi, base in enumerate(UNI_BASES):
        if base in usable:
            fams.append((fi, base))
    for fi, base in fams:
        for ds in UNI_DEFSETS:
            part = "unicode:" + ds
            vs = uni_variants(base, 3 if quick else None)
            if uni_valued(fi, ds):
                names = [v + "/1" for v in vs] + ([] if quick else [vs[1] + "/2"])
            else:
                names = list(vs)
            sym = [(k, n) for k in KINDS for n in names]
            primary = ds == ("uniA" if fi < 3 else "uniB")      # per family one of the two sets (two families valued, three not)
            for n in (1, 2):
                for m in itertools.product(sym, repeat=n):
                    if quick and not primary and n == 2 and m[0][1] == m[1][1]:
                        continue        # quick, the family's other set: pairs of DIFFERENT spellings only
                    for layout in itertools.product((0, 1, 2), repeat=n - 1):
                        yield (part, rows_from(m, layout, None), 0)
            if quick:
                # length 3: an Onset, then two more markers of any kind, in three different spellings (every order), one
                # marker per row; for each family in its primary set
                if not primary:
                    continue
                for order in itertools.permutations(names, 3):
                    for kinds in itertools.product(KINDS, repeat=2):
                        yield (part, rows_from(list(zip(("Onset",) + kinds, order)), (2, 2), None), 0)
            else:
                for m in itertools.product(sym, repeat=3):
                    for layout in ((2, 2), (1, 1), (0, 0)):     # one marker per row / equal-onset rows / all in one row
                        yield (part, rows_from(m, layout, None), 0)
    # two families in one history: scopes of different names are independent
    for ds in UNI_DEFSETS:
        for (fa, a), (fb, b) in zip(fams, fams[1:] + fams[:1]):
            if a == b:
                continue
            va = [v + "/1" if uni_valued(fa, ds) else v for v in uni_variants(a, 3)]
            vb = [v + "/1" if uni_valued(fb, ds) else v for v in uni_variants(b, 3)]
            for k1, k2 in itertools.product(KINDS, repeat=2):
                m = [("Onset", va[0]), ("Onset", vb[0]), (k1, vb[1]), (k2, va[1])]
                yield ("unicode:" + ds, rows_from(m, (2, 2, 2), None), 0)
                m = [("Onset", va[0]), (k1, vb[1]), (k2, va[2])]
                yield ("unicode:" + ds, rows_from(m, (2, 2), None), 0)


def gen_several(quick):
    """one row (time 0) with two or three Delay-shifted markers, then a row at time 1 with one marker or none.
    Shifts: 0.5 (before the next row), 1 (on it), 1.5 (after it).  Letter-case styles rotate over the files."""
    sym = [(k, n) for k in KINDS for n in NAMES_SMALL]
    sym2 = sym if quick else sym + [(k, "Bb") for k in KINDS]
    nexts = [None] + sym
    no = 0
    for a, b in itertools.product(sym2, repeat=2):
        for da, db in itertools.product((0.5, 1.0, 1.5), repeat=2):
            for nx in nexts:
                for first in ([None] if quick else [None, ("Onset", "Aa"), ("Offset", "aa")]):
                    row0 = ([first + (None,)] if first else []) + [a + (da,), b + (db,)]
                    no += 1
                    yield ("several", [(0.0, row0), (1.0, [nx + (None,)] if nx else [])], no % 4)
    triples = [(0.5, 0.5, 0.5), (1.5, 0.5, 1.0), (0.5, 1.5, 0.5)] + ([] if quick else [(1.5, 1.5, 0.5), (1.0, 1.0, 1.0)])
    nexts3 = [None, ("Onset", "Aa"), ("Offset", "aa"), ("Inset", "Aa")] if quick else nexts
    for a, b, c in itertools.product(sym, repeat=3):
        for da, db, dc in triples:
            for nx in nexts3:
                no += 1
                yield ("several", [(0.0, [a + (da,), b + (db,), c + (dc,)]), (1.0, [nx + (None,)] if nx else [])], no % 4)
    # two names, three rows: (Def/Aa, Onset, Delay/x), (Def/Bb, Onset, Delay/y) | use of Aa | use of Bb
    for k1, k2 in itertools.product(KINDS, repeat=2):
        for da, db in itertools.product((0.5, 1.5, 2.5), repeat=2):
            for u1, u2 in itertools.product(("Offset", "Inset"), repeat=2):
                no += 1
                yield ("several", [(0.0, [(k1, "Aa", da), (k2, "Bb", db)]), (1.0, [(u1, "aa", None)]),
                                   (2.0, [(u2, "bB", None)])], no % 4)


def gen_spelling(quick):
    """respelled copies (lower / upper / mixed case of Def, Onset, Offset, Inset, Delay) of canonical files"""
    no = 0
    lay_len = 3 if quick else 4
    for part, rows in gen_canonical(quick):
        n = sum(len(ms) for _, ms in rows)
        if part == "histories" and n <= 2:
            styles = (1, 2, 3)
        elif part == "layouts" and has_delay(rows) and n <= 2:
            styles = (1, 2, 3)
        elif part == "layouts" and has_delay(rows) and n == 3:
            no += 1
            if quick and no % 2:
                continue
            styles = (1 + (no // 2) % 3,)
        else:
            continue
        for st in styles:
            yield ("spelling", rows, st)


def gen_canonical(quick):
    """yield (part, rows)"""
    # histories: canonical layout
    full_len = 3 if quick else 4
    for m in seqs(NAMES_FULL, full_len):
        yield ("histories", rows_from(m, (2,) * (len(m) - 1), None))
    for m in seqs(NAMES_SMALL, full_len + 1, minlen=full_len + 1):
        yield ("histories", rows_from(m, (2,) * (len(m) - 1), None))
    # layouts
    lay_len = 3 if quick else 4
    for m in seqs(NAMES_SMALL, lay_len):
        n = len(m)
        if n == lay_len and m[0][1] != NAMES_SMALL[0]:
            continue        # longest length: first marker spelled 'Aa' (the two spellings are interchangeable)
        shifts = [0.0, 0.5, 1.0, 2.0, 10.0] if n < lay_len else [0.5, 1.0]
        delays = [None] + [(j, d) for j in range(n) for d in shifts]
        for layout in itertools.product((0, 1, 2), repeat=n - 1):
            for dl in delays:
                if layout == (2,) * (n - 1) and dl is None and n <= full_len:
                    continue    # already in histories
                yield ("layouts", rows_from(m, layout, dl))
    # ties: a group of equal-onset rows (one marker each) in a file that also holds an unrelated Delay-shifted marker
    # landing before them and 0-3 later rows, i.e. a file whose time points really have to be re-sorted
    for size in (2, 3):
        for m in seqs(NAMES_SMALL, size, minlen=size):
            for nfill in range(0, 4):
                rows = [(0.0, [("Onset", "Bb", 0.5)])] + [(1.0, [(k, n, None)]) for k, n in m]
                rows += [(2.0 + i, []) for i in range(nfill)]
                yield ("ties", rows)


def long_unicode_names(defset):
    usable, _ = usable_unicode_bases()
    out = []
    for fi, base in enumerate(UNI_BASES):
        if base in usable:
            vs = uni_variants(base)
            out += [v + "/1" for v in vs] + [vs[0] + "/2"] if uni_valued(fi, defset) else vs
    return out


def gen_long(rng, count, names=None):
    fillers = ["Square", "Circle, (Triangle, Green)", "", "", ""]
    names = names or NAMES_FULL + ["AA", "cc/1", "bB"]
    for c in range(count):
        nrows = rng.randint(24, 60)
        rows, extras = [], []
        t = 0.0
        ndelay = 0
        for r in range(nrows):
            if r and rng.random() < 0.45:
                t += 1.0
            markers = []
            for _ in range(rng.choice([0, 1, 1, 1, 2, 3])):
                kind = rng.choice(KINDS)
                name = rng.choice(names)
                d = None
                if rng.random() < 0.15:
                    ndelay += 1
                    d = rng.randint(0, 5) + 0.25 + 0.001 * ndelay     # never lands on a row time or another shift
                markers.append((kind, name, d))
            rows.append((t, markers))
            extras.append(rng.choice(fillers))
        yield rows, extras


def _worker(chunk):
    schema()
    out = []
    amb = 0
    for part, rows, style in chunk:
        defset = defset_of(part)
        fails, ambiguous = judge(rows, style=style, defset=defset)
        amb += ambiguous
        for clause, obs, exp in fails:
            out.append((clause, {"part": part, "rows": _rows_json(rows), "style": style, "defset": defset,
                                 "definitions": defset_texts(defset),
                                 "file": rows_to_frame(rows, None, style).values.tolist()}, obs, exp))
    return len(chunk), amb, out


def _long_worker(args):
    rows, extras, defset = args
    schema()
    fails, _ = judge(rows, extras, use_sidecar=True, defset=defset)
    return [(clause, {"part": "long" if defset == "ascii" else "long:" + defset, "rows": _rows_json(rows),
                      "extras": extras, "sidecar": True, "defset": defset}, obs, exp)
            for clause, obs, exp in fails]


def _rows_json(rows):
    return [[t, [[k, n, d] for k, n, d in ms]] for t, ms in rows]


def _rows_from_json(j):
    return [(float(t), [(k, n, d) for k, n, d in ms]) for t, ms in j]


def run(w: Workload):
    w.rule = ("histories: every marker sequence (one per row, increasing onsets) over {Onset,Offset,Inset} x "
              "{Aa,aa,Bb,Cc/1,Cc/2} up to length 3 (quick) / 4, and over {Aa,aa} one longer; layouts: every sequence "
              "over {Onset,Offset,Inset} x {Aa,aa} up to length 3 (quick) / 4 x every layout (same row | equal-onset row | "
              "later row per boundary) x (no Delay | one marker delayed by 0/0.5/1/2/10 s; at the longest length 0.5/1 s and "
              "first name 'Aa'); ties: 2-3 equal-onset single-marker rows after an unrelated Delay-shifted marker, 0-3 "
              "later rows; long: seeded random files of 24-60 rows; several: one row with 2-3 Delay-shifted markers "
              "(shifts before/on/after the next row, equal and different, in and against text order) + a following row; "
              "spelling: Def/Onset/Offset/Inset/Delay in lower, upper, mixed case for short histories, Delay layouts and "
              "the 'several' files; unicode: the histories/layouts enumeration (no Delay) over the case spellings (declared, "
              "upper, casefold, lower) of non-ASCII definition names (sharp s, final sigma, dotted I, e acute), each family "
              "declared with and without '/#', as far as the schema accepts the names.  "
              "Distinct = distinct file (rows, markers, delays, spelling).")
    cases = list(gen_cases(w.quick))
    counts = {}
    for c in cases:
        counts[c[0]] = counts.get(c[0], 0) + 1
        w.case((c[0], json.dumps(_rows_json(c[1])), c[2]), nontrivial=True,
               sample={"part": c[0], "rows": _rows_json(c[1]), "style": STYLES[c[2]]})
    chunks = [cases[i:i + 200] for i in range(0, len(cases), 200)]
    records = []
    amb = 0
    long_cases = [(r, e, "ascii") for r, e in gen_long(random.Random(w.seed + 1010), 60 if w.quick else 1000)]
    n_long_ascii = len(long_cases)
    usable, skipped = usable_unicode_bases()
    if usable:
        for k, ds in enumerate(UNI_DEFSETS):
            long_cases += [(r, e, ds) for r, e in gen_long(random.Random(w.seed + 2020 + k), 6 if w.quick else 150,
                                                           long_unicode_names(ds))]
    with multiprocessing.Pool(min(14, max(1, multiprocessing.cpu_count() - 2))) as pool:
        for n, a, out in pool.imap(_worker, chunks):
            amb += a
            records.extend(out)
        for i, out in enumerate(pool.imap(_long_worker, long_cases, chunksize=4)):
            w.case(("long", w.seed, i), sample=None)
            records.extend(out)
    records.sort(key=lambda r: (sum(len(ms) for _, ms in r[1]["rows"]), len(r[1]["rows"]), json.dumps(r[1])))
    for clause, inp, obs, exp in records:
        w.fail(clause, inp, observed=obs, expected=exp)
    w.part("histories", cases=counts.get("histories", 0),
           bound="all marker sequences, one marker per row: 15 symbols up to length %d, 6 symbols (Aa,aa) length %d"
           % ((3, 4) if w.quick else (4, 5)), exhaustive=True)
    w.part("layouts", cases=counts.get("layouts", 0),
           bound="6 symbols ({Onset,Offset,Inset} x {Aa,aa}) up to length %d x 3^(n-1) layouts x (1 + n x shifts) Delay "
                 "choices (5 shifts below the longest length, 2 shifts {0.5,1} and first marker 'Aa' at the longest)"
                 % (3 if w.quick else 4), exhaustive=True,
           order_ambiguous_cases=amb)
    w.part("ties", cases=counts.get("ties", 0),
           bound="one unrelated marker delayed by 0.5 s, then 2-3 equal-onset rows with one marker each over "
                 "{Onset,Offset,Inset} x {Aa,aa}, then 0-3 later rows", exhaustive=True)
    w.part("several", cases=counts.get("several", 0),
           bound="row at time 0 with two Delay-shifted markers (6 symbols%s each, shifts {0.5,1,1.5}^2%s) or three (6 symbols "
                 "each, %d shift triples), then a row at time 1 with one of %s markers or none; 324 files with two names "
                 "(Aa, Bb shifted by {0.5,1.5,2.5}^2, used at times 1 and 2); letter-case style of the reserved tags rotates "
                 "canonical/lower/upper/mixed" % (("", "", 3, "6 (3 after three groups)") if w.quick else
                                                  (" + 3 Bb symbols", ", optional unshifted marker in front", 5, "6")),
           exhaustive=True)
    w.part("spelling", cases=counts.get("spelling", 0),
           bound="lower, upper and mixed-case copies of the histories with <=2 markers and of the Delay layouts with <=2 "
                 "markers; one of the three spellings for %s Delay layout with 3 markers" % ("every second" if w.quick else "every"),
           exhaustive=True)
    w.part("long", cases=n_long_ascii, bound="seeded random files, 24-60 rows, definitions from a sidecar",
           exhaustive=False)
    n_uni = sum(v for k, v in counts.items() if k.startswith("unicode"))
    w.part("unicode names", cases=n_uni,
           bound="definition names with non-ASCII letters, families %s (skipped because the schema's name rules refuse a "
                 "spelling: %s); spellings of a family = declared form, upper(), casefold(), lower() (%s); every family declared "
                 "without a value in one definition set and with '/#' in the other; per family and set: every marker sequence "
                 "of length <= 2 over {Onset,Offset,Inset} x spellings x every layout (same row | equal-onset row | later row)%s, "
                 "length 3: %s; plus two families side by side (18 files per neighbouring pair and set); oracle: the fold of "
                 "the property with names compared by casefold(), i.e. the verdicts of 'Aa'/'aa'/'AA' in the same pattern"
                 % (usable, skipped or "none", {b: uni_variants(b, 3 if w.quick else None) for b in usable},
                    " (quick: in one of the two sets of a family only the pairs of different spellings)" if w.quick else "",
                    "Onset + two markers of every kind, three different spellings in every order, one marker per row, one set "
                    "per family"
                    if w.quick else "every sequence x {one marker per row, equal-onset rows, one row}, plus a second value on one spelling"), exhaustive=True)
    w.part("long: unicode names", cases=len(long_cases) - n_long_ascii,
           bound="seeded random files, 24-60 rows, names drawn from all spellings of all usable families (valued families also "
                 "with a second value), definitions from a sidecar, both definition sets", exhaustive=False)
    w.exhaustive = True
    w.assumptions += [
        "markers of one time point take effect in file order (row order, then order inside the row); a marker whose name "
        "was already used at that time point is reported and has no further effect",
        "when a Delay-shifted marker lands on a time point that also holds a marker of the same name the property does "
        "not fix their relative order: every insertion order is accepted (counted as order_ambiguous_cases)",
        "a mismatch that would be correct bookkeeping for some other order of the rows sharing an onset is reported under "
        "C10.equal_onset.rows_take_effect_in_file_order (order-dependence), every other mismatch under the C10.unmatched / "
        "C10.same_name / C10.delay_tie clauses",
        "issue kinds are recognised by the message text of TEMPORAL_TAG_ERROR issues (the dictionaries carry no sub-code)",
        "the row of a report is only required to be one of the file rows contributing to the time point (the validator "
        "reports the first row of a merged time point, also for markers written in another row)",
    ]
    w.not_covered += [
        "files whose onsets are not in order (outside 'time-ordered events file')",
        "structural faults of a temporal group (no Def, two Defs, extra groups, value arity) - validate_onset_offset",
        "more than one Delay-shifted marker per file outside the parts 'several' (one row holds them all) and 'long'",
        "letter case of the unit of a Delay value and Delay values in other units (rt.c07)",
        "onset cells that are not numbers (n/a onsets)",
        "non-ASCII definition names together with Delay shifts (only in the seeded long files) or with respelled reserved "
        "tags; names that are equal only after Unicode normalisation (NFC/NFKC) - the property speaks of letter case only",
    ]


def replay(w: Workload, case: dict):
    inp = case["input"]
    rows = _rows_from_json(inp["rows"])
    fails, _ = judge(rows, inp.get("extras"), use_sidecar=bool(inp.get("sidecar")), style=int(inp.get("style") or 0),
                     defset=inp.get("defset") or "ascii")
    for clause, obs, exp in fails:
        w.fail(clause, inp, observed=obs, expected=exp)


if __name__ == "__main__":
    main(run, "C10", replay)
