"""C20 (tier T3, bounded): temporal context of every event equals the set of processes ongoing at that time.

Every case is a small VALID, time-ordered events file built from a history of cells (Onset / Offset of two definition
names - plain and valued, with and without content group -, Duration groups with several lengths and units, Delay
shifts, plain rows, n/a rows) with every choice of "equal onset | one second later" between consecutive rows.  The file
goes through TabularInput -> hed.tools.analysis.event_manager.EventManager (and HedTagManager) and is compared with
`contexts_spec(history)`, an interval computation written from the property text.

Part 'several': one cell of the history carries two or three temporal groups with their own Delay shifts (equal and
different shifts, in and against text order, seconds and milliseconds); every shifted group is its own event at
onset + delay.  Part 'spelling': the tags Def, Onset, Offset, Delay, Duration in lower, upper and mixed case (HED tags
are case-insensitive) - same expected table.

Part 'fine' (rt/c20_fine.py): onset texts with many decimals (sample index / 300 Hz and / 1024 Hz with 10 decimals,
1e-7 steps, one-decimal values), rows that share a time point exactly / within the documented 1e-9 / 1e-7 apart, at
which Onset and Duration processes start, and several ongoing processes whose content is textually identical; the
expectation uses exact arithmetic on the onset texts and compares contexts as multisets (one entry per process).

Processes are recognised in the reported strings by their definition name (Def/<name>) or, for Duration processes, by a
unique Label/d<k> inside their content group; plain annotation by a unique Label/r<row>.
"""
import itertools
import multiprocessing
import re

from rt.common import Workload, main, schema
from rt import c20_fine

# Entries of later rows that share an onset with an earlier row: judged (own narrow clause) or not.  The statement says
# such rows act as ONE time point whose context is "started strictly earlier"; the code gives them the processes
# started at that very time point as context.
JUDGE_LATER_ROWS = True

DEFS = ["(Definition/Aa, (Red))", "(Definition/Cc/#, (Label/#))"]

# cell = (kind, ...)
#   ("none",)                         only the row's plain tag
#   ("na",)                           HED cell is n/a
#   ("on", name, delay, with_group)   (Def/name, Onset[, (Green)][, Delay/d s])
#   ("off", name, delay)              (Def/name, Offset[, Delay/d s])
#   ("dur", text, seconds, delay)     (Duration/text[, Delay/d s], (Label/dK))
#   ("multi", (cell, cell[, cell]))   several of the three kinds above in ONE row; the Delay of the 2nd group is in ms
FULL = [
    ("none",), ("na",),
    ("on", "Aa", None, False), ("on", "aa", None, True), ("off", "Aa", None), ("off", "AA", None),
    ("on", "Cc/1", None, False), ("off", "cc/1", None),
    ("on", "Aa", 0.0, False), ("on", "Aa", 0.5, True), ("on", "Aa", 1.5, False),
    ("off", "Aa", 0.5), ("off", "Aa", 1.0),
    ("dur", "0.5 s", 0.5, None), ("dur", "1 s", 1.0, None), ("dur", "2 s", 2.0, None), ("dur", "10 s", 10.0, None),
    ("dur", "500 ms", 0.5, None), ("dur", "2000 ms", 2.0, None),
    ("dur", "1 s", 1.0, 0.5), ("dur", "0.5 s", 0.5, 1.5), ("dur", "2 s", 2.0, 0.0),
]
SMALL = [
    ("none",), ("on", "Aa", None, False), ("off", "aa", None), ("on", "Cc/1", None, True), ("off", "Cc/1", None),
    ("on", "Aa", 1.0, False), ("off", "Aa", 0.5), ("dur", "1 s", 1.0, None), ("dur", "2 s", 2.0, None),
    ("dur", "500 ms", 0.5, 0.5),
]
TINY = [("none",), ("on", "Aa", None, False), ("off", "Aa", None), ("on", "Aa", 1.0, True), ("dur", "1 s", 1.0, None),
        ("dur", "2 s", 2.0, 0.5)]
MULTI = [
    ("multi", (("dur", "2 s", 2.0, 1.0), ("dur", "3 s", 3.0, 2.0))),                 # different shifts, text order
    ("multi", (("on", "Aa", 1.0, False), ("on", "Cc/1", 2.0, True))),                # two names
    ("multi", (("on", "Aa", 0.5, False), ("off", "aa", 1.5))),                       # starts and ends its own process
    ("multi", (("off", "Aa", 1.5), ("on", "Aa", 0.5, True))),                        # the same against text order
    ("multi", (("off", "Aa", 0.5), ("on", "AA", 1.5, False))),                       # ends an open process, restarts it
    ("multi", (("on", "Aa", 1.0, False), ("dur", "1 s", 1.0, 1.0))),                 # equal shifts
    ("multi", (("on", "Aa", 0.5, True), ("on", "Cc/1", 0.5, False))),                # equal shifts, two names
    ("multi", (("dur", "0.5 s", 0.5, 0.5), ("dur", "500 ms", 0.5, 0.5))),            # equal shifts, equal lengths
    ("multi", (("dur", "2000 ms", 2.0, 2.0), ("dur", "1 s", 1.0, 0.5))),             # against text order
    ("multi", (("on", "Aa", 0.5, False), ("dur", "500 ms", 0.5, 1.0), ("off", "aa", 2.0))),
    ("multi", (("dur", "1 s", 1.0, 0.0), ("dur", "2 s", 2.0, 0.5), ("on", "Cc/1", 1.0, False))),
    ("multi", (("on", "Aa", None, False), ("off", "Aa", 1.0), ("dur", "1 s", 1.0, 0.5))),    # one unshifted group too
    ("multi", (("dur", "1 s", 1.0, 1.5), ("on", "Cc/1", 1.5, False), ("dur", "10 s", 10.0, 0.5))),
]
STYLES = {0: "canonical", 1: "lower", 2: "upper", 3: "mixed"}
L_CASE_DELAY = "C20.delay.case_insensitive"
L_CASE_TAGS = "C20.tags.case_insensitive"
L_SEVERAL = "C20.delay.several_groups_in_one_row"


# ----------------------------------------------------------------------------------------------------------------
# history -> file, history -> expected table
# ----------------------------------------------------------------------------------------------------------------
def history_rows(cells, gaps):
    """cells: tuple of cells; gaps: tuple of len-1 items in {0: equal onset, 1: one second later} -> [(time, cell)]"""
    rows = []
    t = 0.0
    for i, c in enumerate(cells):
        if i and gaps[i - 1]:
            t += 1.0
        rows.append((t, c))
    return rows


def spell(word, style, k=0):
    """a reserved tag name in the letter case of `style`; mixed: alternating case, the starting case alternates with k"""
    if style == 1:
        return word.lower()
    if style == 2:
        return word.upper()
    if style == 3:
        return "".join(ch.upper() if (j + k) % 2 else ch.lower() for j, ch in enumerate(word))
    return word


def atoms(cell):
    """the temporal groups of a cell: [(position in the row or None for a single-group cell, group cell)]"""
    if cell[0] == "multi":
        return list(enumerate(cell[1]))
    return [(None, cell)] if cell[0] in ("on", "off", "dur") else []


def dur_id(i, j):
    return f"d{i}" if j is None else f"d{100 + 10 * i + j}"


def delay_of(g):
    return g[3] if g[0] == "dur" else g[2]


def group_text(i, j, g, style=0):
    k = g[0]
    v = i + (j or 0)
    delay = delay_of(g)
    dl = []
    if delay is not None:       # the second group of a row gives its shift in milliseconds
        dl = [f"{spell('Delay', style, v)}/{delay * 1000:g} ms" if j == 1 else f"{spell('Delay', style, v)}/{delay:g} s"]
    if k == "on":
        parts = [f"{spell('Def', style, v)}/{g[1]}", spell("Onset", style, v)] + (["(Green)"] if g[3] else []) + dl
    elif k == "off":
        parts = [f"{spell('Def', style, v)}/{g[1]}", spell("Offset", style, v)] + dl
    else:
        parts = [f"{spell('Duration', style, v)}/{g[1]}"] + dl + [f"(Label/{dur_id(i, j)})"]
    return "(" + ", ".join(parts) + ")"


def cell_text(i, cell, style=0):
    k = cell[0]
    plain = f"Label/r{i}"
    if k == "na":
        return "n/a"
    if k == "none":
        return plain
    groups = [group_text(i, j, g, style) for j, g in atoms(cell)]
    if i % 2 == 0:
        return ", ".join(groups + [plain])
    return ", ".join(groups[:-1] + [plain] + groups[-1:]) if len(groups) > 1 else f"{plain}, {groups[0]}"


def events_of(rows):
    """[(effective time, row, kind, key)]: kind in on/off/dur; key = def name+value casefolded or (seconds, Label id)"""
    ev = []
    for i, (t, cell) in enumerate(rows):
        for j, g in atoms(cell):
            if g[0] in ("on", "off"):
                ev.append((t + (g[2] or 0.0), i, g[0], g[1].casefold()))
            else:
                ev.append((t + (g[3] or 0.0), i, "dur", (g[2], dur_id(i, j))))
    return ev


def is_valid(rows):
    """a valid file: every Offset has an open Onset of the same name, no name used twice at one time point"""
    ev = events_of(rows)
    opened = set()
    for t in sorted({e[0] for e in ev}):
        here = [e for e in ev if e[0] == t and e[2] != "dur"]
        keys = [e[3] for e in here]
        if len(set(keys)) != len(keys):
            return False
        for _, _, kind, key in here:
            if kind == "on":
                opened.add(key)
            elif key in opened:
                opened.discard(key)
            else:
                return False
    return True


def contexts_spec(rows):
    """property text -> {time point: (started here, ongoing context, plain rows)}.
    A process started by an Onset at time s lasts until the next Onset or Offset of the same name (else end of file);
    a Duration process started at s lasts until the first time point at or after s + duration; Delay-shifted groups
    start at the shifted time; the context of a time point t is every process with start < t that has not ended at t."""
    ev = events_of(rows)
    times = sorted({t for t, _ in rows} | {e[0] for e in ev})
    procs = []      # (id, start, end)   end = None: to the end of the file
    for (t, i, kind, key) in ev:
        if kind == "on":
            later = [e[0] for e in ev if e[2] in ("on", "off") and e[3] == key and e[0] > t]
            procs.append(("def:" + key, t, min(later) if later else None))
        elif kind == "dur":
            procs.append((f"dur:{key[1]}", t, t + key[0]))
    table = {}
    for t in times:
        started = sorted(p[0] for p in procs if p[1] == t)
        ctx = sorted(p[0] for p in procs if p[1] < t and (p[2] is None or t < p[2]))
        plain = sorted(f"r{i}" for i, (rt, cell) in enumerate(rows) if rt == t and cell[0] != "na")
        table[t] = (started, ctx, plain)
    return times, table


# ----------------------------------------------------------------------------------------------------------------
# observation
# ----------------------------------------------------------------------------------------------------------------
_DEF = re.compile(r"(?i:def)/([^,()]+)")          # reserved tags are quoted as written: any letter case
_DUR = re.compile(r"Label/(d\d+)")
_ROW = re.compile(r"Label/(r\d+)")
_TEMPORAL_WORD = re.compile(r"(?i)(?<![\w/-])(Onset|Offset|Duration/|Delay/)")


def ids(text):
    text = text or ""
    return sorted(["def:" + m.casefold() for m in _DEF.findall(text)] + ["dur:" + m for m in _DUR.findall(text)])


_state = {}


def _dd():
    if "dd" not in _state:
        from hed.models import DefinitionDict
        _state["dd"] = DefinitionDict(DEFS, schema())
    return _state["dd"]


def frame(rows, style=0):
    import pandas as pd
    return pd.DataFrame({"onset": [f"{t:g}" for t, _ in rows],
                         "HED": [cell_text(i, c, style) for i, (t, c) in enumerate(rows)]})


def has_delay(rows):
    return any(delay_of(g) is not None for _, c in rows for _, g in atoms(c))


def several_delays_in_a_row(rows):
    return any(sum(delay_of(g) is not None for _, g in atoms(c)) > 1 for _, c in rows)


def one_group_per_row(rows):
    """the same history with every group of a several-group cell in a row of its own (same onset, same order)"""
    out = []
    for t, c in rows:
        if c[0] == "multi":
            out += [(t, g) for g in c[1]]
        else:
            out.append((t, c))
    return out


def judge(rows, style=0):
    """check_history + attribution of a mismatch to the narrow requirement it depends on: the letter case of the
    reserved tags (the canonical spelling of the same file is judged correct) or several Delay groups sharing a row
    (the same history with one group per row is judged correct)"""
    fails = check_history(rows, style)
    if not fails:
        return fails
    if style and not check_history(rows, 0):
        label = L_CASE_DELAY if has_delay(rows) else L_CASE_TAGS
        return [(label, obs, {"expected": exp, "clause": cl, "note": "no mismatch with the canonical spelling"})
                for cl, obs, exp in fails]
    if several_delays_in_a_row(rows) and not check_history(one_group_per_row(rows), style):
        return [(L_SEVERAL, obs, {"expected": exp, "clause": cl, "note": "no mismatch with one group per row"})
                for cl, obs, exp in fails]
    return fails


def check_history(rows, style=0):
    """returns list of (clause, observed, expected)"""
    from hed.models import TabularInput
    from hed.tools.analysis.event_manager import EventManager
    from hed.tools.analysis.hed_tag_manager import HedTagManager
    fails = []
    sch = schema()
    try:
        em = EventManager(TabularInput(frame(rows, style), name="c20"), sch, extra_defs=_dd())
        onsets = [float(x) for x in em.onsets]
        base, ctxs, heds = list(em.base), list(em.contexts), [str(h) for h in em.hed_strings]
    except Exception as e:  # noqa
        return [("C20.total.valid_file_is_processed", f"{type(e).__name__}: {str(e)[:200]}", "no exception")]
    times, table = contexts_spec(rows)
    n = len(onsets)
    if not (len(base) == len(ctxs) == len(heds) == n == len(em.event_list)):
        return [("C20.entries.same_length", [len(base), len(ctxs), len(heds), n], "equal lengths")]
    if any(onsets[i] > onsets[i + 1] for i in range(n - 1)) or sorted(set(onsets)) != times:
        fails.append(("C20.entries.time_order_and_points", onsets, times))
        return fails
    for t in times:
        idx = [i for i in range(n) if onsets[i] == t]
        started, ctx, plain = table[t]
        obs_started = sorted(x for i in idx for x in ids(base[i]))
        if obs_started != started:
            kind = "duration" if [x for x in obs_started if x[:3] == "dur"] != [x for x in started if x[:3] == "dur"] \
                else "onset"
            fails.append((f"C20.base.{kind}_process_listed_at_its_start_point", {"time": t, "base": obs_started},
                          {"time": t, "base": started}))
        obs_ctx = ids(ctxs[idx[0]])
        if obs_ctx != ctx:
            kind = "duration" if [x for x in obs_ctx if x[:3] == "dur"] != [x for x in ctx if x[:3] == "dur"] else "onset"
            fails.append((f"C20.context.{kind}_processes_started_earlier_not_ended", {"time": t, "context": obs_ctx},
                          {"time": t, "context": ctx}))
        for i in idx[1:] if JUDGE_LATER_ROWS else []:
            if ids(ctxs[i]) != ctx:
                fails.append(("C20.equal_onset.later_rows_have_the_time_points_context",
                              {"time": t, "entry": i, "context": ids(ctxs[i])}, {"time": t, "context": ctx}))
                break
        obs_plain = sorted(x for i in idx for x in _ROW.findall(heds[i]))
        if obs_plain != plain:
            fails.append(("C20.remaining.annotation_kept", {"time": t, "rows": obs_plain}, {"time": t, "rows": plain}))
    left = [h for h in heds if _TEMPORAL_WORD.search(h)]
    if left:
        fails.append(("C20.remaining.without_temporal_groups", left, []))
    bad = [s for s in base + ctxs if re.search(r"(?i)(?<![\w/-])(Onset|Offset|Duration/)", s)]
    if bad:
        fails.append(("C20.process.content_without_onset_or_duration_tag", bad, []))
    # HedTagManager: hed + base + (Event-context, (context)) per entry
    try:
        objs = HedTagManager(em).get_hed_objs(include_context=True)
        if len(objs) != n:
            fails.append(("C20.tagmanager.agrees_with_event_manager", len(objs), n))
        else:
            for i, o in enumerate(objs):
                text = str(o) if o else ""
                inside = ""
                m = re.search(r"\(Event-context,\((.*)\)\)$", text)
                if m:
                    inside = m.group(1)
                    text = text[:m.start()]
                if ids(inside) != ids(ctxs[i]) or ids(text) != ids(base[i]) or \
                        sorted(_ROW.findall(text)) != sorted(_ROW.findall(heds[i])):
                    fails.append(("C20.tagmanager.agrees_with_event_manager", {"entry": i, "obj": str(o)},
                                  {"hed": heds[i], "base": base[i], "context": ctxs[i]}))
                    break
    except Exception as e:  # noqa
        fails.append(("C20.tagmanager.agrees_with_event_manager", f"{type(e).__name__}: {str(e)[:200]}", "no exception"))
    return fails


def check_unordered(rows):
    """rows with at least two distinct times, listed in reverse -> must be rejected"""
    from hed.models import TabularInput
    from hed.tools.analysis.event_manager import EventManager
    from hed.errors.exceptions import HedFileError
    rev = list(reversed(rows))
    try:
        EventManager(TabularInput(frame(rev), name="c20"), schema(), extra_defs=_dd())
    except HedFileError as e:
        if e.args and e.args[0] == "OnsetsNotOrdered":
            return []
        return [("C20.order.non_monotone_onsets_rejected", f"HedFileError {e.args[:1]}", "HedFileError OnsetsNotOrdered")]
    except Exception as e:  # noqa
        return [("C20.order.non_monotone_onsets_rejected", f"{type(e).__name__}: {str(e)[:120]}",
                 "HedFileError OnsetsNotOrdered")]
    return [("C20.order.non_monotone_onsets_rejected", "accepted", "HedFileError OnsetsNotOrdered")]


# ----------------------------------------------------------------------------------------------------------------
# enumeration
# ----------------------------------------------------------------------------------------------------------------
def gen_histories(quick):
    plan = [(FULL, 1, None), (FULL, 2, None)]
    if quick:
        plan += [(SMALL, 3, None), (TINY, 4, None)]
    else:
        plan += [(FULL, 3, None), (SMALL, 4, None), (TINY, 5, [(1, 1, 1, 1), (0, 1, 0, 1), (1, 0, 1, 0), (1, 0, 0, 1)])]
    seen = set()
    for alpha, n, gap_list in plan:
        for cells in itertools.product(alpha, repeat=n):
            for gaps in (gap_list or itertools.product((0, 1), repeat=n - 1)):
                key = (cells, tuple(gaps))
                if key in seen:
                    continue
                seen.add(key)
                rows = history_rows(cells, gaps)
                if is_valid(rows):
                    yield rows


def gen_several(quick):
    """valid histories with exactly one several-group cell (MULTI) among cells of a small alphabet, every position, every
    gap pattern; yields (rows, style) with the letter-case style rotating over the histories"""
    plan = [((), 1), (SMALL, 2)] + ([(TINY, 3)] if quick else [(SMALL, 3), (TINY, 4)])
    no = 0
    for alpha, n in plan:
        for others in itertools.product(alpha, repeat=n - 1):
            for pos in range(n):
                for m in MULTI:
                    cells = others[:pos] + (m,) + others[pos:]
                    for gaps in itertools.product((0, 1), repeat=n - 1):
                        rows = history_rows(cells, gaps)
                        if is_valid(rows):
                            no += 1
                            yield rows, no % 4


def gen_spelling(quick):
    """lower / upper / mixed-case copies of the one- and two-row histories over FULL that hold a temporal group, and
    one rotating spelling for the three-row histories over SMALL that hold a Delay"""
    no = 0
    for alpha, n in [(FULL, 1), (FULL, 2), (SMALL, 3)]:
        for cells in itertools.product(alpha, repeat=n):
            for gaps in itertools.product((0, 1), repeat=n - 1):
                rows = history_rows(cells, gaps)
                if not is_valid(rows) or not any(atoms(c) for c in cells):
                    continue
                if n <= 2:
                    for st in (1, 2, 3):
                        yield rows, st
                elif has_delay(rows):
                    no += 1
                    if not quick or no % 2 == 0:
                        yield rows, 1 + no % 3


def nontrivial(rows):
    return any(g[0] in ("on", "dur") for _, c in rows for _, g in atoms(c))


def _worker(chunk):
    schema()
    out = []
    for part, rows, style in chunk:
        if part == "fine":
            for clause, obs, exp in c20_fine.check_fine(rows, schema()):
                out.append((clause, {"part": part, "hist": rows, "file": [list(r) for r in c20_fine.file_of(rows)]}, obs, exp))
            continue
        for clause, obs, exp in judge(rows, style):
            out.append((clause, {"part": part, "rows": _rows_json(rows), "style": style, "file": _file_json(rows, style)},
                        obs, exp))
        if part == "contexts" and len({t for t, _ in rows}) > 1 and len(rows) <= 3:
            for clause, obs, exp in check_unordered(rows):
                out.append((clause, {"part": "unordered", "rows": _rows_json(rows)}, obs, exp))
    return out


def _listify(x):
    return [_listify(y) for y in x] if isinstance(x, (tuple, list)) else x


def _tuplify(x):
    return tuple(_tuplify(y) for y in x) if isinstance(x, (tuple, list)) else x


def _rows_json(rows):
    return [[t, _listify(c)] for t, c in rows]


def _file_json(rows, style=0):
    return [[f"{t:g}", cell_text(i, c, style)] for i, (t, c) in enumerate(rows)]


def _rows_from_json(j):
    return [(float(t), _tuplify(c)) for t, c in j]


def run(w: Workload):
    w.rule = ("every VALID history of n rows, one cell per row from an alphabet of cells (22 cells for n<=2 (quick) / n<=3; "
              "10 cells for n=3 (quick) / n=4; 6 cells for n=4 (quick) and, with 4 gap patterns, for n=5 (thorough)) x every choice of "
              "'equal onset | +1 s' between consecutive rows; cells: plain row, n/a row, Onset/Offset of Aa (case "
              "variants, with/without content group, Delay 0/0.5/1/1.5 s) and Cc/1, Duration 0.5/1/2/10 s and 500/2000 ms "
              "without and with Delay 0/0.5/1.5 s.  Invalid histories (Offset without open Onset, a name twice at one time "
              "point) are dropped.  Non-trivial = at least one process starts.  Reversed files (n<=3, >=2 distinct times) "
              "must be rejected.  several: histories with one row carrying 2-3 temporal groups with their own Delay shifts; "
              "spelling: respelled (lower/upper/mixed case reserved tags) copies of short histories; both judged by the "
              "same interval computation.  fine: histories of 2-5 rows over 11 cells whose contents repeat x gaps {same onset text, "
              "+1e-10, +1e-7, next / next but one grid point} x 5 clocks of many-decimal onset texts (every valid 2-row history, "
              "seeded samples of longer ones); expectation by exact rational arithmetic, contexts compared as multisets.")
    hist = list(gen_histories(w.quick))
    n_un = 0
    for rows in hist:
        w.case(("ctx", repr(rows)), nontrivial=nontrivial(rows), sample={"file": _file_json(rows)})
        if len({t for t, _ in rows}) > 1 and len(rows) <= 3:
            n_un += 1
            w.case(("unordered", repr(rows)), sample=None)
    several = list(gen_several(w.quick))
    spelled = list(gen_spelling(w.quick))
    for part, lst in (("several", several), ("spelling", spelled)):
        for rows, style in lst:
            w.case((part, repr(rows), style), nontrivial=nontrivial(rows),
                   sample={"file": _file_json(rows, style), "spelling": STYLES[style]})
    fine = list(c20_fine.gen_fine(w.quick, w.seed))
    n_ident = n_shared = 0
    for h in fine:
        d = c20_fine.describe(h)
        n_ident += d["identical_ongoing"]
        n_shared += d["rows_share_start_point"]
        w.case(("fine", repr(h)), nontrivial=c20_fine.nontrivial(h), sample={"file": [list(r) for r in c20_fine.file_of(h)]})
    work = [("contexts", rows, 0) for rows in hist] + [("several", r, st) for r, st in several] \
        + [("spelling", r, st) for r, st in spelled] + [("fine", h, 0) for h in fine]
    chunks = [work[i:i + 100] for i in range(0, len(work), 100)]
    records = []
    with multiprocessing.Pool(min(14, max(1, multiprocessing.cpu_count() - 2))) as pool:
        for out in pool.imap(_worker, chunks):
            records.extend(out)
    def _simple_first(r):     # stored (capped) failures: fewest rows, no Delay, Onset before Duration
        if "hist" in r[1]:
            return (0, len(r[1]["hist"]["rows"]), 0, repr(r[1]["hist"]))
        rows = r[1]["rows"]
        delayed = sum(1 for _, c in rows for _, g in atoms(c) if delay_of(g) is not None)
        return (delayed, len(rows), sum(g[0] == "dur" for _, c in rows for _, g in atoms(c)), repr(rows))
    records.sort(key=_simple_first)
    for clause, inp, obs, exp in records:
        w.fail(clause, inp, observed=obs, expected=exp)
    w.part("contexts", cases=len(hist), bound="valid histories up to %d rows (see rule)" % (4 if w.quick else 5),
           exhaustive=True)
    w.part("several", cases=len(several),
           bound="valid histories of 1-%s rows with exactly one of %d cells holding 2-3 temporal groups with their own Delay "
                 "(equal / different shifts, in and against text order, s and ms, Onset/Offset/Duration mixes, optionally one "
                 "unshifted group), at every position among cells of the 10-cell alphabet (2%s rows) or the 6-cell alphabet "
                 "(%d rows), every gap pattern; letter-case style rotates canonical/lower/upper/mixed"
                 % (("3", len(MULTI), "", 3) if w.quick else ("4", len(MULTI), "-3", 4)), exhaustive=True)
    w.part("spelling", cases=len(spelled),
           bound="Def/Onset/Offset/Delay/Duration in lower, upper and mixed case: every valid 1-2 row history over the 22-cell "
                 "alphabet with a temporal group (all three spellings); %s valid 3-row history over the 10-cell alphabet with "
                 "a Delay (one spelling, rotating)" % ("every second" if w.quick else "every"), exhaustive=True)
    w.part("fine", cases=len(fine),
           bound="onset texts from 5 clocks (300 Hz aligned / irregular, 1024 Hz, 1e-7 steps, one decimal) x gaps {same text, "
                 "+1e-10, +1e-7, next, next but one grid point} x 11 cells (plain, Duration 3 s / 1 s / 0.2 s / 1500 ms with "
                 "the same content, two Durations with the same content in one row, Onsets of two definitions with the same "
                 "inner group, Onset without group, Offsets): every valid 2-row history (%s), seeded samples of 3-5 row "
                 "histories; %d histories have a time point with >= 2 ongoing processes of identical text, %d have several rows "
                 "sharing the time point at which a process starts"
                 % ("two clocks each" if w.quick else "all clocks", n_ident, n_shared), exhaustive=False)
    w.part("unordered", cases=n_un, bound="the reversed file of every history with <=3 rows and >=2 distinct onsets",
           exhaustive=True)
    w.exhaustive = True
    w.assumptions += [
        "processes are identified in base/context strings by Def/<name> or the unique Label/d<k> of a Duration group; "
        "the exact text of a process (e.g. a Delay tag left inside it) is not judged",
        "parts contexts/several/spelling: all times and durations are dyadic (0.5 steps), so float addition is exact; part "
        "fine: expectation by exact rational arithmetic on the onset texts; onsets closer than the documented 1e-9 are one "
        "time point (only 0 / n*1e-10 / >= 1e-7 distances are generated, between rows and between a Duration end and a row)",
        "entries that share an onset are compared as one time point: base and remaining annotation as the union over "
        "the entries, context at the first entry; the later entries are judged by their own narrow clause",
    ]
    w.not_covered += [
        "unfold_context / get_hed_objs with remove_types (type and definition filtering) and replace_defs",
        "Inset groups, invalid files (unmatched Offset -> KeyError), onsets that are not numbers",
        "more than one temporal group per row other than the listed several-group cells; more than two definition names",
        "letter case of unit names; Delay units other than s and ms (rt.c07)",
        "part fine: no Delay groups; two textually identical groups in ONE row / time point are not generated (not valid HED: "
        "TAG_EXPRESSION_REPEATED) - identical content in one row comes from two Duration groups of different length; "
        "distances between 1e-9 and 1e-7 (rows, or a Duration end and a row) are not generated",
    ]


def replay(w: Workload, case: dict):
    inp = case["input"]
    if inp.get("part") == "fine":
        for clause, obs, exp in c20_fine.check_fine(inp["hist"], schema()):
            w.fail(clause, inp, observed=obs, expected=exp)
        return
    rows = _rows_from_json(inp["rows"])
    fails = check_unordered(rows) if inp.get("part") == "unordered" else judge(rows, int(inp.get("style") or 0))
    for clause, obs, exp in fails:
        w.fail(clause, inp, observed=obs, expected=exp)


if __name__ == "__main__":
    main(run, "C20", replay)
