"""Adapters between the contract vocabulary (abstract class models) and the real objects, for concrete evaluation."""


class AttrDict(dict):
    """an issue dict whose keys can also be read as attributes (the Issue class model)"""
    def __getattr__(self, k):
        try:
            return self[k]
        except KeyError:
            if k.startswith("has_"):        # ghost field of the Issue model: "the key is present"
                return k[4:] in self
            raise AttributeError(k)


def _wrap(v):
    if isinstance(v, AttrDict):
        return v
    if isinstance(v, dict):
        return AttrDict(v)
    if isinstance(v, list):
        return [_wrap(x) for x in v]
    return v


def issues_as_objects(fn, args):
    return _wrap(fn(**args))


def method_of_definition_dict(fn, args):
    from hed.models.definition_dict import DefinitionDict
    return fn(DefinitionDict.__new__(DefinitionDict), **args)


def string_validator_method(fn, args):
    from hed.validator.util.string_util import StringValidator
    return _wrap(fn(StringValidator(), **args))


class _Obj:
    def __init__(self, **kw):
        self.__dict__.update(kw)


def _recording_format_error():
    """context: ErrorHandler.format_error also records the internal kind and the char_index it was asked to print (ghost views)"""
    import contextlib
    from hed.errors.error_reporter import ErrorHandler

    @contextlib.contextmanager
    def cm():
        real = ErrorHandler.format_error

        def fmt(error_type, *a, **kw):
            out = real(error_type, *a, **kw)
            for i in out:
                i["kind"] = error_type
                if "char_index" in kw:
                    i["msg_char_index"] = kw["char_index"]
            return out
        ErrorHandler.format_error = staticmethod(fmt)
        try:
            yield
        finally:
            ErrorHandler.format_error = staticmethod(real)
    return cm()


def char_validator_method(fn, args):
    from hed.validator.util.char_util import CharValidator
    a = dict(args)
    me = a.pop("self")
    v = CharValidator(modern_allowed_char_rules=me._validate_characters)
    with _recording_format_error():
        return _wrap(fn(v, **a))


def attribute_validator(fn, args):
    """schema attribute validators: issues are returned as objects that also carry the internal kind (first argument of format_error)"""
    from hed.errors.error_reporter import ErrorHandler
    real = ErrorHandler.format_error

    def fmt(error_type, *a, **kw):
        out = real(error_type, *a, **kw)
        for i in out:
            i["kind"] = error_type
        return out
    ErrorHandler.format_error = staticmethod(fmt)
    try:
        return _wrap(fn(**args))
    finally:
        ErrorHandler.format_error = staticmethod(real)
