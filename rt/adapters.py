"""Adapters between the contract vocabulary (abstract class models) and the real objects, for concrete evaluation."""


class AttrDict(dict):
    """an issue dict whose keys can also be read as attributes (the Issue class model)"""
    def __getattr__(self, k):
        try:
            return self[k]
        except KeyError:
            raise AttributeError(k)


def _wrap(v):
    if isinstance(v, AttrDict):
        return v
    if isinstance(v, dict):
        return AttrDict(v)
    if isinstance(v, list):
        return [_wrap(x) for x in v]
    return v


def issues_as_objects(fn, args):
    return _wrap(fn(**args))


def method_of_definition_dict(fn, args):
    from hed.models.definition_dict import DefinitionDict
    return fn(DefinitionDict.__new__(DefinitionDict), **args)


def string_validator_method(fn, args):
    from hed.validator.util.string_util import StringValidator
    return _wrap(fn(StringValidator(), **args))


class _Obj:
    def __init__(self, **kw):
        self.__dict__.update(kw)


def char_validator_method(fn, args):
    from hed.validator.util.char_util import CharValidator
    a = dict(args)
    me = a.pop("self")
    v = CharValidator(modern_allowed_char_rules=me._validate_characters)
    return _wrap(fn(v, **a))
