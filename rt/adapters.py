"""Adapters between the contract vocabulary (abstract class models) and the real objects, for concrete evaluation."""


class AttrDict(dict):
    """an issue dict whose keys can also be read as attributes (the Issue class model)"""
    def __getattr__(self, k):
        try:
            return self[k]
        except KeyError:
            if k.startswith("has_"):        # ghost field of the Issue model: "the key is present"
                return k[4:] in self
            raise AttributeError(k)


def _wrap(v):
    if isinstance(v, AttrDict):
        return v
    if isinstance(v, dict):
        return AttrDict(v)
    if isinstance(v, list):
        return [_wrap(x) for x in v]
    return v


def issues_as_objects(fn, args):
    return _wrap(fn(**args))


def method_of_definition_dict(fn, args):
    from hed.models.definition_dict import DefinitionDict
    return fn(DefinitionDict.__new__(DefinitionDict), **args)


def string_validator_method(fn, args):
    from hed.validator.util.string_util import StringValidator
    return _wrap(fn(StringValidator(), **args))


class _Obj:
    def __init__(self, **kw):
        self.__dict__.update(kw)

    def __repr__(self):
        return "Obj(" + ", ".join(f"{k}={v!r}" for k, v in self.__dict__.items()) + ")"


def _recording_format_error():
    """context: ErrorHandler.format_error also records the internal kind and the char_index it was asked to print (ghost views)"""
    import contextlib
    from hed.errors.error_reporter import ErrorHandler

    @contextlib.contextmanager
    def cm():
        real = ErrorHandler.format_error

        def fmt(error_type, *a, **kw):
            out = real(error_type, *a, **kw)
            for i in out:
                i["kind"] = error_type
                if "char_index" in kw:
                    i["msg_char_index"] = kw["char_index"]
            return out
        ErrorHandler.format_error = staticmethod(fmt)
        try:
            yield
        finally:
            ErrorHandler.format_error = staticmethod(real)
    return cm()


def char_validator_method(fn, args):
    from hed.validator.util.char_util import CharValidator
    a = dict(args)
    me = a.pop("self")
    v = CharValidator(modern_allowed_char_rules=me._validate_characters)
    with _recording_format_error():
        return _wrap(fn(v, **a))


def attribute_validator(fn, args):
    """schema attribute validators: issues are returned as objects that also carry the internal kind (first argument of format_error)"""
    from hed.errors.error_reporter import ErrorHandler
    real = ErrorHandler.format_error

    def fmt(error_type, *a, **kw):
        out = real(error_type, *a, **kw)
        for i in out:
            i["kind"] = error_type
        return out
    ErrorHandler.format_error = staticmethod(fmt)
    try:
        return _wrap(fn(**args))
    finally:
        ErrorHandler.format_error = staticmethod(real)


# ---------------------------------------------------------------------------------------------- C09.tag_deepcopy
_clause_errors = {}


def _clause_error(clause, message):
    """an AssertionError whose CLASS NAME is the clause (rt.conc records only the exception's type name of an escaping
    exception, so the type name has to carry which clause broke)"""
    name = clause.replace(".", "_")
    if name not in _clause_errors:
        _clause_errors[name] = type(name, (AssertionError,), {})
    return _clause_errors[name](message)


def tag_deepcopy(fn, args):
    """HedTag.__deepcopy__(self, memo) on a real tag.  To be used with bounded={'share': True, ...}: the clauses of
    C09.tag_deepcopy speak about object identity, so the harness must not deep-copy the arguments.  With shared arguments
    `old(memo)` is the memo AFTER the call (same dict object) and the clauses guarded by `id(self) not in old(memo)` hold
    vacuously; therefore every clause is re-checked here against a snapshot of the memo taken at entry, with real object
    identity instead of fresh(x) == (x is not None).  A broken clause escapes as an AssertionError subclass named after
    the clause: rt.conc reports it as a failure ('raises:<clause> escapes') together with the input."""
    from rt import c09_struct as S
    me, memo = args["self"], args["memo"]
    entry = dict(memo)
    given = S.reach(*[v for v in entry.values()])          # node objects the caller supplied through the memo
    result = fn(me, memo)
    if id(me) in entry:
        if result is not entry[id(me)]:
            raise _clause_error("C09.copy.memoised", "memo entry for the tag not returned")
        return result
    if result is None or result is me or type(result) is not type(me):
        raise _clause_error("C09.copy.is_a_new_object", "copy is the tag itself (or not a tag)")
    if memo.get(id(me)) is not result:
        raise _clause_error("C09.copy.registered_in_memo", "copy not registered in memo under id(self)")
    if (result._expandable is None) != (me._expandable is None) or (result._parent is None) != (me._parent is None):
        raise _clause_error("C09.copy.none_stays_none", "None-ness of _expandable/_parent differs")
    if result._expandable is not None and result._expandable is me._expandable:
        raise _clause_error("C09.copy.expansion_content_not_shared",
                            "copy shares _expandable (the cached expansion group) with the original")
    if result._parent is not None and result._parent is me._parent:
        raise _clause_error("C09.copy.parent_not_shared", "copy shares _parent with the original")
    if (result._expanded != me._expanded or result._hed_string != me._hed_string or result._namespace != me._namespace
            or result._extension_value != me._extension_value or str(result) != str(me)):
        raise _clause_error("C09.copy.text_and_flag_kept", "text or expansion flag differs")
    mine = S.reach(me)
    shared = [n for i, n in S.reach(result).items() if i in mine and i not in given]
    if shared:
        # deeper than the two attributes: e.g. the content group inside the cached expansion, or a sibling in the parent
        in_cache = set() if me._expandable is None else {id(n) for n in S.visible(me._expandable)}
        raise _clause_error("C09.copy.expansion_content_not_shared" if any(id(n) in in_cache for n in shared)
                            else "C09.copy.parent_not_shared",
                            "copy shares node objects with the original: " + ", ".join(S.describe(n) for n in shared[:3]))
    return result
