"""Adapters between the contract vocabulary (abstract class models) and the real objects, for concrete evaluation."""


class AttrDict(dict):
    """an issue dict whose keys can also be read as attributes (the Issue class model)"""
    def __getattr__(self, k):
        try:
            return self[k]
        except KeyError:
            raise AttributeError(k)


def _wrap(v):
    if isinstance(v, AttrDict):
        return v
    if isinstance(v, dict):
        return AttrDict(v)
    if isinstance(v, list):
        return [_wrap(x) for x in v]
    return v


def issues_as_objects(fn, args):
    return _wrap(fn(**args))


def method_of_definition_dict(fn, args):
    from hed.models.definition_dict import DefinitionDict
    return fn(DefinitionDict.__new__(DefinitionDict), **args)


def string_validator_method(fn, args):
    from hed.validator.util.string_util import StringValidator
    return _wrap(fn(StringValidator(), **args))
