"""History part of rt/c03.py: a conversion to long / short form depends on the text and the schema only.

The canonical forms of a tag are a function of (tag text, schema).  Between bundled versions some tags were moved
(8.2.0 'Item/Biological-item/Anatomical-item/Body-part/Head/Ear' is 8.3.0 '.../Body-part/Head-part/Ear'), some exist in
one version only.  The same texts are converted with hed.models.df_util.convert_to_form (Series, DataFrame with chosen
columns, one-column DataFrame) and TabularInput.convert_to_form under schema S1, then S2, then S1 again, in ONE process.
Every result has to be the one the schema at hand defines, whatever was converted before:

  * independent oracle (texts made of short names known to the schema): the long name is the '/'-join of the <node>
    names in that schema's XML file, the short name its last term;
  * relational oracle (all texts, including long forms of the other version and tags the schema does not have):
    HedString(text, S).get_as_form(form), the entry point that the bulk conversion is documented to apply per cell.
"""

FORMS = ("long_tag", "short_tag")
CL_HISTORY = "C03.history.conversion_independent_of_earlier_schema"
CL_FIRST = "C03.string.convert_to_form"          # a wrong result already on the very first conversion is not a history matter

# (label 1, load argument 1, xml files 1, label 2, load argument 2, xml files 2, namespace prefix written before every tag)
PAIRS = [
    ("8.2.0", "8.2.0", ["HED8.2.0"], "8.3.0", "8.3.0", ["HED8.3.0"], ""),
    ("score_1.1.0", "score_1.1.0", ["HED_score_1.1.0"], "score_2.0.0", "score_2.0.0", ["HED_score_2.0.0"], ""),
    ("testlib_2.0.0", "testlib_2.0.0", ["HED_testlib_2.0.0"], "testlib_2.1.0", "testlib_2.1.0", ["HED_testlib_2.1.0"], ""),
    ("sc:score_1.1.0", "sc:score_1.1.0", ["HED_score_1.1.0"], "sc:score_2.0.0", "sc:score_2.0.0", ["HED_score_2.0.0"], "sc:"),
]
PAIRS_THOROUGH = [
    ("8.0.0", "8.0.0", ["HED8.0.0"], "8.3.0", "8.3.0", ["HED8.3.0"], ""),
    ("8.3.0", "8.3.0", ["HED8.3.0"], "8.1.0", "8.1.0", ["HED8.1.0"], ""),
    ("score_1.0.0", "score_1.0.0", ["HED_score_1.0.0"], "score_1.1.0", "score_1.1.0", ["HED_score_1.1.0"], ""),
    ("score_2.0.0", "score_2.0.0", ["HED_score_2.0.0"], "score_1.0.0", "score_1.0.0", ["HED_score_1.0.0"], ""),
    ("8.3.0", "8.3.0", ["HED8.3.0"], "score_1.1.0", "score_1.1.0", ["HED_score_1.1.0"], ""),
]
QUICK_MOVED = 60
ONLY_ONE = 12


def _by_short(vocab):
    return {n.split("/")[-1].casefold(): n for n in vocab if not n.endswith("/#")}


def plan_texts(vocab1, vocab2, ns, rng, quick):
    """-> (texts, {text: {side: {form: expected}}} for texts with an independent expectation, number of moved tags)"""
    m1, m2 = _by_short(vocab1), _by_short(vocab2)
    moved = sorted(k for k in m1 if k in m2 and m1[k] != m2[k])
    n_moved = len(moved)
    if quick and len(moved) > QUICK_MOVED:
        moved = sorted(rng.sample(moved, QUICK_MOVED))
    stable = sorted(k for k in m1 if k in m2 and m1[k] == m2[k] and "/" not in m1[k])
    st = stable[0] if stable else None
    texts, indep = [], {}

    def add(text, exp=None):
        if text not in indep and text not in texts:
            texts.append(text)
            if exp:
                indep[text] = exp

    def short(m, k):
        return m[k].split("/")[-1]

    for k in moved:
        name = short(m1, k)
        add(ns + name, {0: {"long_tag": ns + m1[k], "short_tag": ns + short(m1, k)},
                        1: {"long_tag": ns + m2[k], "short_tag": ns + short(m2, k)}})
        if st is not None:
            t = "(%s%s,%s%s)" % (ns, name.upper(), ns, short(m1, st))
            add(t, {0: {"long_tag": "(%s%s,%s%s)" % (ns, m1[k], ns, m1[st]), "short_tag": "(%s%s,%s%s)" % (ns, short(m1, k), ns, short(m1, st))},
                    1: {"long_tag": "(%s%s,%s%s)" % (ns, m2[k], ns, m2[st]), "short_tag": "(%s%s,%s%s)" % (ns, short(m2, k), ns, short(m2, st))}})
        # the long form of one version handed to the other version, and a value / extension behind the moved tag
        add(ns + m1[k])
        add(ns + m2[k])
        add("%s%s/Xq-1,(%s%s)" % (ns, name, ns, m2[k].lower()))
    only1 = sorted(k for k in m1 if k not in m2)
    only2 = sorted(k for k in m2 if k not in m1)
    for pool, m in ((only1, m1), (only2, m2)):
        for k in (pool if len(pool) <= ONLY_ONE else sorted(rng.sample(pool, ONLY_ONE))):
            add(ns + short(m, k))
            add(ns + m[k])
    return texts, indep, n_moved


def convert_all(S, texts, form):
    """every bulk entry point on fresh containers -> {entry point: list of results} (an exception text instead of a list)"""
    import pandas as pd
    from hed.models.df_util import convert_to_form
    from hed.models.tabular_input import TabularInput
    out = {}

    def guard(name, fn):
        try:
            out[name] = fn()
        except Exception as ex:  # noqa
            out[name] = "%s: %s" % (type(ex).__name__, ex)

    def series():
        ser = pd.Series(list(texts))
        convert_to_form(ser, S, form)
        return list(ser)

    def frame():
        df = pd.DataFrame({"HED": list(texts), "HED2": list(reversed(texts)), "other": list(texts)})
        convert_to_form(df, S, form, columns=["HED", "HED2"])
        if list(df["other"]) != list(texts) or list(reversed(list(df["HED2"]))) != list(df["HED"]):
            return "column 'other' changed or columns HED / HED2 disagree"
        return list(df["HED"])

    def one_column():
        df = pd.DataFrame({"only": list(texts)})
        convert_to_form(df, S, form)
        return list(df["only"])

    def tabular():
        df = pd.DataFrame({"onset": [str(i) for i in range(len(texts))], "HED": list(texts)})
        t = TabularInput(df, name="c03-history")
        t.convert_to_form(S, form)
        return list(t.dataframe["HED"])
    guard("convert_to_form(Series)", series)
    guard("convert_to_form(DataFrame, columns)", frame)
    guard("convert_to_form(one-column DataFrame)", one_column)
    guard("TabularInput.convert_to_form", tabular)
    return out


def per_cell(S, texts, form):
    from hed.models.hed_string import HedString
    out = []
    for t in texts:
        try:
            out.append(str(HedString(t, S).get_as_form(form)))
        except Exception as ex:  # noqa
            out.append("%s: %s" % (type(ex).__name__, ex))
    return out


def run_pair(w, pair, load, vocabulary, earlier):
    """earlier: labels of the schemas that conversions were already made with in this process (extended in place)"""
    """S1, S2, S1 (and, thorough, S2 once more) -> number of (round, form, entry point, text) comparisons"""
    l1, a1, f1, l2, a2, f2, ns = pair
    S = [load(("bundled", a1))[0], load(("bundled", a2))[0]]
    labels = [l1, l2]
    import random
    rng = random.Random("%s/history/%s/%s" % (w.seed, l1, l2))
    texts, indep, n_moved = plan_texts(vocabulary(f1), vocabulary(f2), ns, rng, w.quick)
    rounds = [0, 1, 0] + ([] if w.quick else [1, 0])
    n = 0
    for ri, side in enumerate(rounds):
        for form in FORMS:
            got = convert_all(S[side], texts, form)
            cell = per_cell(S[side], texts, form)
            clause = CL_HISTORY if earlier else CL_FIRST
            history = list(earlier)
            for entry, res in got.items():
                for i, t in enumerate(texts):
                    n += 1
                    w.case(key="history|%s|%s|%d|%s|%s|%s" % (l1, l2, ri, form, entry, t),
                           sample={"text": t, "schema": labels[side], "converted before with": history, "form": form})
                    want = [cell[i]]
                    if t in indep:
                        want.append(indep[t][side][form])
                    obs = res[i] if isinstance(res, list) else res
                    if any(obs != x for x in want):
                        w.fail(clause, {"pair": [l1, l2], "text": t, "form": form, "entry": entry, "schema": labels[side],
                                        "round": ri, "converted_before_with": history, "tier": w.tier, "seed": w.seed},
                               observed=obs, expected=want[-1] if len(set(want)) == 1 else
                               {"HedString.get_as_form": want[0], "from the schema XML": want[-1]})
        earlier.append(labels[side])
    return n, len(texts), n_moved


def run_history(w, load, vocabulary):
    pairs = PAIRS + ([] if w.quick else PAIRS_THOROUGH)
    earlier = []
    for pair in pairs:
        try:
            n, n_texts, n_moved = run_pair(w, pair, load, vocabulary, earlier)
        except Exception as ex:  # noqa
            import traceback
            w.fail("C03.workload.unit_completed", {"pair": [pair[0], pair[3]]}, traceback.format_exc()[-600:], "no exception")
            continue
        w.part("history %s -> %s -> %s%s" % (pair[0], pair[3], pair[0], "" if w.quick else " -> %s -> %s" % (pair[3], pair[0])),
               cases=n, exhaustive=False,
               bound="%d texts (short name, upper-case name in a group with an unmoved tag, both long forms, with an extension, for %s "
                     "of the %d tags whose long name differs between the two versions; short and long name of <= %d tags that "
                     "only one version has) x {long_tag, short_tag} x 4 bulk entry points x every round of the schema sequence"
                     % (n_texts, "a sample of %d" % QUICK_MOVED if (w.quick and n_moved > QUICK_MOVED) else "each", n_moved, 2 * ONLY_ONE))


def replay_history(w, case, load, vocabulary):
    """the recorded run's sequence of conversions up to and including the pair of the failure (earlier pairs are history too)"""
    inp = case["input"]
    w.quick = inp.get("tier", "quick") == "quick"
    w.seed = inp.get("seed", 0)
    earlier = []
    for pair in PAIRS + ([] if w.quick else PAIRS_THOROUGH):
        run_pair(w, pair, load, vocabulary, earlier)
        if [pair[0], pair[3]] == list(inp["pair"]):
            break
    w.failures = [f for f in w.failures if f["clause"] == case["clause"] and f["input"]["pair"] == list(inp["pair"])]
