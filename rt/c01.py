"""C01 -- String validation verdict agrees with the HED rules (bounded runtime stand-in, tier T3).

Generator grammar over an INDEPENDENT reading of the schema XML (rt/c01_schema.py):

  part "vocabulary": every non-deprecated tag of the schema, in every spelling (short, every partial path, long,
      plus letter-case variants), wrapped in a small rotating context, as plain tag / with a value of each of its
      value classes and each accepted unit spelling / with a permitted extension / inside the structure its
      tagGroup / topLevelTagGroup / requireChild attributes demand.  Expected: no error-severity issue.  Then the
      tag-level single-rule mutations of that very tag (forbidden extension, extension that is a schema term, wrong
      parent, missing required child, bad unit, bad value, forbidden character in the name, stray '#', repeated in
      another spelling, top-level / tag-group tag outside its group) -> the HED code of the rule.
  part "grammar": every ordered forest shape with <= n leaves and depth <= d, leaves filled with distinct
      rule-conforming atoms (plain, extended, valued, Def), optionally one special group (Def-expand, Onset/Offset/
      Inset + Def, Duration/Delay, Event-context) at top level.  Expected: no error.  Then every single-rule mutation
      at every position where it applies (leaf replaced by each kind of bad atom, leaf or group repeated at every
      sibling position in every member order, special group unwrapped / nested, parenthesis inserted / deleted /
      swapped, comma doubled / leading / trailing / dropped, '()' inserted, forbidden character inserted at every
      token boundary, stray '#', undeclared / wrongly valued Def, altered Def-expand, second unique tag).

  Variation layer (so that no mutation exists only in its 'adjacent / same-case / no-blank' form): every delimiter
      mutation is also run in six blank writings (blank_variant: after / before / around every delimiter, and blanks ONLY
      between two adjacent delimiters and at the ends, e.g. 'Red, ,Blue', '( ,Blue', ' ,Red', '( )'); every third case of
      every other clause is also run in one rotating blank writing; repeated tags are also generated as copies in another
      path form / letter case / value letter case (respellings) and as triples copy-other-copy whose middle member sorts
      between the copies in code-point order ('Label/ABC, Label/Abd, Label/abc'), in every order, inside groups and as
      members of repeated groups; the unique / Def / Def-expand mutations are generated in every spelling of the tag name
      with siblings between the copies.
  part "timing": every sequence of two or three top-level-only tags (bases Delay, Duration, Onset, Offset, Inset, Definition,
      Event-context; a repeated base gets a DIFFERENT value / spelling each time, so the copies are not "repeated tags") as
      the top-level tags of one top-level group, with each kind of remainder (Def, inner group, both).  Rule: at most one such
      tag per group, except Delay next to exactly one of Duration / Onset / Offset / Inset -> TAG_GROUP_ERROR otherwise
      (clause C01.group.multiple_top_level_tags); the permitted pairs with their fitting remainder are valid.
  part "twin": every reserved-tag group G that is valid at top level (Onset / Offset / Inset / Duration / Delay pairs, Event-context,
      and a Definition group), standing correctly at top level AND once more -- identical text, a respelling, or a slightly different
      copy (control) -- one and two levels down inside another top-level group, in both orders.  The nested copy is misplaced whether
      or not an equal group exists elsewhere: the placement code is reported (clause C01.group.misplaced), and the error codes equal
      those of the same string whose top-level copy is made textually different (relational).
  part "witness": fixed minimal inputs for the narrow clauses (defects seen at design time) and their neighbours.
  part "values" (rt/c01_values.py): the lexical rule of each value class on EVERY short string: all strings of length <= 4
      (thorough: 5) over '05+-.eEx ' as the value of a numeric tag without units, of a unit tag with its unit and of Duration
      inside its group -- accepted iff the text is a number (sign, mantissa with at least one digit, exponent), VALUE_INVALID
      otherwise; all strings of length <= 3 (4) over small alphabets for nameClass / textClass (CHARACTER_INVALID); every
      single-character edit of five well-formed date-times (VALUE_INVALID).  Run with 8.3.0 and 8.2.0 (thorough: also 8.0.0).

Every case is run with allow_placeholders False and True.  Oracle: the rule -> code table of the property text
(valid => no error-severity issue; one injected violation => the rule's code is among the error codes).
Narrow clauses (own label per known / newly seen defect, so that the general clause next to them stays green):
  C01.parens.equal_count_unbalanced (D1), C01.repeat.duplicate_groups_nonadjacent (D2; label chosen by a model of the
  defect, d2_model_count), C01.valid.def_expand_member_order (D8), C01.value.bad_unit_token_before_valid_unit,
  C01.value.datetime_out_of_range, C01.placeholder.as_extension_when_allowed,
  C01.valid.duration_delay_in_schema_without_group_attribute (thorough tier, schemas before 8.2.0).
The observation is the list of error-severity codes of HedValidator(schema, def_dicts).validate(HedString, ph); every
7th case is also run through HedString.validate(ph) and must agree.
"""
from rt.common import Workload, main, schema, codes
from rt.c01_schema import SchemaModel

# rule -> published HED error code, written from the property statement / HED specification appendix B
CODE = {
    "unknown": "TAG_INVALID", "extension": "TAG_EXTENSION_INVALID", "child": "TAG_REQUIRES_CHILD",
    "unit": "UNITS_INVALID", "value": "VALUE_INVALID", "repeat": "TAG_EXPRESSION_REPEATED",
    "group": "TAG_GROUP_ERROR", "parens": "PARENTHESES_MISMATCH", "empty": "TAG_EMPTY", "comma": "COMMA_MISSING",
    "char": "CHARACTER_INVALID", "tilde": "TILDES_UNSUPPORTED", "placeholder": "PLACEHOLDER_INVALID",
    "def": "DEF_INVALID", "defexpand": "DEF_EXPAND_INVALID", "unique": "TAG_NOT_UNIQUE",
    "definition": "DEFINITION_INVALID", "temporal": "TEMPORAL_TAG_ERROR",
}

CL_VALID = "C01.valid.no_error"
CL_VALID_DEFX_ORDER = "C01.valid.def_expand_member_order"        # narrow: defect D8 seen through C01
CL_UNKNOWN = "C01.tag.unknown"
CL_EXT = "C01.tag.extension_forbidden"
CL_CHILD = "C01.tag.requires_child"
CL_UNIT = "C01.value.bad_unit"
CL_UNIT_EXTRA = "C01.value.bad_unit_token_before_valid_unit"     # narrow: 'Tag/3 xyz s'
CL_VALID_DURATION_OLD = "C01.valid.duration_delay_in_schema_without_group_attribute"   # narrow: 8.0/8.1 schemas
CL_VALUE = "C01.value.bad_value"
CL_VALUE_DT = "C01.value.datetime_out_of_range"                  # narrow: month 13 etc.
CL_REPEAT = "C01.repeat.tag_or_group"
CL_REPEAT_D2 = "C01.repeat.duplicate_groups_nonadjacent"         # narrow: defect D2
CL_GROUP = "C01.group.misplaced"
CL_GROUP_MULTI = "C01.group.multiple_top_level_tags"              # two / three top-level-only tags in one group
CL_PARENS = "C01.delim.parens_mismatch"
CL_PARENS_D1 = "C01.parens.equal_count_unbalanced"               # narrow: defect D1
CL_EMPTY = "C01.delim.empty_or_missing_comma"
CL_CHAR = "C01.char.forbidden"
CL_PLACEHOLDER = "C01.placeholder.stray"
CL_PLACEHOLDER_EXT = "C01.placeholder.as_extension_when_allowed"  # narrow: 'Red/#' with allow_placeholders
CL_DEF = "C01.def.invalid"
CL_DEFX = "C01.defexpand.invalid"
CL_UNIQUE = "C01.unique.duplicated"
CL_ENTRY = "C01.entry.agree_no_exception"

EXT_WORD = "Cx1ext"          # not a schema term in any bundled schema (checked at start)
EXT_WORD2 = "Cx2sub"
UNKNOWN_WORD = "Qqnotatag"
DEF_PLAIN = "Cdefplain"
DEF_VALUE = "Cdefvalue"


# =====================================================================================================
# real-code side
# =====================================================================================================
class Env:
    def __init__(self, version, def_strings):
        from hed.models.definition_dict import DefinitionDict
        from hed.validator.hed_validator import HedValidator
        self.version = version
        self.schema = schema(version)
        self.dd = DefinitionDict(def_strings, self.schema)
        self.def_issues = codes(self.dd.issues, True)
        self.validator = HedValidator(self.schema, def_dicts=self.dd)

    def observe(self, text, ph):
        """-> (sorted error codes or None, exception text or None)"""
        from hed.models.hed_string import HedString
        try:
            hs = HedString(text, self.schema, def_dict=self.dd)
            return codes(self.validator.validate(hs, ph), True), None
        except Exception as e:  # an observation, never a crash of the workload
            return None, "%s: %s" % (type(e).__name__, e)

    def observe_entry2(self, text, ph):
        from hed.models.hed_string import HedString
        try:
            return codes(HedString(text, self.schema, def_dict=self.dd).validate(allow_placeholders=ph), True), None
        except Exception as e:
            return None, "%s: %s" % (type(e).__name__, e)


# =====================================================================================================
# generator side (schema model only)
# =====================================================================================================
def render(items):
    return ",".join(x if isinstance(x, str) else "(" + render(x) + ")" for x in items)


def case_variants(text, i):
    """letter-case respellings of a tag name (HED tag names are case-insensitive)"""
    return [text.lower(), text.upper(), text.swapcase()][i % 3]


class Vocab:
    """what the specification allows for the tags of one schema version, from the XML only"""

    def __init__(self, model, quick, rng):
        self.m = model
        self.quick = quick
        self.rng = rng
        m = model
        for w in (EXT_WORD, EXT_WORD2, UNKNOWN_WORD, DEF_PLAIN, DEF_VALUE):
            assert w.casefold() not in m.all_names, w
        self.special = {n.name for n in m.nodes if n.has("tagGroup") or n.has("topLevelTagGroup")}
        self.special |= {"Def", "Def-expand", "Definition"}
        self.plain_nodes = [n for n in m.nodes if m.usable(n) and n.name not in self.special
                            and not n.has("requireChild") and not n.has("unique") and not n.has("required")]
        # sub-sampled SI modifiers for the quick tier
        if quick:
            self.mods = (m.name_modifiers[2:3] + m.name_modifiers[-4:-3], m.symbol_modifiers[2:3] + m.symbol_modifiers[13:14])
        else:
            self.mods = None

    # ---- values -----------------------------------------------------------------------
    def good_values(self, node):
        vcs = node.value_classes
        out = []
        if "numericClass" in vcs:
            out += ["3", "0.5", "-7", "2e3"] + ([] if self.quick else ["1.5E-2", "+4", "10"])
        if "nameClass" in vcs or "labelClass" in vcs:
            out += ["abc", "x_y-1"] + ([] if self.quick else ["A1"])
        if "textClass" in vcs:
            out += ["Some text", "a-b.c"]
        if "dateTimeClass" in vcs:
            out += ["2000-01-01T00:00:00", "2021-06-15T12:30:45"]
        if not vcs:
            out += ["abc", "3"]
        return out

    def bad_values(self, node):
        """lexically impossible values of the value class -> VALUE_INVALID"""
        vcs = node.value_classes
        if vcs == ["numericClass"]:
            return ["abc", "3e", "1..2", "3x"]
        if vcs == ["dateTimeClass"]:
            return ["notadate", "2000-01-01T"]
        return []

    def good_units(self, node):
        out = []
        for uc in node.unit_classes:
            out += self.m.valid_units(uc, self.mods)
        return out

    def bad_units(self, node):
        """unit-like tokens that the specification does not accept for any unit class of the node"""
        m = self.m
        ok = m.all_valid_units(node.unit_classes)
        okfold = {u.casefold() for u in ok}
        cand = []
        for uc, units in m.unit_classes.items():
            if uc not in node.unit_classes:
                cand += [u.name for u in units if " " not in u.name and not u.prefix]
        for uc in node.unit_classes:
            for u in m.unit_classes[uc]:
                if u.deprecated or u.prefix or " " in u.name:
                    continue
                if u.symbol:
                    cand += [m.name_modifiers[2] + u.name, u.name + "s", u.name.swapcase()]
                    if not u.si:
                        cand.append(m.symbol_modifiers[5] + u.name)
                else:
                    cand += [m.symbol_modifiers[5] + u.name]
                    if not u.si:
                        cand.append(m.name_modifiers[2] + u.name)
        cand += ["xyz", "qq"]
        symbol_swaps = {u.name.swapcase() for uc in node.unit_classes for u in m.unit_classes[uc] if u.symbol}
        seen, out = set(), []
        for c in cand:
            # unit NAMES are not case-sensitive, unit SYMBOLS are: keep a candidate only if it differs from every accepted
            # spelling even ignoring case, or if it is the case-swap of a symbol
            if c in ok or c in seen or (c.casefold() in okfold and c not in symbol_swaps):
                continue
            seen.add(c)
            out.append(c)
        return out


def valued(form, value, unit=None):
    return form + "/" + value + ((" " + unit) if unit else "")


CONTEXTS = 4
# (copy 1, a different value, copy 2): in code-point order the middle one lies between the two copies, ignoring case it does not
VALUE_CASE_TRIPLES = (("ABC", "Abd", "abc"), ("Run", "Stop", "run"))


def in_context(text, i, c1, c2):
    """a small rotating rule-conforming context around one plain item"""
    k = i % CONTEXTS
    if k == 0:
        return text
    if k == 1:
        return "(" + text + ")"
    if k == 2:
        return c1 + ",(" + text + ",(" + c2 + "))"
    return "(" + c1 + "," + text + ")," + c2


# =====================================================================================================
# checking helpers
# =====================================================================================================
class Runner:
    def __init__(self, w, env, model):
        self.w = w
        self.env = env
        self.model = model
        self.n = 0
        self.counts = {}

    def _obs(self, text, ph, clause, rule):
        self.n += 1
        self.counts[clause] = self.counts.get(clause, 0) + 1
        inp = {"schema": self.env.version, "text": text, "allow_placeholders": ph, "rule": rule,
               "definitions": self.env_defs}
        errs, exc = self.env.observe(text, ph)
        self.w.case(key=(self.env.version, text, ph), nontrivial=True,
                    sample={"schema": self.env.version, "text": text, "ph": ph, "rule": rule, "clause": clause})
        if exc is not None:
            self.w.fail(CL_ENTRY, inp, observed=exc, expected="no exception")
            return None, inp
        if self.n % 7 == 0:
            errs2, exc2 = self.env.observe_entry2(text, ph)
            self.w.check(exc2 is None and errs2 == errs, CL_ENTRY, inp, observed={"HedString.validate": errs2 or exc2,
                         "HedValidator.validate": errs}, expected="equal")
        return errs, inp

    valid_clause = None     # when set, replaces CL_VALID (used for one narrow family of tags)
    bcount = 0

    def writings(self, text, clause):
        """the text itself, then writings of it with blanks added around its delimiters (blanks next to ',', '(' and ')'
        and at both ends carry no meaning): all patterns for the delimiter clauses, one rotating pattern for every
        third case of the other clauses"""
        yield text, ""
        if clause in (CL_EMPTY, CL_PARENS_D1):
            pats = range(N_BLANK_PATTERNS)
        else:
            self.bcount += 1
            if self.bcount % 3:
                return
            pats = [(self.bcount // 3) % N_BLANK_PATTERNS]
        seen = {text}
        for p in pats:
            v = blank_variant(text, p)
            if v not in seen:
                seen.add(v)
                yield v, " +blanks[%d]" % p

    def valid(self, text, clause=CL_VALID, phs=(False, True), rule="valid"):
        if clause == CL_VALID and self.valid_clause:
            clause = self.valid_clause
        for txt, tag in self.writings(text, clause):
            for ph in phs:
                errs, inp = self._obs(txt, ph, clause, rule + tag)
                if errs is not None:
                    self.w.check(errs == [], clause, inp, observed=errs, expected=[])

    def invalid(self, text, rule, clause, phs=(False, True), any_of=None, also=None):
        want = [CODE[rule]] if any_of is None else [CODE[r] for r in any_of]
        for txt, tag in self.writings(text, clause):
            for ph in phs:
                errs, inp = self._obs(txt, ph, clause, rule + tag)
                if errs is not None:
                    exp = {"contains_one_of": want}
                    if also:
                        exp["contains"] = CODE[also]
                    self.w.check(any(c in errs for c in want) and (not also or CODE[also] in errs), clause, inp,
                                 observed=errs, expected=exp)


N_BLANK_PATTERNS = 6


def blank_variant(text, pattern):
    """the same annotation with blanks added next to its delimiters.  0: after every delimiter, 1: before every
    delimiter, 2: on both sides and at both ends, 3: two / three blanks on both sides, 4: ONLY between two adjacent
    delimiters and before a leading / after a trailing delimiter (the places where an empty tag sits),
    5: like 4 with two blanks, plus a leading and a trailing blank"""
    toks = tokenize(text)
    out = []
    for k, (t, _) in enumerate(toks):
        if t not in ("(", ")", ","):
            out.append(t)
            continue
        prev_delim = k > 0 and toks[k - 1][0] in ("(", ")", ",")
        if pattern == 0:
            out.append(t + " ")
        elif pattern == 1:
            out.append(" " + t)
        elif pattern == 2:
            out.append(" " + t + " ")
        elif pattern == 3:
            out.append("  " + t + "   ")
        else:
            gap = " " if pattern == 4 else "  "
            out.append((gap if (prev_delim or k == 0) else "") + t + (gap if k == len(toks) - 1 else ""))
    body = "".join(out)
    if pattern in (2, 5):
        body = " " + body + " "
    return body


# =====================================================================================================
# part 1: vocabulary sweep
# =====================================================================================================
def pick_defs(model):
    """two declared definitions whose contents are written in canonical (sorted short-form) order"""
    names = [n for n in ("Blue", "Red", "Green", "Square", "Circle") if n.casefold() in model.all_names]
    a, b = sorted(names[:2])
    vnode = None
    for n in model.nodes:
        if n.takes_value and n.unit_classes and n.value_classes == ["numericClass"] and model.usable(n) \
                and not n.attrs.keys() & {"topLevelTagGroup", "tagGroup", "requireChild"}:
            vnode = n
            break
    unit = model.default_unit[vnode.unit_classes[0]]
    first, second = sorted([vnode.name + "/# " + unit, names[2]])
    return {
        "plain": (a, b),
        "value_node": vnode, "value_unit": unit, "value_other": names[2],
        "strings": ["(Definition/%s,(%s,%s))" % (DEF_PLAIN, a, b),
                    "(Definition/%s/#,(%s,%s))" % (DEF_VALUE, first, second)],
        "value_members": (first, second),
    }


def special_templates(model, defs, node, form):
    """rule-conforming structures for a tag with tagGroup / topLevelTagGroup / requireChild attributes, and the
    misplaced variants (same content, wrong level).  -> (valid texts, [(text, rule)] invalid)"""
    a, b = defs["plain"]
    name = node.name
    good, bad = [], []
    has_top = {n.name for n in model.nodes if n.has("topLevelTagGroup")}
    if name == "Def":
        good += [form + "/" + DEF_PLAIN, "(" + form + "/" + DEF_PLAIN + "," + a + ")", form + "/" + DEF_VALUE + "/3"]
        bad += [(form, "child"), (form + "/Cundeclared", "def"), ("(Square,%s/%s/3)" % (form, DEF_PLAIN), "def"),
                ("Square,(%s/%s)" % (form, DEF_VALUE), "def"),
                ("%s/%s,Square,%s/%s" % (form, DEF_PLAIN, "Def", DEF_PLAIN), "repeat"),
                ("(DEF/%s,(Square),%s/%s)" % (DEF_PLAIN, form, DEF_PLAIN), "repeat")]
    elif name == "Def-expand":
        body = "%s/%s,(%s,%s)" % (form, DEF_PLAIN, a, b)
        good += ["(" + body + ")", "Green,((" + body + "),Square)"]
        bad += [(body, "group"), ("(" + form + ",(" + a + "))", "child"),
                ("(%s/Cundeclared,(%s,%s))" % (form, a, b), "defexpand"), ("(%s/%s,(%s,Ellipse))" % (form, DEF_PLAIN, a), "defexpand"),
                ("Square,((%s/%s/3,(%s,%s)))" % (form, DEF_PLAIN, a, b), "defexpand")]
    elif name == "Definition":
        # definitions are not allowed in annotations that are validated as event strings
        bad += [("(" + form + "/Cnewdef,(" + a + "))", "definition"), ("((" + form + "/Cnewdef,(" + a + ")))", "definition"),
                (form + "/Cnewdef," + a, "definition")]
    elif name in ("Onset", "Inset", "Offset"):
        d = "Def/" + DEF_PLAIN
        good += ["(%s,%s)" % (form, d), "(%s,%s)" % (d, form)]
        if name != "Offset":
            good += ["(%s,%s,(%s,%s))" % (form, d, a, b)]
        if "Delay" in has_top:
            good += ["(Delay/2 s,%s,%s)" % (form, d)]
        bad += [("%s,%s" % (form, d), "group"), ("((%s,%s))" % (form, d), "group"),
                ("(%s,(%s,%s))" % (a, form, d), "group")]
    elif name in ("Duration", "Delay") and node.has("topLevelTagGroup"):
        good += ["(%s/3 s,(%s))" % (form, a), "(%s/0.5 ms,(%s,(%s)))" % (form, a, b), "%s,(%s/3 s,(%s))" % (b, form, a)]
        other = "Delay" if name == "Duration" else "Duration"
        if other in has_top:
            good += ["(%s/3 s,%s/2 s,(%s))" % (form, other, a)]
        bad += [("%s/3 s,(%s)" % (form, a), "group"), ("((%s/3 s,(%s)))" % (form, a), "group")]
        if node.has("requireChild"):
            bad += [("(%s,(%s))" % (form, a), "child")]
    elif name == "Event-context":
        good += ["(%s,%s)" % (form, a), "(%s,(%s),%s)" % (form, a, b), "%s,(%s,%s)" % (a, b, form)]
        bad += [("%s,%s" % (form, a), "group"), ("((%s,%s))" % (form, a), "group"),
                ("(%s,%s),(%s,%s)" % (form, a, form, b), "unique"),
                # the second copy in another spelling, with siblings between the two
                ("(%s,%s),Square,(Circle),(Event-context,%s)" % (form, a, b), "unique"),
                ("(EVENT-CONTEXT,%s),(Square,(Circle)),(%s,%s)" % (b, form, a), "unique"),
                ("(%s,%s),(Organizational-property/Event-context,%s)" % (form, a, b), "unique")]
    else:
        return None
    return good, bad


def part_vocabulary(w, run, model, vocab, defs, chunk=0, nchunks=1):
    m = model
    quick = w.quick
    c1, c2 = "Square", "Circle"
    plain_for_wrong_parent = [n for n in vocab.plain_nodes if not n.takes_value]
    idx = 0
    before = run.n
    for ni, node in enumerate(m.nodes):
        idx = ni * 16
        if ni % nchunks != chunk or not m.usable(node):
            continue
        forms = node.forms()
        spellings = list(forms)
        spellings.append(case_variants(forms[0], idx))
        if len(forms) > 1:
            spellings.append(case_variants(forms[-1], idx + 1))
        ctx_c1 = c1 if node.name not in (c1, c2) else "Triangle"
        ctx_c2 = c2 if node.name not in (c1, c2) else "Ellipse"
        special = special_templates(m, defs, node, forms[0]) if node.name in vocab.special else None
        # Duration / Delay carry no grouping attribute before 8.2.0: by the schema they are ordinary value tags there
        run.valid_clause = CL_VALID_DURATION_OLD if node.name in ("Duration", "Delay") and special is None else None
        for si, sp in enumerate(spellings):
            idx += 1
            full_mut = (not quick) or si in (0, len(forms) - 1) or si == (idx % len(spellings))
            if special is not None:
                good, bad = special_templates(m, defs, node, sp)
                for t in good:
                    run.valid(t)
                temporal = node.name in ("Onset", "Offset", "Inset", "Duration", "Delay")
                for t, rule in bad:
                    cl = {"group": CL_GROUP, "child": CL_CHILD, "unique": CL_UNIQUE, "definition": CL_GROUP, "def": CL_DEF,
                          "defexpand": CL_DEFX, "repeat": CL_REPEAT}[rule]
                    # a misplaced temporal tag is also a TEMPORAL_TAG_ERROR by the specification
                    run.invalid(t, rule, cl, also="temporal" if (temporal and rule == "group") else None)
                continue
            # ---- tags that need a child (older schemas: Label, ID, Description ...) ------------------
            if node.has("requireChild"):
                run.invalid(in_context(sp, idx, ctx_c1, ctx_c2), "child", CL_CHILD)
            else:
                run.valid(in_context(sp, idx, ctx_c1, ctx_c2))
            # ---- value tags ----------------------------------------------------------------------------
            if node.takes_value:
                gvals = vocab.good_values(node)
                gunits = vocab.good_units(node)
                if full_mut:
                    pairs = [(v, None) for v in gvals] + [(gvals[i % len(gvals)], u) for i, u in enumerate(gunits)]
                else:
                    pairs = [(gvals[idx % len(gvals)], gunits[idx % len(gunits)] if gunits else None)]
                for j, (v, u) in enumerate(pairs):
                    run.valid(in_context(valued(sp, v, u), idx + j, ctx_c1, ctx_c2))
                if m.version >= "8.3.0" and "textClass" in node.value_classes and full_mut:
                    run.valid(in_context(valued(sp, "uni çode"), idx, ctx_c1, ctx_c2))
                # placeholder: fine when placeholders are allowed, stray otherwise
                ph_text = valued(sp, "#", gunits[idx % len(gunits)] if gunits else None)
                run.valid(in_context(ph_text, idx, ctx_c1, ctx_c2), phs=(True,), rule="valid-placeholder")
                run.invalid(in_context(ph_text, idx, ctx_c1, ctx_c2), "placeholder", CL_PLACEHOLDER, phs=(False,))
                if full_mut:
                    gu = gunits[idx % len(gunits)] if gunits else None
                    for v in vocab.bad_values(node):
                        run.invalid(in_context(valued(sp, v, gu), idx, ctx_c1, ctx_c2), "value", CL_VALUE)
                    if node.value_classes == ["dateTimeClass"]:
                        run.invalid(valued(sp, "2000-13-45T99:00:00"), "value", CL_VALUE_DT)
                    if node.unit_classes:
                        bu = vocab.bad_units(node)
                        for u in (bu if not quick else [bu[(idx + k) % len(bu)] for k in range(4)]):
                            run.invalid(in_context(valued(sp, "3", u), idx, ctx_c1, ctx_c2), "unit", CL_UNIT)
                        run.invalid(valued(sp, "3", "xyz " + gunits[idx % len(gunits)]), "unit", CL_UNIT_EXTRA)
                    if "nameClass" in node.value_classes and len(node.value_classes) == 1:
                        for v in ("a$c", "a%b"):
                            run.invalid(in_context(valued(sp, v), idx, ctx_c1, ctx_c2), "char", CL_CHAR)
                    v0 = gvals[0]
                    other = forms[(si + 1) % len(forms)] if si < len(forms) else forms[0]
                    run.invalid(valued(sp, v0) + "," + valued(other, v0), "repeat", CL_REPEAT)
            # ---- extensions ----------------------------------------------------------------------------
            elif node.ext_allowed:
                run.valid(in_context(sp + "/" + EXT_WORD, idx, ctx_c1, ctx_c2))
                if full_mut:
                    run.valid(in_context(sp + "/" + EXT_WORD + "/" + EXT_WORD2, idx + 1, ctx_c1, ctx_c2))
                    term = plain_for_wrong_parent[(idx * 7) % len(plain_for_wrong_parent)]
                    if term.path[:len(node.path)] != node.path and term is not node:
                        # an extension that is itself a schema term
                        run.invalid(sp + "/" + term.name, "extension", CL_EXT)
                        run.invalid(sp + "/" + EXT_WORD + "/" + term.name, "extension", CL_EXT)
                    run.invalid(sp + "/#", "placeholder", CL_PLACEHOLDER, phs=(False,))
                    if si == 0:
                        run.invalid(sp + "/#", "placeholder", CL_PLACEHOLDER_EXT, phs=(True,))
            else:
                run.invalid(in_context(sp + "/" + EXT_WORD, idx, ctx_c1, ctx_c2), "extension", CL_EXT)
                if full_mut:
                    run.invalid(sp + "/#", "placeholder", CL_PLACEHOLDER)
            if not full_mut:
                continue
            # ---- wrong parent: a partial path must be a contiguous suffix of the real path ----------------
            if len(node.path) >= 2:
                wp = plain_for_wrong_parent[(idx * 13) % len(plain_for_wrong_parent)]
                if wp is not node.parent and wp is not node:
                    tail = "/".join(node.path[len(node.path) - 1:])
                    run.invalid(wp.name + "/" + tail, "unknown", CL_UNKNOWN, any_of=("unknown", "extension"))
                if len(node.path) >= 3:
                    run.invalid(node.path[-3] + "/" + node.name, "unknown", CL_UNKNOWN, any_of=("unknown", "extension"))
            # ---- forbidden character inside the name -------------------------------------------------
            if si < len(forms):
                first = sp.split("/")[0]
                pos = 1 + (idx % max(1, len(first) - 1)) if len(first) > 1 else 1
                ch = "$%@!&="[idx % 6]
                run.invalid(in_context(sp[:pos] + ch + sp[pos:], idx, ctx_c1, ctx_c2), "char", CL_CHAR)
            # ---- repeated with values / extensions that differ in letter case only, next to a sibling whose text lies
            #      between the two copies in code-point order (tag equality ignores letter case everywhere)
            lettered = node.takes_value and not node.unit_classes and \
                all(vc in ("nameClass", "textClass", "labelClass") for vc in node.value_classes)
            if lettered or (not node.takes_value and node.ext_allowed and si == 0):
                other = forms[(si + 1) % len(forms)] if si < len(forms) else forms[0]
                for ti, (v1, mid, v2) in enumerate(VALUE_CASE_TRIPLES):
                    if not lettered:
                        v1, mid, v2 = "Qx" + v1, "Qx" + mid, "Qx" + v2      # extension names that are no schema terms
                    t1, tm, t2 = sp + "/" + v1, node.name + "/" + mid, other + "/" + v2
                    perms = [(t1, tm, t2), (t1, t2, tm), (tm, t1, t2), (tm, t2, t1), (t2, t1, tm), (t2, tm, t1)]
                    if not lettered or quick:
                        perms = [perms[(idx + ti + k) % 6] for k in range(3)]
                    for pi, perm in enumerate(perms):
                        k = (idx + pi + ti) % 5
                        if k == 0:
                            txt = ",".join(perm)
                        elif k == 1:
                            txt = "(" + ",".join(perm) + ")," + ctx_c1
                        elif k == 2:
                            txt = "(%s,%s,%s,%s)" % (perm[0], perm[1], ctx_c1, perm[2])
                        elif k == 3:
                            txt = "%s,((%s,%s,(%s),%s))" % (ctx_c1, perm[0], perm[1], ctx_c2, perm[2])
                        else:       # the copies as members of repeated groups
                            txt = "(%s,%s),(%s,%s),(%s,%s)" % (ctx_c1, perm[0], perm[1], ctx_c1, ctx_c1, perm[2])
                        run.invalid(txt, "repeat", CL_REPEAT)
                    run.invalid(t1 + "," + t2 if idx % 2 else "(" + t2 + "," + ctx_c1 + "," + t1 + ")", "repeat", CL_REPEAT)
            # ---- repeated in another spelling ----------------------------------------------------------
            if not node.takes_value and not node.has("requireChild"):
                other = spellings[(si + 1) % len(spellings)]
                k = idx % 3
                if k == 0:
                    run.invalid(sp + "," + other, "repeat", CL_REPEAT)
                elif k == 1:
                    run.invalid("(" + sp + "," + ctx_c1 + "," + other + ")", "repeat", CL_REPEAT)
                else:
                    run.invalid(ctx_c1 + ",(" + ctx_c2 + ",(" + other + "," + sp + "))", "repeat", CL_REPEAT)
    run.valid_clause = None
    # unknown words in every context
    for i in range(CONTEXTS if chunk == 0 else 0):
        run.invalid(in_context(UNKNOWN_WORD, i, c1, c2), "unknown", CL_UNKNOWN)
        run.invalid(in_context(UNKNOWN_WORD + "/" + EXT_WORD, i, c1, c2), "unknown", CL_UNKNOWN)
        run.invalid(in_context(UNKNOWN_WORD + "/Red", i, c1, c2), "unknown", CL_UNKNOWN)
    return run.n - before


# =====================================================================================================
# part 2: structural grammar
# =====================================================================================================
def grammar_bound(quick, version):
    """(max leaves, max nesting depth) of the forest shapes"""
    return (4, 2) if (not quick and version == "8.3.0") else (3, 2)


def forests(n, d, _memo={}):
    """all ordered forests with n leaves, nesting depth <= d; leaf = None, group = tuple of items"""
    key = (n, d)
    if key in _memo:
        return _memo[key]
    if n == 0:
        res = [()]
    else:
        res = []
        for k in range(1, n + 1):
            firsts = [None] if k == 1 else []
            if d > 0:
                firsts += [("g",) + sub for sub in forests(k, d - 1)]
            for f in firsts:
                for rest in forests(n - k, d):
                    res.append((f,) + rest)
    _memo[key] = res
    return res


def fill(shape, leaves):
    it = iter(leaves)

    def rec(items):
        out = []
        for x in items:
            if x is None:
                out.append(next(it))
            else:
                out.append(rec(x[1:]))
        return out
    return rec(shape)


def all_lists(tree):
    """every sibling list of the tree with its depth (0 = top level): (list, depth)"""
    out = [(tree, 0)]

    def rec(items, depth):
        for x in items:
            if isinstance(x, list):
                out.append((x, depth + 1))
                rec(x, depth + 1)
    rec(tree, 0)
    return out


def replace_in(tree, target_list, new_list):
    """copy of tree with the sibling list `target_list` (by identity) replaced"""
    if tree is target_list:
        return new_list
    return [replace_in(x, target_list, new_list) if isinstance(x, list) else x for x in tree]


def canon(item):
    """order-free canonical text of an item (short-form atoms are used in this part, so text equality = tag equality)"""
    if isinstance(item, str):
        return item.casefold()
    return "(" + ",".join(sorted(canon(x) for x in item)) + ")"


SHORT_OF = {}     # atom text -> its short-form text (filled by build_atoms)


def written(item):
    """short-form text of an item as written (member order kept)"""
    return SHORT_OF.get(item, item) if isinstance(item, str) else "(" + ",".join(written(x) for x in item) + ")"


def d2_model_count(tree, text_of=None):
    """MODEL OF DEFECT D2, used only to choose the LABEL of a case (never the expected result): the number of repeats
    that an adjacent-duplicates scan finds when the siblings of every list are ordered by their text AS WRITTEN (tags
    first, then groups) instead of by a canonical form.  0 for a tree that does hold two equal siblings means: this is
    the region in which D2 was seen (copies written in different member order that such an ordering fails to bring
    together)."""
    text_of = text_of or (lambda x: SHORT_OF.get(x, x))

    def wr(x):
        return "(" + ",".join(wr(y) for y in x) + ")" if isinstance(x, list) else text_of(x)

    def ps(items):
        tags = sorted((x for x in items if not isinstance(x, list)), key=text_of)
        groups = sorted((x for x in items if isinstance(x, list)), key=wr)
        return [text_of(x).casefold() for x in tags] + [ps(x) for x in groups]

    def scan(lst):
        n = 0
        prev = None
        for k, x in enumerate(lst):
            if k and x == prev:
                n += 1
            if isinstance(x, list):
                n += scan(x)
            prev = x
        return n
    return scan(ps(tree))


def respellings(model, atom):
    """other writings of the same tag: full path, upper-case name, and -- for a lettered value or an extension -- the value
    in swapped case.  Registers their short form in SHORT_OF (used by the D2 labelling model)."""
    if atom in SHORT_OF and "/" not in SHORT_OF[atom]:
        node, rest, name = model.node(SHORT_OF[atom]), "", atom
    else:
        name, slash, rest = atom.partition("/")
        if name.casefold() not in model.all_names:
            return []
        node, rest = model.node(name), slash + rest
    short = node.name + rest
    out = [node.long + rest, name.upper() + rest]
    if rest and name != "Def" and not node.unit_classes and rest[1:2].isalpha():
        out.append(node.name + rest.swapcase())
    out = [o for o in out if o != atom]
    for o in out:
        SHORT_OF[o] = short
    return out


def respelled_group(model, group, k):
    """copy of a group in which every tag is written in another spelling (rotating choice)"""
    out = []
    for x in group:
        if isinstance(x, list):
            out.append(respelled_group(model, x, k + 1))
        else:
            alts = respellings(model, x)
            out.append(alts[k % len(alts)] if alts else x)
            k += 1
    return out


def build_atoms(model, vocab, defs, rng, quick):
    m = model
    pool_plain = [n for n in vocab.plain_nodes if not n.takes_value and n.name not in defs["plain"]
                  and n.name != defs["value_other"]]
    pool_val = [n for n in vocab.plain_nodes if n.takes_value and n.value_classes and n.name not in ("Duration", "Delay")]
    k = 10 if quick else 30
    plain = rng.sample(pool_plain, k)
    cand = [(n.name, n.name) for n in plain]                                           # short form
    for n in rng.sample(pool_plain, 4):                                                # partial path
        f = n.forms()[min(1, len(n.forms()) - 1)]
        SHORT_OF[f] = n.name
        cand.append((f, n.name))
    cand += [(n.name + "/" + EXT_WORD, n.name) for n in rng.sample([x for x in pool_plain if x.ext_allowed], 3)]
    for n in rng.sample(pool_val, 5 if quick else 12):
        v = vocab.good_values(n)[0]
        us = vocab.good_units(n)
        cand.append((valued(n.name, v, us[rng.randrange(len(us))] if us else None), n.name))
    cand.append(("Def/" + DEF_PLAIN, "def:plain"))
    cand.append(("Def/" + DEF_VALUE + "/3", "def:value"))
    # one atom per schema node, so that no repeat is generated by accident
    seen, out = set(), []
    for text, key in cand:
        if key not in seen:
            seen.add(key)
            out.append(text)
    # bad atoms: (text, rule, clause, phs)
    bad = []
    noext = [n for n in m.nodes if m.usable(n) and not n.ext_allowed and not n.takes_value
             and n.name not in vocab.special]
    valn = [n for n in pool_val if n.unit_classes and n.value_classes == ["numericClass"]]
    rq = [n for n in m.nodes if n.has("requireChild") and n.name not in vocab.special and m.usable(n)]
    bad.append((UNKNOWN_WORD, "unknown", CL_UNKNOWN, (False, True)))
    bad.append((noext[rng.randrange(len(noext))].name + "/" + EXT_WORD, "extension", CL_EXT, (False, True)))
    bad.append((plain[0].name + "/" + plain[1].name, "extension", CL_EXT, (False, True))
               if plain[0].ext_allowed else (noext[0].name + "/" + EXT_WORD, "extension", CL_EXT, (False, True)))
    bad.append(("Def", "child", CL_CHILD, (False, True)))
    if rq:
        bad.append((rq[rng.randrange(len(rq))].name, "child", CL_CHILD, (False, True)))
    vn = valn[rng.randrange(len(valn))]
    bu = vocab.bad_units(vn)
    bad.append((valued(vn.name, "3", bu[rng.randrange(len(bu))]), "unit", CL_UNIT, (False, True)))
    bad.append((valued(vn.name, "abc", vocab.good_units(vn)[0]), "value", CL_VALUE, (False, True)))
    bad.append((valued(vn.name, "#", vocab.good_units(vn)[0]), "placeholder", CL_PLACEHOLDER, (False,)))
    bad.append((noext[rng.randrange(len(noext))].name + "/#", "placeholder", CL_PLACEHOLDER, (False, True)))
    nm = plain[2].name
    bad.append((nm[:1] + "$" + nm[1:], "char", CL_CHAR, (False, True)))
    bad.append(("Def/Cundeclared", "def", CL_DEF, (False, True)))
    bad.append(("Def/" + DEF_PLAIN + "/3", "def", CL_DEF, (False, True)))
    bad.append(("Def/" + DEF_VALUE, "def", CL_DEF, (False, True)))
    bad.append(("Def/" + DEF_VALUE + "/abc", "def", CL_DEF, (False, True)))
    return out, bad


def special_groups(model, defs):
    """(kind, group as tree, list of (mutated group-or-items, rule, clause)) for the special constructs"""
    a, b = defs["plain"]
    v1, v2 = defs["value_members"]
    has_top = {n.name for n in model.nodes if n.has("topLevelTagGroup")}
    out = []
    dx = ["Def-expand/" + DEF_PLAIN, [a, b]]
    dxv = ["Def-expand/" + DEF_VALUE + "/3", [v1.replace("#", "3"), v2.replace("#", "3")]]
    out.append(("def-expand", dx, False))
    out.append(("def-expand-value", dxv, False))
    out.append(("onset", ["Onset", "Def/" + DEF_PLAIN], True))
    out.append(("onset+group", ["Def/" + DEF_VALUE + "/3", "Onset", ["Green", "Triangle"]], True))
    out.append(("onset+defexpand", ["Onset", dx, ["Green"]], True))
    out.append(("offset", ["Def/" + DEF_PLAIN, "Offset"], True))
    if "Inset" in has_top:
        out.append(("inset", ["Inset", "Def/" + DEF_PLAIN, ["Green"]], True))
    if "Duration" in has_top:
        out.append(("duration", ["Duration/3 s", ["Green", ["Triangle"]]], True))
        out.append(("duration+delay", ["Delay/2 s", "Duration/3 s", ["Green"]], True))
        out.append(("delay+onset", ["Delay/2 s", "Onset", "Def/" + DEF_PLAIN], True))
    out.append(("event-context", ["Event-context", "Green", ["Triangle"]], True))
    return out


def part_grammar(w, run, model, vocab, defs, chunk=0, nchunks=1):
    rng = w.rng
    quick = w.quick
    atoms, bad_atoms = build_atoms(model, vocab, defs, rng, quick)
    specials = special_groups(model, defs)
    a, b = defs["plain"]
    v1, v2 = defs["value_members"]
    max_n, max_d = grammar_bound(quick, model.version)
    fills = 1
    before = run.n
    shapes = []
    for n in range(1, max_n + 1):
        shapes += forests(n, max_d)
    bi = 0
    ci = 0
    ri = 0
    free_atoms = [x for x in atoms if x not in ("Green", "Triangle")]
    for si, shape in enumerate(shapes):
        if si % nchunks != chunk:
            continue
        nleaf = sum(1 for _ in _leaves(shape))
        for f in range(fills):
            leaves = rng.sample(free_atoms, nleaf)
            tree = fill(shape, leaves)
            # optional special group at a rotating top-level position
            sp = None
            if (si + f) % 2 == 0:
                sp = specials[(si // 2 + f) % len(specials)]
                pos = (si + f) % (len(tree) + 1)
                if sp[2]:      # must be a top-level group
                    tree = tree[:pos] + [sp[1]] + tree[pos:]
                else:          # def-expand group: anywhere
                    lists = all_lists(tree)
                    tl, _ = lists[(si + f) % len(lists)]
                    p2 = (si + f) % (len(tl) + 1)
                    tree = replace_in(tree, tl, tl[:p2] + [sp[1]] + tl[p2:])
            text = render(tree)
            run.valid(text)
            lists = all_lists(tree)

            # ---- leaf replaced by a bad atom (every leaf position, rotating kind of bad atom) ---------------
            for lst, depth in lists:
                for i, x in enumerate(lst):
                    if not isinstance(x, str) or _is_special_member(x):
                        continue
                    reps = 1 if quick else 2
                    for _ in range(reps):
                        btxt, rule, clause, phs = bad_atoms[bi % len(bad_atoms)]
                        bi += 1
                        run.invalid(render(replace_in(tree, lst, lst[:i] + [btxt] + lst[i + 1:])), rule, clause, phs=phs)

            # ---- repeated tag: copy of leaf i inserted at every sibling position ---------------------------
            for lst, depth in lists:
                if _in_special(tree, lst):
                    continue
                for i, x in enumerate(lst):
                    if isinstance(x, str) and not _is_special_member(x):
                        copies = [x] + respellings(model, x)
                        for p in range(len(lst) + 1):
                            if quick and (p + bi) % 2:
                                continue
                            ri += 1
                            run.invalid(render(replace_in(tree, lst, lst[:p] + [copies[ri % len(copies)]] + lst[p:])),
                                        "repeat", CL_REPEAT)
                    elif isinstance(x, list) and not _is_special_group(x):
                        # repeated group, members in every order (reversed / rotated), at every sibling position
                        variants = [list(x), list(reversed(x))] + ([x[1:] + x[:1]] if len(x) > 2 else [])
                        ri += 1
                        variants.append(respelled_group(model, list(reversed(x)), ri))     # other spellings, other order
                        for vi, var in enumerate(variants):
                            for p in range(len(lst) + 1):
                                mutated = replace_in(tree, lst, lst[:p] + [var] + lst[p:])
                                cl = CL_REPEAT if d2_model_count(mutated) else CL_REPEAT_D2
                                run.invalid(render(mutated), "repeat", cl)
                            # ... and separated from the original by a further group (where D2 was seen)
                            for sep in (["Ellipse"], ["Item"], ["Ellipse", "Item"]):
                                for new in (lst[:i] + [var, sep, x] + lst[i + 1:], lst[:i] + [x, sep, var] + lst[i + 1:]):
                                    mutated = replace_in(tree, lst, new)
                                    cl = CL_REPEAT if d2_model_count(mutated) else CL_REPEAT_D2
                                    run.invalid(render(mutated), "repeat", cl)

            # ---- special group misplaced / altered ------------------------------------------------------------
            if sp is not None:
                kind, grp, top = sp
                for lst, depth in lists:
                    for i, x in enumerate(lst):
                        if x is not grp:
                            continue
                        if top:
                            # one level too deep, and unwrapped into the parent list
                            twin = None if kind == "event-context" else "temporal"
                            run.invalid(render(replace_in(tree, lst, lst[:i] + [[grp]] + lst[i + 1:])), "group", CL_GROUP, also=twin)
                            # ... two levels too deep, and inside an ordinary group next to other members
                            run.invalid(render(replace_in(tree, lst, lst[:i] + [[[grp]]] + lst[i + 1:])), "group", CL_GROUP, also=twin)
                            run.invalid(render(replace_in(tree, lst, lst[:i] + [["Ellipse", grp, ["Item"]]] + lst[i + 1:])),
                                        "group", CL_GROUP, also=twin)
                            run.invalid(render(replace_in(tree, lst, lst[:i] + list(grp) + lst[i + 1:])), "group", CL_GROUP, also=twin)
                            if kind == "event-context":
                                for name in ("Event-context", "EVENT-CONTEXT", "Property/Organizational-property/Event-context"):
                                    dup = ["Ellipse", name]
                                    for p in (0, len(lst)):
                                        run.invalid(render(replace_in(tree, lst, lst[:p] + [dup] + lst[p:])), "unique", CL_UNIQUE)
                        else:
                            if depth == 0:
                                run.invalid(render(replace_in(tree, lst, lst[:i] + list(grp) + lst[i + 1:])), "group", CL_GROUP)
                            for alt in _defexpand_alterations(kind, grp, a, b, v1, v2):
                                run.invalid(render(replace_in(tree, lst, lst[:i] + [alt] + lst[i + 1:])), "defexpand", CL_DEFX)
                            # same members, other order: still the declared content
                            perm = [grp[0], list(reversed(grp[1]))]
                            run.valid(render(replace_in(tree, lst, lst[:i] + [perm] + lst[i + 1:])), clause=CL_VALID_DEFX_ORDER)
                            perm2 = [list(grp[1]), grp[0]]
                            run.valid(render(replace_in(tree, lst, lst[:i] + [perm2] + lst[i + 1:])), clause=CL_VALID_DEFX_ORDER)

            # ---- delimiters and characters on the rendered text ------------------------------------------------
            toks = tokenize(text)
            bounds = token_bounds(toks)
            dx_span = (0, 0)
            if "(Def-expand/" in text:
                o = text.index("(Def-expand/")
                dx_span = (o, [c for oo, c in matched_pairs(toks) if oo == o][0])
            for bi2, pos in enumerate(bounds):
                ci += 1
                if quick and ci % 2:
                    continue
                run.invalid(text[:pos] + "(" + text[pos:], "parens", CL_PARENS)
                run.invalid(text[:pos] + ")" + text[pos:], "parens", CL_PARENS)
                chars = "[]~{}" if ci % 3 == 0 else "[]~{}"[ci % 5]
                for ch in chars:
                    rule = "tilde" if ch == "~" else "char"
                    run.invalid(text[:pos] + ch + text[pos:], rule, CL_CHAR, phs=(False,) if ch in "{}" else (False, True))
                if model.version >= "8.3.0" or _inside_name(toks, pos):
                    run.invalid(text[:pos] + "\x07" + text[pos:], "char", CL_CHAR)
            for ti, (t, pos) in enumerate(toks):
                if t in "()":
                    run.invalid(text[:pos] + text[pos + 1:], "parens", CL_PARENS)
                if t == ",":
                    run.invalid(text[:pos] + ",," + text[pos + 1:], "empty", CL_EMPTY)
                    nxt = toks[ti + 1][0] if ti + 1 < len(toks) else ""
                    prv = toks[ti - 1][0] if ti else ""
                    if nxt == "(" or prv == ")":
                        run.invalid(text[:pos] + text[pos + 1:], "comma", CL_EMPTY)
                    if not dx_span[0] < pos < dx_span[1]:
                        run.invalid(text[:pos] + ",()" + text[pos:], "empty", CL_EMPTY)
                if t == "(":
                    run.invalid(text[:pos + 1] + "," + text[pos + 1:], "empty", CL_EMPTY)
                if t == ")":
                    run.invalid(text[:pos] + "," + text[pos:], "empty", CL_EMPTY)
            run.invalid("," + text, "empty", CL_EMPTY)
            run.invalid(text + ",", "empty", CL_EMPTY)
            run.invalid(text + ",()", "empty", CL_EMPTY)
            run.invalid("()," + text, "empty", CL_EMPTY)
            run.invalid(text + ",(),()", "empty", CL_EMPTY)          # two empty groups are also two equal siblings
            run.invalid("((),())," + text, "empty", CL_EMPTY)
            # equal counts but not balanced: a matched pair swapped, a '),(' written for a comma -- kept only where the
            # result really is unbalanced (some ')' closes nothing), which is the case at nesting depth 0
            d1 = [text[:o] + ")" + text[o + 1:c] + "(" + text[c + 1:] for o, c in matched_pairs(toks)]
            d1 += [text[:pos] + "),(" + text[pos + 1:] for t, pos in toks if t == ","]
            for mutated in d1:
                if mutated.count("(") == mutated.count(")") and not balanced(mutated):
                    run.invalid(mutated, "parens", CL_PARENS_D1)
    return run.n - before, len(shapes)


def _leaves(shape):
    for x in shape:
        if x is None:
            yield x
        else:
            yield from _leaves(x[1:])


_SPECIAL_PREFIX = ("Def-expand/", "Onset", "Offset", "Inset", "Duration/", "Delay/", "Event-context")


def _is_special_member(text):
    return text.startswith(_SPECIAL_PREFIX) or text in ("Green", "Triangle")


def _is_special_group(g):
    return any(isinstance(x, str) and x.startswith(_SPECIAL_PREFIX) for x in g) or \
        any(isinstance(x, str) and x in ("Green", "Triangle") for x in g) or \
        any(isinstance(x, list) and _is_special_group(x) for x in g)


def _in_special(tree, lst, inside=False):
    """True if the sibling list `lst` is a special group or lies inside one"""
    if tree is lst:
        return inside or any(isinstance(x, str) and x.startswith(_SPECIAL_PREFIX) for x in lst)
    for x in tree:
        if isinstance(x, list):
            here = inside or any(isinstance(y, str) and y.startswith(_SPECIAL_PREFIX) for y in x)
            if x is lst:
                return here
            if _in_special(x, lst, here):
                return True
    return False


def _defexpand_alterations(kind, grp, a, b, v1, v2):
    head, body = grp
    out = []
    out.append([head, [body[0], "Ellipse"]])                 # one member replaced
    out.append([head, [body[0]]])                            # one member dropped
    out.append([head, body + ["Ellipse"]])                   # one member added
    out.append(["Def-expand/Cundeclared", list(body)])       # undeclared name
    if kind == "def-expand":
        out.append([head + "/3", list(body)])                # value where none is declared
    else:
        out.append([head, [v1.replace("#", "4"), v2.replace("#", "4")]])   # content does not carry the value
        out.append([head.rsplit("/", 1)[0], list(body)])     # value missing
    return out


def tokenize(text):
    """[(token, position)] with tokens '(' ')' ',' and maximal other runs"""
    out, i = [], 0
    while i < len(text):
        if text[i] in "(),":
            out.append((text[i], i))
            i += 1
        else:
            j = i
            while j < len(text) and text[j] not in "(),":
                j += 1
            out.append((text[i:j], i))
            i = j
    return out


def token_bounds(toks):
    """insertion positions: before every token, inside the first tag name, and at the end"""
    b = [p for _, p in toks]
    for t, p in toks:
        if t not in "()," and len(t) > 2:
            b.append(p + 1)
            break
    last = toks[-1]
    b.append(last[1] + len(last[0]))
    return sorted(set(b))


def _inside_name(toks, pos):
    for t, p in toks:
        if t not in "()," and p < pos < p + len(t) and "/" not in t[:pos - p]:
            return True
    return False


def balanced(text):
    """parentheses of the text are properly nested (specification: every '(' has a later matching ')')"""
    depth = 0
    for ch in text:
        if ch == "(":
            depth += 1
        elif ch == ")":
            depth -= 1
            if depth < 0:
                return False
    return depth == 0


def matched_pairs(toks):
    st, out = [], []
    for t, p in toks:
        if t == "(":
            st.append(p)
        elif t == ")":
            out.append((st.pop(), p))
    return out



# =====================================================================================================
# part "timing": several top-level-only tags in one top-level group
# =====================================================================================================
TIMING_BASES = ("Delay", "Duration", "Onset", "Offset", "Inset", "Definition", "Event-context")
TEMPORAL_PARTNERS = ("Duration", "Onset", "Offset", "Inset")     # what Delay may stand next to


def timing_tag(model, base, occurrence, k):
    """the `occurrence`-th (0, 1, 2) writing of a top-level-only tag within one group: every occurrence of Delay / Duration /
    Definition has its own value; the name is written short, long or in another letter case (rotating with k)"""
    node = model.node(base)
    names = [node.name, node.long, node.name.upper(), node.name.lower()]
    name = names[(k + occurrence) % len(names)] if occurrence or k % 3 == 0 else node.name
    if base == "Delay":
        return name + "/" + ("1 s", "2 s", "30 ms")[occurrence]
    if base == "Duration":
        return name + "/" + ("2 s", "3 s", "45 ms")[occurrence]
    if base == "Definition":
        return name + "/" + ("Cnewdef", "Cnewdeg", "Cnewdeh")[occurrence]
    return name


def part_timing(w, run, model, vocab, defs):
    """Rule (HED specification, topLevelTagGroup): a top-level tag group holds at most ONE tag with the topLevelTagGroup
    attribute, with one exception: Delay may accompany one of Duration, Onset, Offset, Inset."""
    import itertools
    before = run.n
    has_top = {n.name for n in model.nodes if n.has("topLevelTagGroup")}
    bases = [b_ for b_ in TIMING_BASES if b_ in has_top]
    if "Delay" not in has_top:
        return 0
    a, b = defs["plain"]
    d = "Def/" + DEF_PLAIN
    rests = {"def": [d], "group": [[a]], "def+group": [d, [a, b]], "none": []}
    fitting = {"Duration": ("group",), "Onset": ("def", "def+group"), "Inset": ("def", "def+group"), "Offset": ("def",)}
    k = 0
    for n in (2, 3):
        for seq in itertools.product(bases, repeat=n):
            k += 1
            occ, tags = {}, []
            for base in seq:
                tags.append(timing_tag(model, base, occ.get(base, 0), k))
                occ[base] = occ.get(base, 0) + 1
            permitted = n == 2 and "Delay" in seq and any(t in seq for t in TEMPORAL_PARTNERS)
            same_text = any(seq.count(x) > 1 for x in ("Onset", "Offset", "Inset", "Event-context"))
            if permitted:
                other = [x for x in seq if x != "Delay"][0]
                for rk in fitting[other]:
                    for pos in range(len(rests[rk]) + 1):
                        # the remainder's first member before / between / after the tags
                        members = list(rests[rk])
                        grp = members[:pos] + tags + members[pos:] if pos <= 1 else [tags[0]] + members + [tags[1]]
                        run.valid(render([grp]), rule="valid-timing-pair")
                        run.valid(render(["Square", grp]), rule="valid-timing-pair")
                continue
            rule_any = ["group"]
            if "Definition" in seq:
                rule_any.append("definition")        # a Definition inside an event annotation is a violation of its own
            if same_text:
                rule_any.append("repeat")            # Onset,Onset is also a repeated tag
            rest_keys = list(rests) if not w.quick or len(set(seq)) < len(seq) else [list(rests)[k % 4], list(rests)[(k + 1) % 4]]
            for ri, rk in enumerate(rest_keys):
                members = list(rests[rk])
                layouts = [tags + members, members + tags, tags[:1] + members + tags[1:]]
                grp = layouts[(k + ri) % 3]
                ctx = [[grp], ["Square", grp], [grp, ["Circle", "Square"]]][(k + ri) % 3]
                run.invalid(render(ctx), "group", CL_GROUP_MULTI, any_of=rule_any)
    return run.n - before


# =====================================================================================================
# part "twin": a misplaced reserved-tag group next to an EQUAL, correctly placed copy of itself
# =====================================================================================================
TWIN_SUBST = (("Def/" + DEF_PLAIN, "Def/" + DEF_VALUE + "/4"), ("Def/" + DEF_VALUE + "/3", "Def/" + DEF_VALUE + "/4"),
              ("Duration/3 s", "Duration/4 s"), ("Delay/2 s", "Delay/5 s"), ("Green", "Ellipse"), ("Triangle", "Rectangle"))


def twin_controls(grp):
    """slightly different, still rule-conforming copies of a reserved-tag group: one leaf (not inside a Def-expand group)
    replaced by a leaf of the same kind (another value / another declared Def / another plain tag)"""
    out = []

    def rec(items, rebuild):
        if any(isinstance(x, str) and x.startswith("Def-expand/") for x in items):
            return
        for i, x in enumerate(items):
            if isinstance(x, list):
                rec(x, lambda new, i=i, items=items, rebuild=rebuild: rebuild(items[:i] + [new] + items[i + 1:]))
            else:
                for old, new in TWIN_SUBST:
                    if x == old:
                        out.append(rebuild(items[:i] + [new] + items[i + 1:]))
    rec(grp, lambda new: new)
    return out


def twin_wrappers(g):
    """(items holding g one level down, items holding g two levels down): g inside ordinary groups, alone / with a tag before /
    with a group after"""
    one = [[g], ["Square", g], [g, ["Item"]]]
    two = [[[g]], [["Square", g]], ["Item", ["Square", g]], [[g, ["Item"]], "Circle"]]
    return one, two


def part_twin(w, run, model, vocab, defs):
    """Placement rules speak about WHERE a group stands, not about what else the string holds: a reserved-tag group that is
    nested inside another group is misplaced whether or not the same string also holds an equal group at top level.
    For every reserved-tag group G that is valid at top level: G at top level plus, in another top-level group, a copy of G one
    and two levels down -- the copy being the identical text, a respelling (long form / upper case: the same tags), or a
    slightly different group (control); the top-level one before and after.  Oracle (a) from the rule table: the placement
    code of the rule is reported (TAG_GROUP_ERROR, with TEMPORAL_TAG_ERROR for the temporal tags; DEFINITION_INVALID for
    Definition); (b) relational: the error codes are those of the same string in which the TOP-LEVEL copy is replaced by the
    slightly different group (so nothing equal to the nested one exists elsewhere)."""
    before = run.n
    has_top = {n.name for n in model.nodes if n.has("topLevelTagGroup")}
    a, b = defs["plain"]
    groups = [(kind, grp, "group", None if kind == "event-context" else "temporal")
              for kind, grp, top in special_groups(model, defs) if top]
    if "Definition" in has_top:
        # a Definition group is DEFINITION_INVALID in an event annotation wherever it stands; nested it is misplaced as well
        groups.append(("definition", ["Definition/Cnewdef", [a]], "definition", None))
        TWIN_SUBST_DEF = [["Definition/Cnewdeg", [a]], ["Definition/Cnewdef", [b]]]
    k = 0
    for kind, grp, rule, also in groups:
        controls = TWIN_SUBST_DEF if kind == "definition" else twin_controls(grp)
        assert controls, kind
        if kind != "definition":
            run.valid(render([grp]), rule="valid-twin-base")
            for c in controls:
                run.valid(render([c]), rule="valid-twin-control")
            # two equal groups side by side at top level are a repeated group
            run.invalid(render([grp, grp]), "repeat", CL_REPEAT)
            run.invalid(render([grp, "Square", respelled_group(model, grp, 1)]), "repeat", CL_REPEAT)
        nested_copies = [("identical", grp), ("respelled", respelled_group(model, grp, 0)),
                         ("respelled", respelled_group(model, grp, 1))]
        nested_copies += [("control", c) for c in controls[:2]]
        one, two = twin_wrappers("@")
        for depth, wrappers in ((1, one), (2, two)):
            for wi in range(len(wrappers)):
                for ckind, copy in nested_copies:
                    wrapper = twin_wrappers(copy)[depth - 1][wi]
                    for order in (0, 1):
                        k += 1
                        variants = []      # the string with the equal top-level copy, then with each different top-level group
                        for top in [grp] + controls[:2]:
                            if ckind == "control" and top is not grp and top == copy:
                                continue
                            items = [top, wrapper] if order == 0 else [wrapper, top]
                            if k % 3 == 0:
                                items = items[:1] + ["Ellipse"] + items[1:]
                            variants.append(render(items))
                        verdicts = []
                        for text in variants:
                            for ph in (False, True):
                                errs, inp = run._obs(text, ph, CL_GROUP, "twin:%s:%s:depth%d" % (kind, ckind, depth))
                                if errs is None:
                                    continue
                                exp = {"contains": [CODE[rule]] + ([CODE[also]] if also else [])}
                                w.check(all(c in errs for c in exp["contains"]), CL_GROUP, inp, observed=errs, expected=exp)
                                if not ph:
                                    verdicts.append((text, errs))
                        # relational: the verdict does not depend on whether the top-level group equals the nested one
                        for text, errs in verdicts[1:]:
                            if errs != verdicts[0][1]:
                                inp = {"schema": run.env.version, "text": verdicts[0][0], "allow_placeholders": False,
                                       "rule": "twin-relational:%s:%s:depth%d" % (kind, ckind, depth),
                                       "definitions": run.env_defs, "control_text": text}
                                w.fail(CL_GROUP, inp, observed=verdicts[0][1],
                                       expected={"contains": [CODE[rule]], "equals_codes_of_control": errs})
    return run.n - before


# =====================================================================================================
def part_witness(w, run, model, vocab, defs):
    """minimal fixed inputs for the narrow clauses (defects seen at design time) and their passing neighbours"""
    before = run.n
    a, b = defs["plain"]
    vn, vu = defs["value_node"], defs["value_unit"]
    for t in ("Red),(Blue", ")(", "(Red)),((Blue)", "Red)(", "(Red),)Blue(,Green"):
        run.invalid(t, "parens", CL_PARENS_D1)
    for t in ("(Red", "Red)", "((Red),Blue", "(Red))"):
        run.invalid(t, "parens", CL_PARENS)
    for t in ("()", "Red,()", "(),()", "Red,(),()", "(Red,(),())", "Red,,Blue", ",Red", "Red,", "(Red,)", "(,Red)"):
        run.invalid(t, "empty", CL_EMPTY)
    for t in ("Red(Blue)", "(Red)Blue", "(Red)(Blue)", "Red (Blue)", "(Red) Blue", "(Red) (Blue)"):
        run.invalid(t, "comma", CL_EMPTY)
    for t in ("Red, ,Blue", "(Red, ,Blue), Square", " ,Red", "Red, ", "(Red, ( ,Blue, Square))", "( )", "Red,( )", "(Red, )"):
        run.invalid(t, "empty", CL_EMPTY)
    for t in ("Label/ABC, Label/Abd, Label/abc", "(Label/Run, Label/Stop, Red, Label/run)", "Label/abc,Label/Abd,Label/ABC",
              "Label/abc,Informational-property/Label/ABC", "Red/QxABC,Red/QxAbd,Red-color/Red/Qxabc",
              "(Red,Label/ABC),(Red,Label/Abd),(Label/abc,Red)"):
        run.invalid(t, "repeat", CL_REPEAT)
    run.invalid("(Red,Blue),(Green),(Blue,Red)", "repeat", CL_REPEAT_D2)
    run.invalid("((Red),(Blue)),((Green)),((Blue),(Red))", "repeat", CL_REPEAT_D2)
    for t in ("(Red,Blue),(Blue,Red)", "(Red,Blue),(Green),(Red,Blue)", "(Blue,Red),(Green),(Blue,Red)", "Red,(Green),Red",
              "(Red,Blue),Green,(Blue,Red)"):
        run.invalid(t, "repeat", CL_REPEAT)
    run.valid("(Def-expand/%s,(%s,%s))" % (DEF_PLAIN, a, b))
    run.valid("(Def-expand/%s,(%s,%s))" % (DEF_PLAIN, b, a), clause=CL_VALID_DEFX_ORDER)
    run.valid("((%s,%s),Def-expand/%s)" % (a, b, DEF_PLAIN), clause=CL_VALID_DEFX_ORDER)
    run.invalid("%s/3 xyz %s" % (vn.name, vu), "unit", CL_UNIT_EXTRA)
    run.invalid("%s/3 xyz" % vn.name, "unit", CL_UNIT)
    run.invalid("Red/#", "placeholder", CL_PLACEHOLDER_EXT, phs=(True,))
    run.invalid("Red/#", "placeholder", CL_PLACEHOLDER, phs=(False,))
    return run.n - before


def _task(args):
    """one unit of work, run in a worker process: (tier, seed, version, part, chunk, nchunks) -> partial result"""
    import random
    tier, seed, version, part, chunk, nchunks = args
    w = Workload("C01", tier, seed)
    w.rng = random.Random("%s/%s/%s/%s" % (seed, version, part, chunk))
    w.max_failures_per_clause = 3
    model = SchemaModel(version)
    defs = pick_defs(model)
    env = Env(version, defs["strings"])
    if env.def_issues and chunk == 0:
        w.fail(CL_VALID, {"schema": version, "text": "", "allow_placeholders": False, "rule": "definitions",
                          "definitions": defs["strings"]}, observed=env.def_issues, expected=[])
    vocab = Vocab(model, w.quick, w.rng)
    run = Runner(w, env, model)
    run.env_defs = defs["strings"]
    extra = {}
    if part == "witness":
        n = part_witness(w, run, model, vocab, defs)
    elif part == "timing":
        n = part_timing(w, run, model, vocab, defs)
    elif part == "twin":
        n = part_twin(w, run, model, vocab, defs)
    elif part == "values":
        from rt.c01_values import part_values
        n, run.counts, extra["bounds"] = part_values(w, env, model, defs["strings"], chunk, nchunks)
    elif part == "vocabulary":
        n = part_vocabulary(w, run, model, vocab, defs, chunk, nchunks)
    else:
        n, extra["shapes"] = part_grammar(w, run, model, vocab, defs, chunk, nchunks)
    return {"version": version, "part": part, "chunk": chunk, "cases": n, "counts": run.counts, "extra": extra,
            "evaluations": w.evaluations, "distinct": {_h(k) for k in w.distinct}, "failures": w.failures,
            "per_clause": w._per_clause, "samples": w.samples[:2]}


def _h(key):
    import hashlib
    return int.from_bytes(hashlib.blake2b(repr(key).encode("utf-8", "backslashreplace"), digest_size=8).digest(), "big")


def run(w: Workload):
    import multiprocessing
    w.rule = ("vocabulary sweep: one case per (schema version, tag, spelling, construct[, value, unit]) and per tag-level "
              "single-rule mutation of it; grammar: one case per (forest shape, filling, special group) and per (mutation, "
              "position); values: one case per (schema version, value-class tag template, value string) over all short strings of a "
              "small alphabet; each with allow_placeholders in {False, True}; cases are distinct by (version, text, flag)")
    versions = ["8.3.0"] if w.quick else ["8.3.0", "8.2.0", "8.0.0"]
    value_versions = ["8.3.0", "8.2.0"] if w.quick else versions      # the lexical value rules also under an older schema
    for v in value_versions:
        schema(v)                       # load (and seed the cache) once, before forking
    vchunks, gchunks = (4, 4) if w.quick else (5, 8)
    xchunks = 3 if w.quick else 8
    tasks = []
    for v in value_versions:
        if v in versions:
            tasks += [(w.tier, w.seed, v, "witness", 0, 1)]
            tasks += [(w.tier, w.seed, v, "grammar", c, gchunks) for c in range(gchunks)]
            tasks += [(w.tier, w.seed, v, "vocabulary", c, vchunks) for c in range(vchunks)]
        tasks += [(w.tier, w.seed, v, "values", c, xchunks) for c in range(xchunks)]
        if v >= "8.2.0":
            tasks += [(w.tier, w.seed, v, "timing", 0, 1)]
            tasks += [(w.tier, w.seed, v, "twin", 0, 1)]
    versions = value_versions
    ctx = multiprocessing.get_context("fork")
    with ctx.Pool(min(14, len(tasks))) as pool:
        results = pool.map(_task, tasks, chunksize=1)
    order = ["witness", "vocabulary", "grammar", "values", "timing", "twin"]
    results.sort(key=lambda r: (versions.index(r["version"]), order.index(r["part"]), r["chunk"]))
    agg = {}
    for r in results:
        w.evaluations += r["evaluations"]
        w.distinct |= r["distinct"]
        for k, n in r["per_clause"].items():
            w._per_clause[k] = w._per_clause.get(k, 0) + n
        for f in r["failures"]:
            if sum(1 for g in w.failures if g["clause"] == f["clause"]) < w.max_failures_per_clause:
                w.failures.append(f)
        w.samples += r["samples"]
        a = agg.setdefault((r["version"], r["part"]), {"cases": 0, "counts": {}, "shapes": 0})
        a["cases"] += r["cases"]
        a["shapes"] = max(a["shapes"], r["extra"].get("shapes", 0))
        a.setdefault("bounds", {}).update(r["extra"].get("bounds", {}))
        for k, n in r["counts"].items():
            a["counts"][k] = a["counts"].get(k, 0) + n
    w.samples = w.samples[:8]
    for (version, part), a in agg.items():
        max_n, max_d = grammar_bound(w.quick, version)
        if part == "witness":
            w.part("witness[%s]" % version, cases=a["cases"], bound="fixed list of minimal inputs for the narrow clauses "
                   "and their passing neighbours", exhaustive=True, per_clause=a["counts"])
        elif part == "timing":
            w.part("timing[%s]" % version, cases=a["cases"],
                   bound="all 7^2 + 7^3 sequences of two / three top-level-only tags (Delay, Duration, Onset, Offset, Inset, "
                         "Definition, Event-context; repeated bases with different values and spellings) in one top-level group "
                         "x %s remainders (Def, inner group, both, none) in rotating member layouts and contexts" %
                         ("2 of 4 (all 4 when a base repeats)" if w.quick else "all 4"),
                   exhaustive=True, per_clause=a["counts"])
        elif part == "twin":
            w.part("twin[%s]" % version, cases=a["cases"],
                   bound="every reserved-tag group of the grammar part that is valid at top level (Onset / Offset / Inset / Duration / "
                         "Delay pairs / Event-context, plus a Definition group) x {identical, 2 respellings, 2 slightly different "
                         "copies} nested in 3 wrappers one level down and 4 wrappers two levels down x top-level copy before / after x "
                         "top-level copy {equal, 2 slightly different}; verdict = placement code, and equal to the control's",
                   exhaustive=True, per_clause=a["counts"])
        elif part == "values":
            w.part("values[%s]" % version, cases=a["cases"],
                   bound="; ".join("%s: %s" % (k, a["bounds"][k]) for k in sorted(a["bounds"])),
                   exhaustive=True, per_clause=a["counts"])
        elif part == "vocabulary":
            w.part("vocabulary[%s]" % version, cases=a["cases"],
                   bound="every non-deprecated tag of HED%s.xml x every spelling (short, each partial path, long, 2 case "
                         "variants) x rotating context of depth <= 2; values: %s per value class, units: every unit spelling "
                         "of the unit class with %s SI modifiers; tag-level mutations on %s spellings" %
                         (version, "2-4" if w.quick else "2-7", "2 of 20" if w.quick else "all",
                          "short, long and one more" if w.quick else "all"),
                   exhaustive=True, per_clause=a["counts"])
        else:
            w.part("grammar[%s]" % version, cases=a["cases"],
                   bound="all %d ordered forest shapes with <= %d leaves and depth <= %d, one random distinct-atom filling "
                         "each, one special group on every second shape; each structural mutation at every position" %
                         (a["shapes"], max_n, max_d),
                   exhaustive=False, per_clause=a["counts"])
    w.exhaustive = False
    w.not_covered += [
        "library / partnered schemas and namespaces (C13); the 'required' attribute (no bundled standard schema has a required tag)",
        "unit classes no tag uses (currency '$' prefix units, memory size, electric potential, magnetic field)",
        "row/file level rules (Onset/Offset ordering, sidecar placeholder counts) and Definition declarations themselves",
        "grammar part is sampled: atoms are drawn at random from the vocabulary (all tags are covered by the sweep part only in small contexts)",
        "value strings longer than the bound of the values part or over other characters than its alphabets (digits 0 and 5 stand "
        "for all digits, x for all letters); non-ASCII values under schemas before 8.3.0",
        "non-ASCII letters inside tag names; values containing '/', parentheses or commas; characters of extension names "
        "(hed-python accepts . + ^ and blank there); units whose name contains a blank ('degree Celsius' in 8.1/8.2)",
        "the number of issues per violation (only: valid => none, one violation => the rule's code is present)",
    ]
    w.assumptions += [
        "the schema XML files under hed/schema/schema_data are what load_schema_version() serves (cache seeded from them)",
        "English plural of a unit name is name+'s' (only used where that is beyond doubt)",
        "rule -> code table as in the HED specification appendix B (written into this file from the property text)",
    ]


def replay(w: Workload, case: dict):
    inp = case["input"]
    env = Env(inp["schema"], inp["definitions"])
    errs, exc = env.observe(inp["text"], inp["allow_placeholders"])
    clause = case["clause"]
    if clause == CL_ENTRY:
        errs2, exc2 = env.observe_entry2(inp["text"], inp["allow_placeholders"])
        if exc or exc2 or errs != errs2:
            w.fail(clause, inp, observed={"HedValidator.validate": errs or exc, "HedString.validate": errs2 or exc2},
                   expected="equal, no exception")
        return
    if exc is not None:
        w.fail(CL_ENTRY, inp, observed=exc, expected="no exception")
        return
    exp = case.get("expected")
    if isinstance(exp, dict) and exp.get("nonempty"):
        if errs == []:
            w.fail(clause, inp, observed=errs, expected=exp)
    elif isinstance(exp, dict) and isinstance(exp.get("contains"), list):       # part "twin"
        ok = all(c in errs for c in exp["contains"])
        if ok and inp.get("control_text"):
            errs_c, exc_c = env.observe(inp["control_text"], inp["allow_placeholders"])
            exp = dict(exp, equals_codes_of_control=errs_c if exc_c is None else exc_c)
            ok = exc_c is None and errs_c == errs
        if not ok:
            w.fail(clause, inp, observed=errs, expected=exp)
    elif isinstance(exp, dict) and "contains_one_of" in exp:
        if not any(c in errs for c in exp["contains_one_of"]) or (exp.get("contains") and exp["contains"] not in errs):
            w.fail(clause, inp, observed=errs, expected=exp)
    elif errs != []:
        w.fail(clause, inp, observed=errs, expected=[])


if __name__ == "__main__":
    main(run, "C01", replay)
